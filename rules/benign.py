"""False-alarm regression suite: behaviour-preserving variants of /repo (mutants/benign/*.patch) must leave every claimed
check silent (exit 0). Usage: benign.py [--only substr] [--jobs N]"""
import glob
import json
import os
import shutil
import subprocess
import sys
import tempfile
from concurrent.futures import ThreadPoolExecutor

VERIF = os.path.dirname(os.path.dirname(os.path.abspath(__file__)))
REPO = "/repo"


def run_one(patch):
    scratch = tempfile.mkdtemp(prefix="peppi-benign-")
    try:
        if os.environ.get("PEPPI_SNAPSHOT") == "head":
            # development runs: copy HEAD's tree, so that a seeded change being applied to /repo's working tree meanwhile is not picked up
            tar = subprocess.Popen(["git", "-C", REPO, "archive", "HEAD"], stdout=subprocess.PIPE)
            subprocess.check_call(["tar", "-x", "-C", scratch], stdin=tar.stdout)
            tar.wait()
        else:
            subprocess.check_call(["rsync", "-a", "--exclude", "target", "--exclude", ".git", REPO + "/", scratch + "/"])
        r = subprocess.run(["patch", "-p1", "--no-backup-if-mismatch", "-s", "-d", scratch, "-i", patch], capture_output=True, text=True)
        if r.returncode != 0:
            return patch, {"_patch": (9, r.stdout + r.stderr)}
        evid = os.path.join(scratch, "_evid")
        os.makedirs(evid)
        env = dict(os.environ, PEPPI_REPO=scratch, PEPPI_EVID=evid)
        man = json.load(open(os.path.join(VERIF, "MANIFEST.json")))
        out = {}
        for c in man["checks"]:
            p = c["property_id"]
            x = subprocess.run([os.path.join(VERIF, "check"), p, "--tier", "quick"], env=env, capture_output=True, text=True, cwd=VERIF)
            if x.returncode != 0:
                out[p] = (x.returncode, x.stdout[-1200:])
        return patch, out
    finally:
        shutil.rmtree(scratch, ignore_errors=True)


def main():
    a = sys.argv[1:]
    only = a[a.index("--only") + 1] if "--only" in a else None
    jobs = int(a[a.index("--jobs") + 1]) if "--jobs" in a else 5
    ps = sorted(p for p in glob.glob(os.path.join(VERIF, "mutants", "benign", "*.patch")) if not only or only in p)
    bad = 0
    with ThreadPoolExecutor(max_workers=jobs) as ex:
        for patch, out in ex.map(run_one, ps):
            if out:
                bad += 1
                print("BENIGN %s: FALSE ALARM in %s" % (os.path.basename(patch), sorted(out)))
                for k, (rc, o) in out.items():
                    print("   --- %s rc=%d\n%s" % (k, rc, "\n".join("      " + l for l in o.splitlines()[-6:])))
            else:
                print("BENIGN %s: silent" % os.path.basename(patch))
    print("benign: %d variants, %d with alarms" % (len(ps), bad))
    return 1 if bad else 0


if __name__ == "__main__":
    sys.exit(main())
