"""Shared reader-safety rules: panic inventory (P), stack (S), termination (T), error discipline (E), blocking (W)."""
import json
import os
import re

import layout as L
import model
import order
import panics
import reach
import tir
from tir import declared, strip, callee

VERIF = os.path.dirname(os.path.dirname(os.path.abspath(__file__)))


# ------------------------------------------------------------------------------------------------ TIR indexes

def span_index(F, owners):
    """(file, line, col) -> TIR nodes, for the bodies of `owners`"""
    idx = {}
    for o in owners:
        b = F.body(o)
        if b is None or not b.get("tir"):
            continue
        for n in tir.walk(b["tir"]["value"]):
            s = n.get("sp")
            if s:
                idx.setdefault((s[0], s[1], s[2]), []).append((o, n))
    return idx


def parents(root):
    """id(node) -> parent node"""
    par = {}
    st = [root]
    while st:
        x = st.pop()
        for c in tir.children(x):
            par[id(c)] = x
            st.append(c)
    return par


def enclosing_closures(root):
    """binding id -> (closure node, param index) for closure parameters below root"""
    out = {}
    for n in tir.walk(root):
        if n.get("k") == "Closure":
            for i, p in enumerate(n["params"]):
                if p.get("k") == "Bind":
                    out[p["id"]] = (n, i)
    return out


def closure_application(root, closure):
    """the adaptor call a closure is passed to, and its receiver: (method, recv expr)"""
    for n in tir.walk(root):
        if n.get("k") == "MethodCall":
            for a in n.get("args", []):
                if strip(a) is closure:
                    return n["method"], n["recv"]
    return None, None


def const_range(F, e):
    """(lo, hi) of an `a..b` Range expression with evaluable bounds"""
    e = strip(e)
    if e.get("k") == "Struct" and (e.get("path") or "").endswith("ops::Range"):
        ev = order.Evaluator(F)
        try:
            f = {x["name"]: ev.eval(x["e"], {}) for x in e["fields"]}
            return f.get("start"), f.get("end")
        except L.Unsupported:
            return None
    return None


def tir_range_of_local(F, root, node):
    """range of a local that is the parameter of a closure applied over a constant Range: (lo, hi_exclusive)"""
    n = strip(node)
    if n.get("k") == "Cast":
        n = strip(n["e"])
    if n.get("k") != "Path" or n.get("res") != "local":
        return None
    cl = enclosing_closures(root).get(n.get("id"))
    if cl is None:
        # the index of `ARRAY.into_iter().enumerate().<adaptor>(|(i, x)| ..)`: 0..len(ARRAY)
        for c in tir.walk(root):
            if c.get("k") == "Closure" and len(c["params"]) == 1 and c["params"][0].get("k") == "Tuple" and c["params"][0]["pats"] and c["params"][0]["pats"][0].get("k") == "Bind" \
                    and c["params"][0]["pats"][0].get("id") == n.get("id"):
                method, recv = closure_application(root, c)
                if method in ("map", "filter_map", "for_each", "filter", "flat_map", "try_for_each"):
                    it = strip(recv)
                    if it.get("k") == "MethodCall" and it["method"] == "enumerate" and not it.get("args"):
                        src = strip(it["recv"])
                        while src.get("k") == "MethodCall" and src["method"] in ("iter", "into_iter", "iter_mut", "copied", "cloned") and not src.get("args"):
                            src = strip(src["recv"])
                        ln = panics.array_len((src.get("ty") or "").lstrip("&"))
                        if ln is not None:
                            return (0, ln)
    if cl is None:
        # the variable of `for n in a..b` with evaluable bounds (an immutable binding: the pattern is a plain `n`)
        for f in tir.walk(root):
            if f.get("k") == "For" and f["pat"].get("k") == "Bind" and f["pat"].get("id") == n.get("id") and "Mut" not in (f["pat"].get("mode") or "").replace("Not", ""):
                r = const_range(F, f["iter"])
                if r and r[0] is not None and r[1] is not None:
                    return r
    if cl is None:
        # the index of `for (i, x) in ARRAY.into_iter().enumerate()` / `.iter().enumerate()`: 0..len(ARRAY)
        for f in tir.walk(root):
            if f.get("k") == "For" and f["pat"].get("k") == "Tuple" and f["pat"]["pats"] and f["pat"]["pats"][0].get("k") == "Bind" and f["pat"]["pats"][0].get("id") == n.get("id"):
                it = strip(f["iter"])
                if it.get("k") == "MethodCall" and it["method"] == "enumerate" and not it.get("args"):
                    src = strip(it["recv"])
                    while src.get("k") == "MethodCall" and src["method"] in ("iter", "into_iter", "iter_mut", "copied", "cloned") and not src.get("args"):
                        src = strip(src["recv"])
                    ln = panics.array_len(src.get("ty") or "")
                    if ln is not None:
                        return (0, ln)
        return None
    method, recv = closure_application(root, cl[0])
    if method not in ("map", "filter_map", "for_each", "filter", "flat_map", "try_for_each"):
        return None
    return const_range(F, recv)


def near(sidx, key):
    """nodes at a span start, tolerating a one-column difference between HIR and MIR spans (`&x[..]`)"""
    if not key or len(key) != 3:
        return []
    out = list(sidx.get(tuple(key), []))
    for d in (-1, 1):
        out += sidx.get((key[0], key[1], key[2] + d), [])
    return out


INT_BOUNDS = {"u8": (0, 2**8 - 1), "u16": (0, 2**16 - 1), "u32": (0, 2**32 - 1), "u64": (0, 2**64 - 1), "usize": (0, 2**64 - 1),
              "i8": (-2**7, 2**7 - 1), "i16": (-2**15, 2**15 - 1), "i32": (-2**31, 2**31 - 1), "i64": (-2**63, 2**63 - 1), "isize": (-2**63, 2**63 - 1)}


def tir_int_range(e, env, depth=0):
    """interval of an integer expression read off the typed tree: literals, widening casts (the source type bounds the value),
    immutable lets followed to their definition, `NonZero::get`, and otherwise the expression's own type"""
    e = strip(e)
    if depth > 8:
        return None
    k = e.get("k")
    if k == "Lit" and e.get("lit") == "int":
        return (e["v"], e["v"])
    if k == "Cast":
        inner = tir_int_range(e["e"], env, depth + 1)
        own = INT_BOUNDS.get(e.get("ty"))
        if inner and own and own[0] <= inner[0] and inner[1] <= own[1]:
            return inner
        return own
    if k == "Path" and e.get("res") == "local" and env is not None:
        r = env.resolve(e, peel=True)
        if r is not e and r.get("k") != "Path":
            got = tir_int_range(r, env, depth + 1)
            own = INT_BOUNDS.get(e.get("ty"))
            if got and own:
                return (max(got[0], own[0]), min(got[1], own[1]))
            return got or own
    if k == "MethodCall" and e.get("method") == "get" and "NonZero<" in (e["recv"].get("ty") or ""):
        m = re.search(r"NonZero<(\w+)>", e["recv"].get("ty") or "")
        b_ = INT_BOUNDS.get(m.group(1)) if m else None
        return (1, b_[1]) if b_ else None
    if k == "Binary" and e.get("op") in ("Add", "Sub", "Mul"):
        a, b_ = tir_int_range(e["l"], env, depth + 1), tir_int_range(e["r"], env, depth + 1)
        own = INT_BOUNDS.get(e.get("ty"))
        if a and b_ and own:
            if e["op"] == "Add":
                r = (a[0] + b_[0], a[1] + b_[1])
            elif e["op"] == "Sub":
                r = (a[0] - b_[1], a[1] - b_[0])
            else:
                c = [a[0] * b_[0], a[0] * b_[1], a[1] * b_[0], a[1] * b_[1]]
                r = (min(c), max(c))
            return r if own[0] <= r[0] and r[1] <= own[1] else None
        return None
    return INT_BOUNDS.get(e.get("ty"))


def discharge_tir(F, ctx, owner, site, sidx):
    """R-class decisions that need the typed tree (iterator-bounded indices, slices up to a searched position)"""
    t = site["term"]
    b = F.body(owner)
    if b is None:
        return None
    root = b["tir"]["value"]
    if site["kind"] in ("overflow:Add", "overflow:Sub", "overflow:Mul") and t.get("t") == "assert":
        # a plain binary operation whose operand intervals, read off the typed tree, cannot leave the result type
        op = site["kind"].split(":", 1)[1]
        for key in (t.get("esp"), site.get("sp")):
            if not key:
                continue
            for o, n in near(sidx, tuple(key)):
                if o == owner and n.get("k") == "Binary" and n.get("op") == op and not n.get("overloaded"):
                    if (id(F), o) not in _ENVS:
                        _ENVS[(id(F), o)] = tir.LetEnv(root)
                    env = _ENVS[(id(F), o)]
                    a, b2 = tir_int_range(n["l"], env), tir_int_range(n["r"], env)
                    own = INT_BOUNDS.get(n.get("ty"))
                    # an enclosing `if x < C` / `if x <= C` (x an unassigned local, this site in the then-branch) bounds x
                    par = parents(root)

                    def guarded(e, rng_):
                        e0 = strip(e)
                        if not (e0.get("k") == "Path" and e0.get("res") == "local") or rng_ is None:
                            return rng_
                        if any(x.get("k") in ("Assign", "AssignOp") and strip(x["l"]).get("id") == e0.get("id") for x in tir.walk(root)):
                            return rng_
                        y = n
                        hi = rng_[1]
                        while id(y) in par:
                            p = par[id(y)]
                            if p.get("k") == "If" and p.get("cond") is not y and any(z is y for z in tir.walk(p["then"])):
                                c = strip(p["cond"])
                                if c.get("k") == "Binary" and c.get("op") in ("Lt", "Le") and strip(c["l"]).get("id") == e0.get("id") and strip(c["l"]).get("k") == "Path":
                                    try:
                                        cv = order.Evaluator(F).eval(c["r"], {})
                                    except L.Unsupported:
                                        cv = None
                                    if isinstance(cv, int):
                                        hi = min(hi, cv - 1 if c["op"] == "Lt" else cv)
                            y = p
                        return (rng_[0], hi)
                    a, b2 = guarded(n["l"], a), guarded(n["r"], b2)
                    if a and b2 and own:
                        r = (a[0] + b2[0], a[1] + b2[1]) if op == "Add" else ((a[0] - b2[1], a[1] - b2[0]) if op == "Sub" else None)
                        if op == "Mul":
                            c = [a[0] * b2[0], a[0] * b2[1], a[1] * b2[0], a[1] * b2[1]]
                            r = (min(c), max(c))
                        if r and own[0] <= r[0] and r[1] <= own[1]:
                            return "operands range over %s and %s (typed tree): the result %s stays inside %s" % (a, b2, r, n.get("ty"))
    if site["kind"] == "bounds":
        key = tuple(site["sp"])
        for o, n in near(sidx, key):
            if n.get("k") == "Index" and not n.get("overloaded") and o == owner:
                why = known_slice_length(root, n)
                if why:
                    return why
        for o, n in near(sidx, key):
            if n.get("k") == "Index" and not n.get("overloaded"):
                ln = panics.array_len(strip(n["base"]).get("ty") or "") or panics.array_len(n["base"].get("ty") or "")
                r = tir_range_of_local(F, root, n["index"])
                if ln is not None and r and r[0] is not None and r[0] >= 0 and r[1] <= ln:
                    return "index ranges over %d..%d (closure over a constant range), array length %d" % (r[0], r[1], ln)
        return None
    if site["kind"] == "unwrap":
        key = tuple(t.get("esp") or ())
        for o, n in near(sidx, key):
            if n.get("k") == "MethodCall" and n["method"] in ("unwrap", "expect"):
                inner = strip(n["recv"])
                # Enum::try_from(n as u8).unwrap() with n over a constant range inside the discriminant set
                if inner.get("k") == "Call" and (declared(inner) or "").endswith("TryFrom::try_from") and len(inner["args"]) == 1:
                    ety = re.match(r"std::result::Result<([\w:]+),", inner.get("ty") or "")
                    r = tir_range_of_local(F, root, inner["args"][0])
                    en = F.enums.get(ety.group(1)) if ety else None
                    if en and r and r[0] is not None:
                        ds = set(v["discr"] for v in en["variants"])
                        if all(x in ds for x in range(r[0], r[1])):
                            return "argument ranges over %d..%d, all discriminants of %s" % (r[0], r[1], en["path"])
                # char::try_from(c).unwrap() handled by the invariant table
        return None
    if site["kind"] == "index":
        key = tuple(t.get("esp") or ())
        cands = [n for o, n in near(sidx, key) if n.get("k") == "Index"]
        if key:
            # the MIR span of an overloaded index call starts at the `[`: match the Index node whose index operand starts right after it
            for (f, ln, col), nodes in sidx.items():
                if f == key[0] and ln == key[1]:
                    for o, n in nodes:
                        if n.get("k") == "Index" and (n["index"].get("sp") or [None, None, -9])[2] - 1 == key[2] and n["index"]["sp"][1] == key[1]:
                            cands.append(n)
        for n in cands:
            r = slice_to_position(F, root, n)
            if r:
                return r
        return None
    return None


READ_WIDTH = {"read_u8": 1, "read_i8": 1, "read_u16": 2, "read_i16": 2, "read_u32": 4, "read_i32": 4, "read_f32": 4, "read_u64": 8, "read_i64": 8, "read_f64": 8}


def known_slice_length(root, n):
    """`s[i]` with a literal i on a slice local whose length is known: an element of `xs.chunks_exact(k)`, or a half of
    `ARR.split_at(m)` (ARR an array reference) minus the bytes `s.read_uN()` consumed before the access"""
    i = tir.lit_int(n["index"])
    b = strip(n["base"])
    if i is None or i < 0 or b.get("k") != "Path" or b.get("res") != "local":
        return None
    bid = b.get("id")
    # element of chunks_exact(k)
    for f in tir.walk(root):
        pats = []
        it = None
        if f.get("k") == "For":
            pats, it = [f["pat"]], strip(f["iter"])
        elif f.get("k") == "Closure" and len(f["params"]) == 1:
            pats = [f["params"][0]]
        for p in pats:
            while p.get("k") == "Ref":
                p = p["pat"]
            if p.get("k") == "Bind" and p.get("id") == bid and it is not None:
                src = it
                while src.get("k") == "MethodCall" and src["method"] in ("enumerate", "by_ref") and not src.get("args"):
                    src = strip(src["recv"])
                if src.get("k") == "MethodCall" and src["method"] == "chunks_exact" and len(src["args"]) == 1:
                    k = tir.lit_int(src["args"][0])
                    if k is not None and i < k:
                        # reads on the chunk before the access shorten it
                        return "element of chunks_exact(%d), index %d" % (k, i)
    # half of split_at(m) on an array reference
    for s in tir.walk(root):
        if s.get("k") == "Let" and s["pat"].get("k") == "Tuple" and len(s["pat"]["pats"]) == 2 and s.get("init") is not None:
            init = strip(s["init"])
            if init.get("k") == "MethodCall" and init["method"] == "split_at" and len(init["args"]) == 1:
                m = tir.lit_int(init["args"][0])
                ln = panics.array_len((strip(init["recv"]).get("ty") or "").lstrip("&"))
                for pos, q in enumerate(s["pat"]["pats"]):
                    if q.get("k") == "Bind" and q.get("id") == bid and m is not None and ln is not None and m <= ln:
                        have = m if pos == 0 else ln - m
                        consumed = 0
                        for x in tir.walk(root):
                            if x is n:
                                break
                            if x.get("k") == "MethodCall" and strip(x["recv"]).get("id") == bid:
                                if x["method"] in READ_WIDTH:
                                    consumed += READ_WIDTH[x["method"]]
                                elif x["method"] not in ("len", "is_empty", "iter", "first", "last", "get"):
                                    return None
                            if x.get("k") in ("Assign", "AssignOp") and strip(x["l"]).get("id") == bid:
                                return None
                        if i < have - consumed:
                            return "half of split_at(%d) on an array of %d, %d bytes consumed before, index %d" % (m, ln, consumed, i)
    return None


def slice_to_position(F, root, n):
    """&B[0..x] where x = B.iter().position(..).unwrap_or(K) with K = B.len() or a constant <= len(B)"""
    idx = strip(n["index"])
    if not (idx.get("k") == "Struct" and (idx.get("path") or "").endswith("ops::Range")):
        return None
    f = {x["name"]: x["e"] for x in idx["fields"]}
    if tir.lit_int(f.get("start") or {}) != 0:
        return None
    end = strip(f.get("end") or {})
    if end.get("k") != "Path" or end.get("res") != "local":
        return None
    base = tir.place(n["base"])
    # x bound by `Some(x)` matched against B.iter().position(..): an index the iterator produced, hence < len(B)
    for m in tir.walk(root):
        init = pat = None
        if m.get("k") == "Match":
            for a in m["arms"]:
                q = a["pat"]
                if q.get("k") == "TupleStruct" and (q.get("path") or "").endswith("Some") and q["pats"][0].get("k") == "Bind" and q["pats"][0].get("id") == end.get("id") and any(y is n for y in tir.walk(a["body"])):
                    init = m["scrut"]
        elif m.get("k") == "If" and m["cond"].get("k") == "LetCond":
            q = m["cond"]["pat"]
            if q.get("k") == "TupleStruct" and (q.get("path") or "").endswith("Some") and q["pats"][0].get("k") == "Bind" and q["pats"][0].get("id") == end.get("id") and any(y is n for y in tir.walk(m["then"])):
                init = m["cond"]["init"]
        elif m.get("k") == "MethodCall" and m["method"] in ("map", "map_or", "map_or_else", "and_then") and (m["recv"].get("ty") or "").startswith("std::option::Option<usize"):
            # `position(..).map_or(d, |x| &B[..x])`: x is the Some payload inside the closure
            cl = strip(m["args"][-1]) if m.get("args") else {}
            if cl.get("k") == "Closure" and len(cl.get("params", [])) == 1 and cl["params"][0].get("k") == "Bind" and cl["params"][0].get("id") == end.get("id") and any(y is n for y in tir.walk(cl["body"])):
                init = m["recv"]
        if init is not None:
            p0 = strip(init)
            if p0.get("k") == "MethodCall" and p0["method"] == "position" and (declared(p0) or "").endswith("Iterator::position"):
                it = strip(p0["recv"])
                if it.get("k") == "MethodCall" and it["method"] == "iter" and tir.place(it["recv"]) == base:
                    return "end is the index position(..) returned for the same slice"
    for s in tir.walk(root):
        if s.get("k") == "Let" and s["pat"].get("k") == "Bind" and s["pat"].get("id") == end.get("id"):
            i = strip(s["init"])
            if i.get("k") == "MethodCall" and i["method"] == "unwrap_or":
                p = strip(i["recv"])
                if p.get("k") == "MethodCall" and p["method"] == "position" and (declared(p) or "").endswith("Iterator::position"):
                    it = strip(p["recv"])
                    if it.get("k") == "MethodCall" and it["method"] == "iter" and tir.place(it["recv"]) == base:
                        k = strip(i["args"][0])
                        ln = panics.array_len(strip(n["base"]).get("ty") or "")
                        if k.get("k") == "MethodCall" and k["method"] == "len" and tir.place(k["recv"]) == base:
                            return "end = position(..).unwrap_or(len) on the same slice"
                        kv = tir.lit_int(k)
                        if kv is not None and ln is not None and kv <= ln:
                            return "end = position(..).unwrap_or(%d) on an array of length %d" % (kv, ln)
    return None


# ------------------------------------------------------------------------------------------------ P: panic inventory

def alpha(n):
    """pretty-printed expression with local variable names replaced by positional placeholders ($0, $1, ..) in order of
    first occurrence, so that renaming a local does not change the shape"""
    import copy
    import canon

    def drop_refs(x):
        # `&mut state.bytes_read` and `state.bytes_read` are the same place: borrows and plain derefs are not part of the shape
        if x.get("k") == "AddrOf" or (x.get("k") == "Unary" and x.get("op") == "Deref" and not x.get("overloaded")):
            return x["e"]
        return x
    n = canon.rewrite(copy.deepcopy(n), drop_refs)
    txt = tir.pretty(n)
    names = []
    for x in tir.walk(n):
        if x.get("k") == "Path" and x.get("res") == "local" and x.get("name") not in names:
            names.append(x["name"])
    for i, nm in enumerate(names):
        txt = re.sub(r"(?<![\w.:$])%s(?![\w:(])" % re.escape(nm), "$%d" % i, txt)
    return txt


_ENVS = {}


def arith_shape(n, env=None):
    """shape of an arithmetic site: operators, literals and operand slots — an operand that is not itself arithmetic is a numbered
    slot (a local is first followed to its defining expression, so introducing or eliminating a `let` does not change the shape; a
    call is labelled with its method name); widening casts are dropped"""
    slots = []

    def slot(key):
        if key not in slots:
            slots.append(key)
        return "$%d" % slots.index(key)

    def go(x):
        x = strip(x)
        k = x.get("k")
        if k == "Cast":
            return go(x["e"])
        if k == "Lit":
            return str(x.get("v"))
        if k == "Binary":
            return "(%s %s %s)" % (go(x["l"]), x["op"], go(x["r"]))
        if k == "AssignOp":
            return "%s %s= %s" % (go(x["l"]), x["op"], go(x["r"]))
        if k == "Unary" and x.get("op") == "Neg":
            return "-" + go(x["e"])
        if k == "Block" and not x.get("stmts") and x.get("tail") is not None:
            return go(x["tail"])
        if k == "Path" and x.get("res") == "local" and env is not None:
            r = env.resolve(x, peel=True)
            while r.get("k") == "Cast":
                r = strip(r["e"])
            if r.get("k") in ("MethodCall", "Call", "Lit") and r is not x:
                x, k = r, r.get("k")
                if k == "Lit":
                    return str(x.get("v"))
        pl = tir.place(x)
        if pl and "." in pl and k in ("Field", "Path"):
            head, rest = pl.split(".", 1)
            return slot(("local", head)) + "." + rest
        if k == "Path" and x.get("res") == "local":
            return slot(("local", x.get("name")))
        if k in ("MethodCall", "Call"):
            return slot(("expr", tir.pretty(x)[:80])) + ":" + (x.get("method") or (declared(x) or "?").split("::")[-1])
        return slot(("expr", tir.pretty(x)[:80]))
    return go(n)


def site_shape(s, sidx, F=None):
    """operand shape of a site: the typed expression it belongs to, pretty-printed (stable under unrelated edits)"""
    t = s["term"]
    want = ("Binary", "AssignOp", "Index", "Unary", "Cast") if t.get("t") == "assert" else ("MethodCall", "Call", "Index", "Binary", "AssignOp")
    # the node the site belongs to: the operation itself (by operator / method name), not whatever larger expression starts at the same column
    op = s["kind"].split(":", 1)[1] if s["kind"].startswith("overflow:") else None
    meth = re.sub(r"::<[^>]*>", "", s["what"].split(" -> ")[0]).split("::")[-1] if t.get("t") == "call" else None
    cands = []
    owners = {}
    for key in (t.get("esp"), s.get("sp")):
        if not key:
            continue
        for o, n in near(sidx, tuple(key)):
            if n.get("k") in want:
                cands.append(n)
                owners[id(n)] = o
    for n in cands:
        if op and n.get("k") in ("Binary", "AssignOp") and n.get("op") in (op, op + "Assign"):
            env = None
            o = owners.get(id(n))
            if F is not None and o:
                if (id(F), o) not in _ENVS:
                    b = F.body(o)
                    _ENVS[(id(F), o)] = tir.LetEnv(b["tir"]["value"]) if b else None
                env = _ENVS[(id(F), o)]
            return arith_shape(n, env)[:120]
        if meth and n.get("k") == "MethodCall" and n.get("method") == meth:
            return alpha(n)[:120]
        if meth in ("index", "index_mut") and n.get("k") == "Index":
            return alpha(n)[:120]
        if s["kind"] == "bounds" and n.get("k") == "Index":
            return alpha(n)[:120]
    if cands:
        return alpha(cands[0])[:120]
    what = s["what"].split(" -> ")[0]
    return re.sub(r"::<[^>]*>", "", what).split("::")[-1]


def load_invariants(name):
    with open(os.path.join(VERIF, "rules", name)) as fh:
        return {e["key"]: e for e in json.load(fh)["invariants"]}


def panic_inventory(F, G, rep, entries, invariants_file, M=None, gate_ok=None, rule="P", skip_owner=lambda o: False):
    """Enumerate every panic-capable site reachable from `entries` and discharge each by R / G / I, else report."""
    ctx = panics.Ctx(F, G)
    R = G.reachable(entries)
    rep.counts[rule + ".reachable_fns"] = len(R)
    inv = invariants_file if isinstance(invariants_file, dict) else load_invariants(invariants_file)
    used_inv = set()
    sidx = span_index(F, R)
    by_class = {"R": 0, "G": 0, "I": 0, "open": 0}
    # a private function that does not exist on the pinned tree and has a single caller is a piece of that caller moved out
    # of line (the typed trees were inlined accordingly): its sites are keyed as the caller's, so the frozen invariants follow the code
    helpers = set((F.doc.get("_inlined_helpers") or {}).keys())
    attrib = {}
    for h in helpers:
        cs = [c for c in R if c != h and h in G.edges(c)]
        if len(cs) == 1:
            attrib[h] = cs[0]
    for h in list(attrib):
        seen = set()
        while attrib[h] in attrib and attrib[h] not in seen:
            seen.add(attrib[h])
            attrib[h] = attrib[attrib[h]]
    all_ords = {}
    pending = []
    for o in sorted(R, key=lambda x: (x in attrib, x)):
        if skip_owner(o):
            continue
        ko = attrib.get(o, o)
        ords = all_ords.setdefault(ko, {})
        for s in G.sites(o):
            kk = "%s|%s|%s" % (ko, s["kind"], site_shape(s, sidx, F))
            n = ords.get(kk, 0)
            ords[kk] = n + 1
            key = "%s|%d" % (kk, n)
            rep.obligations += 1
            why = panics.discharge_R(ctx, s) or discharge_tir(F, ctx, o, s, sidx)
            if why:
                by_class["R"] += 1
                rep.discharged += 1
                if by_class["R"] <= 3:
                    rep.samples.append({"rule": rule + ".R", "site": "%s %s" % (reach.spstr(s["sp"]), reach.short(o)), "kind": s["kind"], "why": why})
                continue
            # G: unwraps of gated columns inside the generated readers
            m = re.match(r"frame::mutable::(\w+)::(read_push|push_null|len)$", o)
            if m and s["kind"] == "unwrap" and gate_ok is not None and gate_ok.get((m.group(1), m.group(2))):
                by_class["G"] += 1
                rep.discharged += 1
                continue
            if key in inv:
                e = inv[key]
                used_inv.add(key)
                chk = e.get("check")
                ok = True
                if chk:
                    ok = SIDE_CHECKS[chk](F, G)
                if ok:
                    by_class["I"] += 1
                    rep.discharged += 1
                    if by_class["I"] <= 3:
                        rep.samples.append({"rule": rule + ".I", "site": key, "reason": e["reason"], "side_condition": chk})
                    continue
                rep.violation(rule + ".invariant-broken", o, key.split("|", 1)[1], "side condition `%s` of invariant %s no longer holds (%s)" % (chk, key, e["reason"]), reach.spstr(s["sp"]))
                by_class["open"] += 1
                continue
            pending.append((ko, o, s, key))
    # An invariant whose exact key was not met may still apply when the code around the site was reshaped (a value moved into or
    # out of a `let`, a lookup moved into a helper): for arithmetic sites, if the sites left open in a function and the unused
    # invariants of that function and kind are equally many, they are paired in source order. One site more or less, or a different
    # kind, breaks the pairing and everything left is reported.
    groups = {}
    for item in pending:
        ko, o, s, key = item
        groups.setdefault((ko, s["kind"]), []).append(item)
    for (ko, kind), items in sorted(groups.items()):
        spare = sorted(k for k in inv if k not in used_inv and k.split("|")[0] == ko and k.split("|")[1] == kind and not inv[k].get("check"))
        if kind.startswith("overflow:") and spare and len(spare) == len(items):
            items_sorted = sorted(items, key=lambda it: (it[2]["sp"] or ["", 0, 0])[1:3])
            for (ko_, o, s, key), ik in zip(items_sorted, spare):
                used_inv.add(ik)
                by_class["I"] += 1
                rep.discharged += 1
                rep.note("invariant %s applied to the reshaped site %s at %s (paired in source order)" % (ik, key.split("|", 2)[2], reach.spstr(s["sp"])))
            continue
        for ko_, o, s, key in items:
            by_class["open"] += 1
            rep.violation(rule + ".panic", o, key.split("|", 1)[1], "%s: %s (%s) can panic; reachable from %s" % (
                reach.spstr(s["sp"]), s["kind"], reach.short(s["what"])[:60], G.path_to(R, o)), reach.spstr(s["sp"]))
    for k, v in by_class.items():
        rep.counts[rule + "." + k] = v
    rep.counts[rule + ".sites"] = sum(by_class.values())
    return R, ctx


def gate_consistency_table(F, rep, M):
    """(struct, sibling) -> True when every unwrap of an Option column happens only in classes where with_capacity made it Some,
    and the number of unwrap call sites in the MIR equals the number of Option-column accesses the layout engine saw."""
    ok = {}
    for s in model.GEN:
        for sib in ("read_push", "push_null"):
            if not (M.has(s, sib) and M.has(s, "with_capacity")):
                continue
            good = True
            for v in M.classes:
                live = model.live_fields(M, s, v)
                for l in M.flat(s, sib, v):
                    if l.get("opt") and l.get("field") not in live:
                        good = False
            ok[(s, sib)] = good
    # End::len unwraps latest_finalized_frame when validity is None: validity is None only for >= 3.7 where the column is Some
    if M.has("End", "with_capacity"):
        good = True
        for v in M.classes:
            live = model.live_fields(M, "End", v)
            if "validity" not in live and "latest_finalized_frame" not in live:
                good = False
        ok[("End", "len")] = good
    return ok


# ------------------------------------------------------------------------------------------------ side conditions of the invariant table

def _payloads_has(F, G, variant):
    b = F.body("io::slippi::de::parse_payloads")
    if b is None:
        return False
    val = L.strip_try(b["tir"]["value"])

    def entry(e):
        r = strip(e)
        return r.get("k") == "Index" and "Event::%s" % variant in tir.pretty(r["index"])

    def refuses(blk):
        blk = L.strip_try(blk)
        if blk.get("k") == "Block":
            last = blk.get("tail") or (blk["stmts"][-1].get("e") if blk.get("stmts") and blk["stmts"][-1].get("k") == "Expr" else None)
            return last is not None and refuses(last)
        return blk.get("k") == "Ret" and (declared(strip(blk.get("e") or {})) or "").endswith("::Err")
    for s in val.get("stmts", []):
        e = s.get("e") if s.get("k") == "Expr" else None
        if e is not None and e.get("k") == "Try":
            i = strip(e["e"])
            if i.get("k") == "MethodCall" and i["method"] in ("ok_or_else", "ok_or") and entry(i["recv"]):
                return True
        # `if sizes[X].is_none() { return Err(..) }` at the top level
        if e is not None and strip(e).get("k") == "If" and not strip(e).get("else"):
            c = strip(strip(e)["cond"])
            if c.get("k") == "MethodCall" and c["method"] == "is_none" and entry(c["recv"]) and refuses(strip(e)["then"]):
                return True
        # `let Some(_) = sizes[X] else { return Err(..) };`
        if s.get("k") == "Let" and s.get("els") is not None and entry(s.get("init") or {}) and (s["pat"].get("path") or "").endswith("::Some") and refuses(s["els"]):
            return True
    return False


def chk_payloads_game_end(F, G):
    """parse_payloads only returns Ok after `sizes[GameEnd].ok_or_else(..)?` at the top level of its body"""
    return _payloads_has(F, G, "GameEnd")


def chk_dup_end_guard(F, G):
    """`B[0]` in read() is the right operand of `L == 1 + .. && B[0] == ..` with B = vec![0; L]"""
    b = F.body("io::slippi::de::read")
    if b is None:
        return False
    root = b["tir"]["value"]
    lets = {n["pat"]["id"]: n for n in tir.walk(root) if n.get("k") == "Let" and n["pat"].get("k") == "Bind"}
    for n in tir.walk(root):
        if n.get("k") == "Binary" and n.get("op") == "And":
            l, r = strip(n["l"]), strip(n["r"])
            idx = [x for x in tir.walk(r) if x.get("k") == "Index" and tir.lit_int(x["index"]) == 0 and strip(x["base"]).get("res") == "local"]
            if idx and l.get("k") == "Binary" and l.get("op") == "Eq":
                bl = lets.get(strip(idx[0]["base"]).get("id"))
                ll = strip(l["l"])
                rr = strip(l["r"])
                if bl is not None and tir.in_macro(bl["init"], "vec") and rr.get("k") == "Binary" and rr.get("op") == "Add" and tir.lit_int(rr["l"]) == 1:
                    ids = [x.get("id") for x in tir.walk(bl["init"]) if x.get("k") == "Path" and x.get("res") == "local"]
                    if ids == [ll.get("id")] and ll.get("res") == "local":
                        return True
    return False


def chk_fix_char_scalar(F, G):
    """every image of fix_char's match is a Unicode scalar value (decided by C19's table rule as well)"""
    import shiftjis
    t = shiftjis.fix_char_table(F)
    if t is None:
        return False
    for lo, hi, k in t:
        for c in (lo + k, hi + k):
            if not (0 <= c <= 0x10FFFF) or 0xD800 <= c <= 0xDFFF:
                return False
    return True


SIDE_CHECKS = {"payloads_game_end": chk_payloads_game_end, "dup_end_guard": chk_dup_end_guard, "fix_char_scalar": chk_fix_char_scalar}


# ------------------------------------------------------------------------------------------------ S: recursion

def upper_bounded_at(F, n, par, pname):
    """the node n is only reached when `pname < CONST` (or <=): an enclosing branch taken under that comparison, or an earlier
    guard clause of an enclosing block that leaves the function when it fails"""
    def bound_of(cond, holds):
        """cond is known to be `holds` here: does that give pname an upper bound?"""
        c0 = strip(cond)
        while c0.get("k") == "Unary" and c0.get("op") == "Not":
            c0, holds = strip(c0["e"]), not holds
        if c0.get("k") == "Binary" and c0.get("op") == "And" and holds:
            return bound_of(c0["l"], True) or bound_of(c0["r"], True)
        if c0.get("k") == "Binary" and c0.get("op") == "Or" and not holds:
            return bound_of(c0["l"], False) or bound_of(c0["r"], False)
        if c0.get("k") != "Binary" or c0.get("op") not in ("Lt", "Le", "Gt", "Ge"):
            return False
        op = c0["op"]
        if not holds:
            op = {"Lt": "Ge", "Le": "Gt", "Gt": "Le", "Ge": "Lt"}[op]
        l, r = c0["l"], c0["r"]
        if op in ("Lt", "Le") and tir.place(l) == pname:
            other = r
        elif op in ("Gt", "Ge") and tir.place(r) == pname:
            other = l
        else:
            return False
        try:
            return isinstance(order.Evaluator(F).eval(other, {}), int)
        except L.Unsupported:
            return False

    def leaves(e):
        e = L.strip_try(e)
        if e.get("k") == "Block":
            last = e.get("tail") or (e["stmts"][-1].get("e") if e.get("stmts") and e["stmts"][-1].get("k") == "Expr" else None)
            return leaves(last) if last is not None else False
        if e.get("k") == "Ret":
            return True
        return e.get("k") == "Call" and (declared(e) or "").startswith("core::panicking")
    x = n
    while id(x) in par:
        child, x = x, par[id(x)]
        bb = tir.bool_branch(x) if x.get("k") in ("If", "Match") else None
        if bb is not None:
            in_true = any(y is child for y in tir.walk(bb[1]))
            in_false = bb[2] is not None and any(y is child for y in tir.walk(bb[2]))
            if in_true and bound_of(bb[0], True):
                return True
            if in_false and bound_of(bb[0], False):
                return True
        if x.get("k") == "Match":
            for a in x["arms"]:
                if a.get("guard") is not None and any(y is child for y in tir.walk(a["body"])) and bound_of(a["guard"], True):
                    return True
        if x.get("k") == "Block":
            stmts = x.get("stmts", [])
            idx = next((i for i, s in enumerate(stmts) if any(y is child for y in tir.walk(s))), len(stmts))
            for s in stmts[:idx]:
                e = s.get("e") if s.get("k") == "Expr" else None
                if isinstance(e, dict) and strip(e).get("k") == "If" and strip(e)["cond"].get("k") != "LetCond" and not strip(e).get("else") and leaves(strip(e)["then"]):
                    if bound_of(strip(e)["cond"], False):
                        return True
    return False


def stack_rule(F, G, rep, R, rule="S"):
    cycles = G.cycles(R)
    rep.counts[rule + ".cycles"] = len(cycles)
    for comp in cycles:
        # every call edge inside the component: does it carry a bounded, increasing depth argument?
        bounded_edges = set()
        edges = []
        for fn in comp:
            b = F.body(fn)
            if b is None:
                continue
            params = [p.get("name") for p in b["tir"]["params"]]
            par = parents(b["tir"]["value"])
            for n in tir.walk(b["tir"]["value"]):
                if n.get("k") in ("Call", "MethodCall"):
                    c = reach.owner_of(callee(n) or "")
                    if c in comp:
                        edges.append((fn, c))
                        args = tir.call_args(n)
                        for a in args:
                            a = strip(a)
                            if a.get("k") == "Binary" and a.get("op") == "Add" and tir.place(a["l"]) not in params and tir.place(a["r"]) in params:
                                a = dict(a, l=a["r"], r=a["l"])          # `1 + depth` is `depth + 1`
                            if a.get("k") == "Binary" and a.get("op") == "Add" and tir.place(a["l"]) in params and (tir.lit_int(a["r"]) or 0) > 0:
                                pname = tir.place(a["l"])
                                if upper_bounded_at(F, n, par, pname):
                                    bounded_edges.add((fn, c))
        # the component minus its bounded edges must be acyclic
        rest = {}
        for a, bb in edges:
            if (a, bb) not in bounded_edges:
                rest.setdefault(a, set()).add(bb)
        cyc = False
        for start in comp:
            seen, st = set(), [start]
            while st:
                x = st.pop()
                for y in rest.get(x, ()):
                    if y == start:
                        cyc = True
                    if y not in seen:
                        seen.add(y)
                        st.append(y)
        rep.ob(rule + ".depth-bound", not cyc, " <-> ".join(reach.short(c) for c in comp), "recursion",
               "recursive cycle %s has no constant depth bound on every loop of the cycle (stack overflow aborts the process)" % " <-> ".join(comp),
               sample={"cycle": comp, "bounded_edges": sorted("%s->%s" % e for e in bounded_edges)})
    return cycles


# ------------------------------------------------------------------------------------------------ T: termination

READER_ITERS = ("tar::Entries", "arrow2::io::ipc::read::StreamReader", "std::io::Bytes", "std::io::Lines", "std::io::Split")


class Consume:
    """does successful evaluation of an expression necessarily consume >= 1 byte of the input stream?"""

    def __init__(self, F, G):
        self.F = F
        self.G = G
        self.memo = {}
        self.in_loop = False

    def fn_consumes(self, path):
        path = reach.owner_of(path)
        if path in self.memo:
            return self.memo[path]
        self.memo[path] = False
        b = self.F.body(path)
        r = False
        if b is not None:
            r = self.must(b["tir"]["value"])
        self.memo[path] = r
        return r

    def base_call(self, n):
        d = declared(n) or ""
        if d.startswith("byteorder::ReadBytesExt::read_"):
            return True
        c = callee(n) or ""
        if reach.owner_of(c) in self.G.local:
            return self.fn_consumes(c)
        return False

    def must(self, n):
        if not isinstance(n, dict):
            return False
        k = n.get("k")
        if k == "Try":
            e = strip(n["e"])
            if e.get("k") in ("Call", "MethodCall") and self.base_call(e):
                return True
            return self.must(n["e"])
        if k == "Block":
            for s in n.get("stmts", []):
                if self.must(s):
                    return True
            return self.must(n.get("tail"))
        if k == "Let":
            return self.must(n.get("init"))
        if k == "Expr":
            return self.must(n["e"])
        if k == "If":
            return self.must(n["cond"]) or (self.must(n["then"]) and bool(n.get("else")) and self.must(n["else"]))
        if k == "Match":
            return self.must(n["scrut"]) or all(self.must(a["body"]) for a in n["arms"])
        if k == "Binary" and n.get("op") in ("And", "Or"):
            return self.must(n["l"])
        if k in ("Closure", "Loop", "For"):
            return False
        if k == "Break":
            return self.in_loop          # leaves the loop: no back edge on this path
        if k == "Ret":
            if self.in_loop:
                return True
            e = strip(n.get("e") or {})
            return e.get("k") == "Call" and (declared(e) or "").endswith("::Err")
        if k == "Continue":
            return False
        if k in ("Call", "MethodCall"):
            # a consuming callee whose result is returned/propagated by the caller without `?` (tail position) also counts
            return any(self.must(c) for c in tir.call_args(n)) or (k == "Call" and n.get("f") is not None and self.must(n["f"]))
        return any(self.must(c) for c in tir.children(n))


def loops_rule(F, G, rep, R, M=None, rule="T"):
    cons = Consume(F, G)
    classes = {"bounded-iterator": 0, "consumes-or-fails": 0, "monotone-counter": 0, "open": 0}
    n_loops = 0
    for fn in sorted(R):
        b = F.body(fn)
        if b is None:
            continue
        for n in tir.walk(b["tir"]["value"]):
            if n.get("k") == "For":
                n_loops += 1
                ity = n["iter"].get("ty") or ""
                if any(x in ity for x in READER_ITERS):
                    ok = cons.must(n["body"])
                    cls = "consumes-or-fails" if ok else "open"
                else:
                    cls = "bounded-iterator"
                    ok = True
                classes[cls] += 1
                rep.ob(rule + ".loop", ok, fn, "for", "%s: `for` over %s may iterate without consuming input" % (tir.sp(n), ity), tir.sp(n))
            elif n.get("k") == "Loop":
                n_loops += 1
                body = n["body"]
                has_continue = any(x.get("k") == "Continue" for x in tir.walk(body))
                ok, cls = False, "open"
                cons.in_loop = True
                consumed = cons.must(body)
                cons.in_loop = False
                if not has_continue and consumed:
                    ok, cls = True, "consumes-or-fails"
                elif not has_continue:
                    m = monotone_counter(F, n, M)
                    if m:
                        ok, cls = True, "monotone-counter"
                classes[cls] += 1
                rep.ob(rule + ".loop", ok, fn, "loop", "%s: loop in %s is neither a bounded iterator, nor consumes input on every iteration, nor a monotone counter" % (tir.sp(n), fn), tir.sp(n),
                       sample={"fn": fn, "loop": tir.sp(n), "class": cls})
    for k, v in classes.items():
        rep.counts[rule + "." + k] = v
    rep.counts[rule + ".loops"] = n_loops
    return n_loops


def monotone_counter(F, loop, M):
    """`while X.len() < n { X.push_null(..) }` with n loop-invariant and push_null growing X.len() by one"""
    body = L.strip_try(loop["body"])
    inner = body
    if inner.get("k") == "Block":
        inner = L.strip_try(inner.get("tail") or (inner["stmts"][0] if inner.get("stmts") else {}))
    if inner.get("k") != "If":
        return False
    c = strip(inner["cond"])
    if not (c.get("k") == "Binary" and c.get("op") == "Lt"):
        return False
    l = strip(c["l"])
    if not (l.get("k") == "MethodCall" and l["method"] == "len" and (declared(l) or "").startswith("frame::mutable::")):
        return False
    x = tir.place(l["recv"])
    bound = strip(c["r"])
    if bound.get("k") != "Path" or bound.get("res") != "local":
        return False
    # body must call X.push_null(..) unconditionally and not assign the bound
    then = L.strip_try(inner["then"])
    calls = []
    stmts = (then.get("stmts", []) + ([then["tail"]] if then.get("tail") else [])) if then.get("k") == "Block" else [then]
    for s in stmts:
        e = L.strip_try(s)
        if e.get("k") == "MethodCall" and e["method"] == "push_null" and tir.place(e["recv"]) == x:
            calls.append(e)
    for a in tir.walk(then):
        if a.get("k") in ("Assign", "AssignOp") and tir.place(a["l"]) == bound.get("name"):
            return False
    if len(calls) != 1:
        return False
    # Data::push_null grows Data::len() (= pre.len()) by one: pre.push_null is called and Pre's len column is touched by push_null (L2)
    dn = F.body("frame::mutable::Data::push_null")
    ln = F.body("frame::mutable::Data::len")
    if dn is None or ln is None:
        return False
    len_field = tir.place(L.strip_try(ln["tir"]["value"]).get("recv") or {})
    grows = any(e.get("k") == "MethodCall" and e["method"] == "push_null" and tir.place(e["recv"]) == len_field for e in tir.walk(dn["tir"]["value"]))
    return bool(grows)


# ------------------------------------------------------------------------------------------------ E: error discipline

ERR_TYPES = ("std::io::Error", "io::Error", "arrow2::error::Error", "serde_json::Error")
PASS_ON = ("map", "map_err", "and_then", "transpose", "or_else", "inspect_err", "collect", "into", "try_for_each", "zip", "map_or_else")
SWALLOW = ("ok", "unwrap_or", "unwrap_or_else", "unwrap_or_default", "is_ok", "is_err", "err", "map_or", "iter", "into_iter", "or")


def error_discipline(F, G, rep, R, rule="E"):
    n_sites = 0
    for fn in sorted(R):
        b = F.body(fn)
        if b is None:
            continue
        root = b["tir"]["value"]
        par = parents(root)
        for n in tir.walk(root):
            if n.get("k") not in ("Call", "MethodCall"):
                continue
            ty = n.get("ty") or ""
            m = re.match(r"std::result::Result<.*, ([\w:]+)>$", ty)
            if not m or m.group(1) not in ERR_TYPES:
                continue
            if (n.get("dk") or "").startswith("Ctor"):
                continue
            n_sites += 1
            x = n
            verdict = None
            while True:
                p = par.get(id(x))
                if p is None:
                    verdict = "returned"
                    break
                k = p.get("k")
                if k == "Try":
                    verdict = "?"
                    break
                if k == "MethodCall" and strip(p["recv"]) is x or (k == "MethodCall" and p["recv"] is x):
                    if p["method"] in PASS_ON:
                        x = p
                        continue
                    if p["method"] in SWALLOW:
                        verdict = "swallowed by .%s()" % p["method"]
                        break
                    verdict = "consumed by .%s()" % p["method"]
                    if p["method"] in ("unwrap", "expect"):
                        verdict = "unwrap"
                    break
                if k in ("Block",) and p.get("tail") is x:
                    x = p
                    continue
                if k == "Closure":
                    x = p
                    continue
                if k in ("Call", "MethodCall"):
                    # passed as an argument (e.g. Some(f(r)?) handled above; Ok(x) wrappers)
                    d = declared(p) or ""
                    if d.endswith("::Ok") or d.endswith("::Some"):
                        x = p
                        continue
                    if p.get("method") in PASS_ON:
                        x = p
                        continue
                    verdict = "argument of %s" % reach.short(d)
                    break
                if k == "Ret":
                    verdict = "returned"
                    break
                if k == "Match" and p.get("scrut") is x:
                    # the Err arm must propagate
                    ok = False
                    for a in p["arms"]:
                        pt = a["pat"]
                        if pt.get("k") == "TupleStruct" and (pt.get("path") or "").endswith("Err"):
                            bd = tir.pretty(a["body"])
                            ok = "return" in bd or "Err(" in bd
                    verdict = "matched" if ok else "matched without propagating Err"
                    break
                if k == "If" or k == "Match":
                    x = p
                    continue
                if k == "Expr":
                    verdict = "dropped (statement)" if p.get("semi") else None
                    if verdict:
                        break
                    x = p
                    continue
                if k == "Let":
                    pt = p["pat"]
                    verdict = "bound to `_`" if pt.get("k") == "Wild" else "bound"
                    break
                if k in ("AddrOf", "Cast", "Tup", "Struct"):
                    x = p
                    continue
                verdict = "used in %s" % k
                break
            bad = verdict.startswith("swallowed") or verdict.startswith("dropped") or verdict == "bound to `_`" or verdict == "matched without propagating Err"
            rep.ob(rule + ".propagate", not bad, fn, reach.short(callee(n) or "?"),
                   "%s: result of %s is %s — an I/O fault would not surface as an error" % (tir.sp(n), reach.short(callee(n) or "?"), verdict), tir.sp(n))
    rep.counts[rule + ".result_sites"] = n_sites
    return n_sites


# ------------------------------------------------------------------------------------------------ W: blocking / waiting

def blocking_rule(F, G, rep, R, rule="W"):
    ext = G.external_calls(R)
    rep.counts[rule + ".external_callees"] = len(ext)
    n = 0
    for c, sites in sorted(ext.items()):
        if any(c.startswith(b) for b in reach.BLOCKING):
            for o, t in sites:
                n += 1
                rep.ob(rule + ".blocking", False, o, c.split("::")[-1], "%s: %s calls %s — a reader must never wait" % (reach.spstr(t.get("sp")), o, c), reach.spstr(t.get("sp")))
    rep.ob(rule + ".no-blocking", n == 0, "reachable-set", "blocking", "blocking primitives reachable from the reader")
    return ext
