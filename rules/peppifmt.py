"""Shared rules about the .slpp container: writer entry sequence, reader dispatch, optionality agreement (C02, C10, C18)."""
import flow
import layout as L
import tir
from tir import strip, declared

WRITE = "io::peppi::ser::write"
READ = "io::peppi::de::read"


def writer_entries(F):
    """[(name, guard or None, payload expr node, call node)] in emission order"""
    b = F.body(WRITE)
    out = []
    if b is None:
        return out
    for g, c in flow.ordered_calls(b["tir"]["value"], lambda n: (n.get("path") or "").endswith("io::peppi::ser::tar_append")):
        name = strip(c["args"][2])
        nm = name.get("v") if name.get("k") == "Lit" and name.get("lit") == "str" else None
        gs = [x for x in g if x[0] != "closure"]
        out.append({"name": nm, "guards": gs, "payload": c["args"][1], "call": c})
    return out


def reader_arms(F):
    """{entry name: arm} of the reader's dispatch on the tar entry's file name; '_' for the wildcard"""
    b = F.body(READ)
    if b is None:
        return {}, None, None
    for n in tir.walk(b["tir"]["value"]):
        if n.get("k") == "Match" and n.get("src") == "Normal":
            arms = {}
            good = False
            for a in n["arms"]:
                p = a["pat"]
                if p.get("k") == "TupleStruct" and (p.get("path") or "").endswith("Some") and p["pats"][0].get("k") == "Lit" and p["pats"][0]["e"].get("lit") == "str":
                    arms[p["pats"][0]["e"]["v"]] = a
                    good = True
                elif p.get("k") in ("Wild", "Bind"):
                    arms["_"] = a
            if good:
                # the enclosing for loop
                loop = None
                for f in tir.walk(b["tir"]["value"]):
                    if f.get("k") == "For" and any(x is n for x in tir.walk(f["body"])):
                        loop = f
                return arms, n, loop
    return {}, None, None


def final_game(F):
    """the Game { .. } literal the reader returns: field -> expression"""
    b = F.body(READ)
    for n in tir.walk(b["tir"]["value"]):
        if n.get("k") == "Struct" and (n.get("path") or "") == "game::immutable::Game":
            return {f["name"]: f["e"] for f in n["fields"]}
    return {}


def slot_required(e):
    """True when the Game field is built with `slot.ok_or(..)?` (the entry is mandatory)"""
    return e.get("k") == "Try" and strip(e["e"]).get("k") == "MethodCall" and strip(e["e"])["method"] in ("ok_or", "ok_or_else")
