"""Shared rules about the .slpp container: writer entry sequence, reader dispatch, optionality agreement (C02, C10, C18)."""
import flow
import layout as L
import tir
from tir import strip, declared

WRITE = "io::peppi::ser::write"
READ = "io::peppi::de::read"


def append_helpers(F):
    """local functions that append one entry to a tar builder: (path, index of the data arg, index of the name arg)"""
    out = {}
    for b in F.fn_bodies():
        if not b["path"].startswith("io::peppi::"):
            continue
        for n in tir.walk(b["tir"]["value"]):
            if n.get("k") == "MethodCall" and (declared(n) or "").startswith("tar::Builder::<W>::append"):
                params = [p.get("name") for p in b["tir"]["params"]]
                data = tir.place(n["args"][1]) if len(n["args"]) > 1 else None
                namei = None
                for x in tir.walk(b["tir"]["value"]):
                    if x.get("k") == "MethodCall" and (declared(x) or "").startswith("tar::Header::set_path"):
                        namei = tir.place(x["args"][0])
                if data in params and namei in params:
                    out[b["path"]] = (params.index(data), params.index(namei))
    return out


def writer_entries(F):
    """[(name, guard or None, payload expr node, call node)] in emission order"""
    b = F.body(WRITE)
    out = []
    if b is None:
        return out
    helpers = append_helpers(F)
    for g, c in flow.ordered_calls(b["tir"]["value"], lambda n: n.get("k") == "Call" and (n.get("path") or "") in helpers):
        di, ni = helpers[c["path"]]
        name = strip(c["args"][ni])
        nm = name.get("v") if name.get("k") == "Lit" and name.get("lit") == "str" else None
        gs = [x for x in g if x[0] != "closure"]
        out.append({"name": nm, "guards": gs, "payload": c["args"][di], "call": c})
    return out


def payload_source(F, entry):
    """('json', place) when the entry's bytes are serde_json::to_vec(&place)?, ('raw', place) when they are the place itself
    (followed through immutable lets); None otherwise"""
    b = F.body(WRITE)
    env = tir.LetEnv(b["tir"]["value"])
    e = env.resolve(entry["payload"], peel=False)
    t = e
    if t.get("k") == "Try":
        t = strip(t["e"])
    if t.get("k") == "Call" and (t.get("path") or "").startswith("serde_json::to_vec") and len(t["args"]) == 1:
        v = env.resolve(t["args"][0], peel=False)
        return ("json", tir.place(v))
    p = tir.place(e)
    return ("raw", p) if p else None


def reader_arms(F):
    """{entry name: arm} of the reader's dispatch on the tar entry's file name; '_' for the wildcard"""
    b = F.body(READ)
    if b is None:
        return {}, None, None
    for n in tir.walk(b["tir"]["value"]):
        if n.get("k") == "Match" and n.get("src") == "Normal":
            arms = {}
            good = False
            for a in n["arms"]:
                p = a["pat"]
                if p.get("k") == "TupleStruct" and (p.get("path") or "").endswith("Some") and p["pats"][0].get("k") == "Lit" and p["pats"][0]["e"].get("lit") == "str":
                    arms[p["pats"][0]["e"]["v"]] = a
                    good = True
                elif p.get("k") == "Lit" and p["e"].get("lit") == "str":
                    # `match name { "peppi.json" => .. }` on a &str obtained with a total fallback
                    arms[p["e"]["v"]] = a
                    good = True
                elif p.get("k") in ("Wild", "Bind"):
                    arms["_"] = a
            if good:
                # the enclosing for loop
                loop = None
                for f in tir.walk(b["tir"]["value"]):
                    if f.get("k") == "For" and any(x is n for x in tir.walk(f["body"])):
                        loop = f
                return arms, n, loop
    return {}, None, None


def final_game(F):
    """the Game { .. } literal the reader returns: field -> expression"""
    b = F.body(READ)
    for n in tir.walk(b["tir"]["value"]):
        if n.get("k") == "Struct" and (n.get("path") or "") == "game::immutable::Game":
            return {f["name"]: f["e"] for f in n["fields"]}
    return {}


def slot_required(e):
    """True when the Game field is built with `slot.ok_or(..)?` (the entry is mandatory)"""
    return e.get("k") == "Try" and strip(e["e"]).get("k") == "MethodCall" and strip(e["e"])["method"] in ("ok_or", "ok_or_else")


SLOT_OF = {"start.raw": "start", "end.raw": "end", "gecko_codes.raw": "gecko_codes", "frames.arrow": "frames", "metadata.json": "metadata"}


def optionality_rule(F, rep, only=None):
    """an entry the writer emits conditionally must be optional in the reader"""
    game = final_game(F)
    n = 0
    for e in writer_entries(F):
        slot = SLOT_OF.get(e["name"])
        if slot is None or (only and e["name"] not in only):
            continue
        n += 1
        conditional = bool(e["guards"])
        required = slot in game and slot_required(game[slot])
        rep.ob("optional-entry", not (conditional and required), READ, e["name"],
               "the writer emits %s only when %s, but the reader fails with an error when it is absent: a game for which the guard is false cannot be read back" % (
                   e["name"], " and ".join(g[1] for g in e["guards"])),
               sample={"entry": e["name"], "writer_conditional": conditional, "reader_required": required})
    return n
