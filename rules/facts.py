"""E1 front end: run the rustc_private driver over /repo's current working tree
and return the fact document. Facts are cached per source hash so that the 19
checks of one sweep share one extraction; any edit under /repo changes the key."""
import fcntl
import glob
import hashlib
import json
import os
import shutil
import subprocess
import sys
import time

VERIF = os.path.dirname(os.path.dirname(os.path.abspath(__file__)))
REPO = os.environ.get("PEPPI_REPO", "/repo")
CACHE = os.environ.get("PEPPI_VERIF_CACHE", os.path.join(VERIF, ".cache"))
DRIVER = os.path.join(VERIF, "driver", "target", "release", "peppi-facts")


class FactsError(Exception):
    pass


def _sysroot():
    return subprocess.check_output(["rustc", "+nightly", "--print", "sysroot"], text=True).strip()


def source_files(repo=REPO):
    files = [os.path.join(repo, "Cargo.toml"), os.path.join(repo, "Cargo.lock"),
             os.path.join(repo, "gen", "resources", "frames.json")]
    for root, dirs, names in os.walk(os.path.join(repo, "src")):
        dirs.sort()
        for n in sorted(names):
            files.append(os.path.join(root, n))
    return [f for f in files if os.path.isfile(f)]


def source_hash(repo=REPO):
    h = hashlib.sha256()
    for f in source_files(repo):
        h.update(os.path.relpath(f, repo).encode())
        h.update(b"\0")
        with open(f, "rb") as fh:
            h.update(fh.read())
        h.update(b"\0")
    if os.path.exists(DRIVER):
        with open(DRIVER, "rb") as fh:
            h.update(hashlib.sha256(fh.read()).digest())
    return h.hexdigest()


def build_driver():
    env = dict(os.environ, CARGO_NET_OFFLINE="true")
    r = subprocess.run(["cargo", "build", "--release", "--offline"], cwd=os.path.join(VERIF, "driver"),
                       env=env, capture_output=True, text=True)
    if r.returncode != 0 or not os.path.exists(DRIVER):
        raise FactsError("driver build failed:\n" + r.stderr[-4000:])


def extract(repo=REPO, target_dir=None, all_targets=False, crates="peppi"):
    """Run cargo +nightly check with the driver as workspace wrapper. Returns list of fact docs."""
    if not os.path.exists(DRIVER):
        build_driver()
    target_dir = target_dir or os.path.join(CACHE, "target")
    os.makedirs(target_dir, exist_ok=True)
    out_dir = os.path.join(CACHE, "facts-out-%d" % os.getpid())
    shutil.rmtree(out_dir, ignore_errors=True)
    os.makedirs(out_dir)
    # cargo's freshness cache would skip the wrapper: drop the member's fingerprints
    for fp in glob.glob(os.path.join(target_dir, "debug", ".fingerprint", "peppi-*")):
        shutil.rmtree(fp, ignore_errors=True)
    env = dict(os.environ)
    env.update({
        "LD_LIBRARY_PATH": _sysroot() + "/lib",
        "RUSTFLAGS": "-Zmir-opt-level=0 -Awarnings",
        "RUSTC_WORKSPACE_WRAPPER": DRIVER,
        "CARGO_TARGET_DIR": target_dir,
        "CARGO_NET_OFFLINE": "true",
        "PEPPI_FACTS_DIR": out_dir,
        "PEPPI_FACTS_CRATES": crates,
    })
    cmd = ["cargo", "+nightly", "check", "--offline", "--manifest-path", os.path.join(repo, "Cargo.toml")]
    cmd += ["--all-targets"] if all_targets else ["--lib"]
    r = subprocess.run(cmd, env=env, capture_output=True, text=True, cwd=repo)
    if r.returncode != 0:
        shutil.rmtree(out_dir, ignore_errors=True)
        raise FactsError("cargo check failed on %s:\n%s" % (repo, r.stderr[-6000:]))
    docs = []
    for f in sorted(glob.glob(os.path.join(out_dir, "*.json"))):
        with open(f) as fh:
            docs.append(json.load(fh))
    shutil.rmtree(out_dir, ignore_errors=True)
    if not docs:
        raise FactsError("driver produced no fact file (stale cargo cache?)\n" + r.stderr[-2000:])
    return docs


def load(repo=REPO, target_dir=None):
    """Facts for the lib target of the tree at `repo`, cached by source hash."""
    key = source_hash(repo)
    fdir = os.path.join(CACHE, "facts")
    os.makedirs(fdir, exist_ok=True)
    path = os.path.join(fdir, key + ".json")
    lock = open(os.path.join(CACHE, "extract.lock"), "w")
    fcntl.flock(lock, fcntl.LOCK_EX)
    try:
        if os.path.exists(path):
            with open(path) as fh:
                doc = json.load(fh)
            doc["_cache"] = "hit"
        else:
            t0 = time.time()
            docs = extract(repo, target_dir)
            libs = [d for d in docs if d.get("is_lib") and d.get("crate") == "peppi"]
            if len(libs) != 1:
                raise FactsError("expected exactly one peppi lib fact doc, got %d" % len(libs))
            doc = libs[0]
            doc["source_hash"] = key
            doc["extract_s"] = round(time.time() - t0, 2)
            tmp = path + ".tmp%d" % os.getpid()
            with open(tmp, "w") as fh:
                json.dump(doc, fh)
            os.rename(tmp, path)
            # keep the cache small: retain the 6 most recent fact files
            olds = sorted(glob.glob(os.path.join(fdir, "*.json")), key=os.path.getmtime)[:-6]
            for o in olds:
                os.unlink(o)
            doc["_cache"] = "miss"
    finally:
        fcntl.flock(lock, fcntl.LOCK_UN)
        lock.close()
    if doc.get("source_hash") != key:
        raise FactsError("fact file does not carry the hash of the analysed sources")
    return doc


if __name__ == "__main__":
    d = load()
    print("facts:", d["crate"], "bodies", len(d["bodies"]), "cache", d["_cache"], "hash", d["source_hash"][:12])
