"""E1 front end: run the rustc_private driver over /repo's current working tree
and return the fact document. Facts are cached per source hash so that the 19
checks of one sweep share one extraction; any edit under /repo changes the key."""
import fcntl
import glob
import hashlib
import json
import os
import shutil
import subprocess
import sys
import time

VERIF = os.path.dirname(os.path.dirname(os.path.abspath(__file__)))
REPO = os.environ.get("PEPPI_REPO", "/repo")
CACHE = os.environ.get("PEPPI_VERIF_CACHE", os.path.join(VERIF, ".cache"))
DRIVER = os.path.join(VERIF, "driver", "target", "release", "peppi-facts")


class FactsError(Exception):
    pass


def _sysroot():
    return subprocess.check_output(["rustc", "+nightly", "--print", "sysroot"], text=True).strip()


def source_files(repo=REPO):
    files = [os.path.join(repo, "Cargo.toml"), os.path.join(repo, "Cargo.lock"),
             os.path.join(repo, "gen", "resources", "frames.json")]
    for root, dirs, names in os.walk(os.path.join(repo, "src")):
        dirs.sort()
        for n in sorted(names):
            files.append(os.path.join(root, n))
    return [f for f in files if os.path.isfile(f)]


def source_hash(repo=REPO):
    h = hashlib.sha256()
    for f in source_files(repo):
        h.update(os.path.relpath(f, repo).encode())
        h.update(b"\0")
        with open(f, "rb") as fh:
            h.update(fh.read())
        h.update(b"\0")
    if os.path.exists(DRIVER):
        with open(DRIVER, "rb") as fh:
            h.update(hashlib.sha256(fh.read()).digest())
    return h.hexdigest()


def build_driver():
    env = dict(os.environ, CARGO_NET_OFFLINE="true")
    r = subprocess.run(["cargo", "build", "--release", "--offline"], cwd=os.path.join(VERIF, "driver"),
                       env=env, capture_output=True, text=True)
    if r.returncode != 0 or not os.path.exists(DRIVER):
        raise FactsError("driver build failed:\n" + r.stderr[-4000:])


def extract(repo=REPO, target_dir=None, all_targets=False, crates="peppi"):
    """Run cargo +nightly check with the driver as workspace wrapper. Returns list of fact docs."""
    if not os.path.exists(DRIVER):
        build_driver()
    target_dir = target_dir or os.path.join(CACHE, "target")
    os.makedirs(target_dir, exist_ok=True)
    out_dir = os.path.join(CACHE, "facts-out-%d" % os.getpid())
    shutil.rmtree(out_dir, ignore_errors=True)
    os.makedirs(out_dir)
    # cargo's freshness cache would skip the wrapper: drop the member's fingerprints
    for fp in glob.glob(os.path.join(target_dir, "debug", ".fingerprint", "peppi-*")):
        shutil.rmtree(fp, ignore_errors=True)
    env = dict(os.environ)
    env.update({
        "LD_LIBRARY_PATH": _sysroot() + "/lib",
        "RUSTFLAGS": "-Zmir-opt-level=0 -Awarnings",
        "RUSTC_WORKSPACE_WRAPPER": DRIVER,
        "CARGO_TARGET_DIR": target_dir,
        "CARGO_NET_OFFLINE": "true",
        "PEPPI_FACTS_DIR": out_dir,
        "PEPPI_FACTS_CRATES": crates,
    })
    cmd = ["cargo", "+nightly", "check", "--offline", "--manifest-path", os.path.join(repo, "Cargo.toml")]
    cmd += ["--all-targets"] if all_targets else ["--lib"]
    r = subprocess.run(cmd, env=env, capture_output=True, text=True, cwd=repo)
    if r.returncode != 0:
        shutil.rmtree(out_dir, ignore_errors=True)
        raise FactsError("cargo check failed on %s:\n%s" % (repo, r.stderr[-6000:]))
    docs = []
    for f in sorted(glob.glob(os.path.join(out_dir, "*.json"))):
        with open(f) as fh:
            docs.append(json.load(fh))
    shutil.rmtree(out_dir, ignore_errors=True)
    if not docs:
        raise FactsError("driver produced no fact file (stale cargo cache?)\n" + r.stderr[-2000:])
    return docs


def _toks(x):
    import re
    return re.findall(r"[A-Za-z_][A-Za-z0-9_]*|[^A-Za-z_\s]", x or "")


def _unify(e_strs, m_strs, cands, mapping):
    """token-wise unification of two lists of type/path strings; differing tokens must be generic-parameter candidates of the
    new side, mapped consistently (and injectively) to the pinned side. Returns the extended mapping or None."""
    mp = dict(mapping)
    if len(e_strs) != len(m_strs):
        return None
    for es, ms in zip(e_strs, m_strs):
        et, mt = _toks(es), _toks(ms)
        if len(et) != len(mt):
            return None
        for x, y in zip(et, mt):
            if x == y and x not in mp:
                continue
            if x in cands and (x[:1].isupper()) and y[:1].isupper():
                if mp.get(x, y) != y:
                    return None
                mp[x] = y
            elif x != y:
                return None
    if len(set(mp.values())) != len(mp):
        return None
    return mp


def normalise_generics(doc, adoc):
    """Undo pure renames of generic type parameters (`R` -> `Rd`): a function of the pinned tree that is missing, and an unknown
    function whose path and signature differ from it only in generic-parameter tokens, identify the renaming; it is applied to
    every fact as a whole-word substitution (alpha-renaming of a bound type variable). Names that are also items are left alone."""
    import re
    anchors = adoc["fns"]
    pinned_g = set(adoc.get("generic_names", []))
    present = {f["path"]: f for f in doc["items"]["fns"]}
    missing = [p for p in anchors if p not in present]
    if not missing:
        return doc, {}
    extra = [p for p in present if p not in anchors and "_serde" not in p and "num_enum" not in p and "::_::" not in p]
    item_names = set()
    for k in ("structs", "enums"):
        for x in doc["items"].get(k, []):
            item_names.add(x["path"].rsplit("::", 1)[-1])
    votes = {}
    for e in extra:
        f = present[e]
        cands = set(g for g in (f.get("generics") or []) if re.match(r"^[A-Z][A-Za-z0-9]*$", g)) | set(re.findall(r"<([A-Z][A-Za-z0-9]*)>", e))
        cands -= pinned_g
        cands -= item_names
        if not cands:
            continue
        for m in missing:
            am = anchors[m]
            # same path modulo generic tokens, or same module + same signature modulo generic tokens
            mp = _unify([e] + list(f["inputs"]) + [f["output"]], [m] + list(am["inputs"]) + [am["output"]], cands, {})
            if mp is None and e.rsplit("::", 1)[0] == m.rsplit("::", 1)[0]:
                mp = _unify(list(f["inputs"]) + [f["output"]], list(am["inputs"]) + [am["output"]], cands, {})
            if mp:
                for x, y in mp.items():
                    votes.setdefault(x, set()).add(y)
                break
    ren = {x: next(iter(ys)) for x, ys in votes.items() if len(ys) == 1}
    if not ren:
        return doc, {}
    text = json.dumps(doc)
    for x, y in ren.items():
        text = re.sub(r"(?<![A-Za-z0-9_])" + re.escape(x) + r"(?![A-Za-z0-9_])", y, text)
    doc2 = json.loads(text)
    doc2["_renamed_generics"] = ren
    return doc2, ren


def normalise_fields(doc, adoc):
    """Undo pure renames of non-public struct fields: a struct of the pinned tree whose field list has the same types in the
    same order but other names has its field names mapped back (field accesses, struct literals and struct patterns of that type)."""
    import re
    import tir as _tir
    pinned = adoc.get("structs", {})
    ren = {}
    for st in doc["items"].get("structs", []):
        want = pinned.get(st["path"])
        if not want or st.get("tuple") or len(want) != len(st["fields"]):
            continue
        if [f["ty"] for f in st["fields"]] != [w[1] for w in want]:
            continue
        m = {}
        for f, w in zip(st["fields"], want):
            if f["name"] != w[0]:
                if w[2] or f.get("vis") == "Public":
                    m = None
                    break
                m[f["name"]] = w[0]
        if m:
            # the two name sets must not overlap (a swap of two same-typed fields is not a rename)
            if set(m) & set(w[0] for w in want):
                continue
            ren[st["path"]] = m
            for f in st["fields"]:
                f["name"] = m.get(f["name"], f["name"])
    if not ren:
        return doc, {}

    def base_struct(ty):
        ty = (ty or "").strip()
        while ty.startswith("&"):
            ty = ty[1:].strip()
            if ty.startswith("mut "):
                ty = ty[4:].strip()
            ty = re.sub(r"^'\w+ ", "", ty)
        return re.sub(r"<.*$", "", ty)

    def fix_pat(p):
        if not isinstance(p, dict):
            return
        if p.get("k") == "Struct" and re.sub(r"<.*$", "", p.get("path") or "") in ren:
            m = ren[re.sub(r"<.*$", "", p["path"])]
            for fl in p.get("fields", []) or []:
                if isinstance(fl, dict) and fl.get("name") in m:
                    fl["name"] = m[fl["name"]]
        for k in ("sub", "pat", "mid"):
            fix_pat(p.get(k))
        for k in ("pats", "before", "after"):
            for q in p.get(k, []) or []:
                fix_pat(q)
        for fl in p.get("fields", []) or []:
            if isinstance(fl, dict):
                fix_pat(fl.get("pat"))
    for b in doc["bodies"]:
        t = b.get("tir")
        if not t:
            continue
        for p in t.get("params", []):
            fix_pat(p)
        for n in _tir.walk(t["value"]):
            k = n.get("k")
            if k == "Field":
                bs = base_struct(n["base"].get("aty") or n["base"].get("ty"))
                if bs not in ren:
                    bs = base_struct(n["base"].get("ty"))
                if bs in ren and n.get("name") in ren[bs]:
                    n["name"] = ren[bs][n["name"]]
            elif k == "Struct" and re.sub(r"<.*$", "", n.get("path") or "") in ren:
                m = ren[re.sub(r"<.*$", "", n["path"])]
                for fl in n.get("fields", []):
                    if fl.get("name") in m:
                        fl["name"] = m[fl["name"]]
            if k in ("Let", "LetCond", "For"):
                fix_pat(n.get("pat"))
            if k == "Match":
                for a in n["arms"]:
                    fix_pat(a.get("pat"))
            if k == "Closure":
                for p in n.get("params", []):
                    fix_pat(p)
    doc["_renamed_fields"] = ren
    return doc, ren


def normalise_renames(doc):
    """Undo pure renames of local functions (same module, same signature, canonical name gone): the rules anchor on the
    pinned tree's function names, and a rename alone must not raise an alarm. Returns (doc, {new name: canonical name})."""
    import re
    with open(os.path.join(VERIF, "rules", "anchors.json")) as fh:
        adoc = json.load(fh)
    doc, _g = normalise_generics(doc, adoc)
    doc, _f = normalise_fields(doc, adoc)
    anchors = adoc["fns"]
    present = {f["path"]: f for f in doc["items"]["fns"]}
    missing = [p for p in anchors if p not in present]
    if not missing:
        return doc, {}
    extra = [p for p in present if p not in anchors and "_serde" not in p and "num_enum" not in p and "::_::" not in p]
    renames = {}
    for m in missing:
        mod = m.rsplit("::", 1)[0]
        sig = (anchors[m]["inputs"], anchors[m]["output"])
        cands = [e for e in extra if e.rsplit("::", 1)[0] == mod and (present[e]["inputs"], present[e]["output"]) == sig and e not in renames]
        if len(cands) == 1:
            renames[cands[0]] = m
    # relocation: the function kept its name and signature but moved to another module / became an associated function
    for m in missing:
        if m in renames.values():
            continue
        sig = (anchors[m]["inputs"], anchors[m]["output"])
        cands = [e for e in extra if e.rsplit("::", 1)[-1] == m.rsplit("::", 1)[-1] and (present[e]["inputs"], present[e]["output"]) == sig and e not in renames]
        if len(cands) == 1:
            renames[cands[0]] = m
    # renamed *and* moved: the only unknown function with that signature, for the only missing function with that signature
    for m in missing:
        if m in renames.values():
            continue
        sig = (anchors[m]["inputs"], anchors[m]["output"])
        same_missing = [x for x in missing if x not in renames.values() and (anchors[x]["inputs"], anchors[x]["output"]) == sig]
        cands = [e for e in extra if (present[e]["inputs"], present[e]["output"]) == sig and e not in renames]
        if len(cands) == 1 and len(same_missing) == 1 and sig[0]:
            renames[cands[0]] = m
    # constants that kept name and type but moved (fn-local -> module level, another module)
    pinned_consts = adoc.get("consts", [])
    have_c = {c["path"]: c for c in doc["items"].get("consts", [])}
    pinned_ty = {"io::slippi::ser::payload_sizes::FRAME_NUMBER": "usize", "io::slippi::ser::payload_sizes::PORT": "usize", "game::NUM_PORTS": "usize"}
    for m in pinned_consts:
        if m in have_c or "num_enum" in m:
            continue
        cands = [e for e in have_c if e not in pinned_consts and e.rsplit("::", 1)[-1] == m.rsplit("::", 1)[-1] and have_c[e].get("ty") == pinned_ty.get(m, have_c[e].get("ty")) and e not in renames]
        if len(cands) == 1:
            renames[cands[0]] = m
    if not renames:
        return doc, {}
    text = json.dumps(doc)
    for new, old in sorted(renames.items(), key=lambda kv: -len(kv[0])):
        # method names inside call nodes are recorded separately ("method": "..."): rename those too
        text = re.sub(r'(?<![\w:])' + re.escape(json.dumps(new)[1:-1]) + r'(?=("|::\{closure|::<))', json.dumps(old)[1:-1].replace("\\", "\\\\"), text)
    doc2 = json.loads(text)
    short = {n.rsplit("::", 1)[1]: o.rsplit("::", 1)[1] for n, o in renames.items()}

    def fix(n):
        if isinstance(n, dict):
            if n.get("k") == "MethodCall" and n.get("method") in short and (n.get("path") in renames.values() or n.get("resolved") in renames.values()):
                n["method"] = short[n["method"]]
            for v in n.values():
                fix(v)
        elif isinstance(n, list):
            for v in n:
                fix(v)
    fix(doc2)
    doc2["_renamed"] = renames
    return doc2, renames


def _binding_pats(p, out):
    if not isinstance(p, dict):
        return
    if p.get("k") == "Bind":
        out.append(p)
    for k in ("sub", "pat", "mid"):
        if isinstance(p.get(k), dict):
            _binding_pats(p[k], out)
    for k in ("pats", "before", "after"):
        for q in p.get(k, []) or []:
            _binding_pats(q, out)
    for f in p.get("fields", []) or []:
        if isinstance(f, dict) and "pat" in f:
            _binding_pats(f["pat"], out)


def normalise_locals(doc):
    """Undo pure renames of local variables / parameters: when a function binds the same number of variables with the same
    types in the same order as on the pinned tree, differing names are mapped back to the pinned names (alpha-renaming by
    binding id, which cannot change meaning). Any structural change leaves the function untouched."""
    import tir as _tir
    with open(os.path.join(VERIF, "rules", "anchors.json")) as fh:
        anchors = json.load(fh)["fns"]
    renamed = {}
    for b in doc["bodies"]:
        a = anchors.get(b["path"])
        t = b.get("tir")
        if not a or not t or "bindings" not in a or b["kind"] not in ("Fn", "AssocFn"):
            continue
        pats = []
        for p in t["params"]:
            _binding_pats(p, pats)
        for n in _tir.walk(t["value"]):
            if n.get("k") in ("Let", "LetCond", "For"):
                _binding_pats(n.get("pat"), pats)
            if n.get("k") == "Closure":
                for p in n["params"]:
                    _binding_pats(p, pats)
            if n.get("k") == "Match":
                for arm in n["arms"]:
                    _binding_pats(arm["pat"], pats)
        want = a["bindings"]
        if len(pats) != len(want) or any(p.get("ty") != w[1] for p, w in zip(pats, want)):
            continue
        ren = {}
        for p, w in zip(pats, want):
            if p.get("name") != w[0]:
                ren[p["id"]] = (p["name"], w[0])
                p["name"] = w[0]
        if not ren:
            continue
        # a rename must not capture: skip when the canonical name is already used by another live binding
        names_now = set(p.get("name") for p in pats)
        for n in _tir.walk(t["value"]):
            if n.get("k") == "Path" and n.get("res") == "local" and n.get("id") in ren:
                n["name"] = ren[n["id"]][1]
        renamed[b["path"]] = sorted("%s->%s" % v for v in ren.values())
    if renamed:
        doc["_renamed_locals"] = renamed
    return doc


def load(repo=REPO, target_dir=None):
    """Facts for the lib target of the tree at `repo`, cached by source hash."""
    key = source_hash(repo)
    fdir = os.path.join(CACHE, "facts")
    os.makedirs(fdir, exist_ok=True)
    path = os.path.join(fdir, key + ".json")
    lock = open(os.path.join(CACHE, "extract.lock"), "w")
    fcntl.flock(lock, fcntl.LOCK_EX)
    try:
        if os.path.exists(path):
            with open(path) as fh:
                doc = json.load(fh)
            doc["_cache"] = "hit"
        else:
            t0 = time.time()
            docs = extract(repo, target_dir)
            libs = [d for d in docs if d.get("is_lib") and d.get("crate") == "peppi"]
            if len(libs) != 1:
                raise FactsError("expected exactly one peppi lib fact doc, got %d" % len(libs))
            doc = libs[0]
            doc["source_hash"] = key
            doc["extract_s"] = round(time.time() - t0, 2)
            tmp = path + ".tmp%d" % os.getpid()
            with open(tmp, "w") as fh:
                json.dump(doc, fh)
            os.rename(tmp, path)
            # keep the cache bounded: retain the 12 most recent fact files, and never evict one written in the last two hours
            # unless there are more than 200 (the thorough tier runs each check over ~140 scratch trees; the facts of a
            # tree are shared by all properties' thorough runs)
            allf = sorted(glob.glob(os.path.join(fdir, "*.json")), key=os.path.getmtime)
            for i, o in enumerate(allf[:-12]):
                try:
                    if time.time() - os.path.getmtime(o) > 7200 or len(allf) - i > 200:
                        os.unlink(o)
                except OSError:
                    pass
            doc["_cache"] = "miss"
    finally:
        fcntl.flock(lock, fcntl.LOCK_UN)
        lock.close()
    if doc.get("source_hash") != key:
        raise FactsError("fact file does not carry the hash of the analysed sources")
    cache = doc.get("_cache")
    doc, renames = normalise_renames(doc)
    import canon
    doc = canon.canonicalise(doc)
    import mirinline
    mirinline.inline_helpers(doc)
    doc["_cache"] = cache
    return doc


if __name__ == "__main__":
    d = load()
    print("facts:", d["crate"], "bodies", len(d["bodies"]), "cache", d["_cache"], "hash", d["source_hash"][:12])
