"""E2 — layout engine: gate trees over version classes for the generated frame structs.

For every sibling function of a generated struct the engine extracts an ordered tree
   Seq[ Leaf(effect) | Gate(formula over `version.gte(M,m)` atoms, then-Seq, else-Seq) ]
from the typed tree, and flattens it per version class (the finite abstract domain induced by
all thresholds in the crate and the spec). Anything outside the recognised fragment raises
Unsupported (reported as cannot-establish — the engine never silently passes)."""
import re

import tir
from tir import strip, place, lit_int, is_call, callee, declared


class Unsupported(Exception):
    def __init__(self, node, why):
        self.node = node
        self.why = why
        Exception.__init__(self, "%s at %s" % (why, tir.sp(node) if isinstance(node, dict) else "?"))


# ---------------------------------------------------------------- version formulas

def vcond(n):
    """Boolean formula over version thresholds, or None if `n` is not a pure version test."""
    n = strip(n)
    k = n.get("k")
    if k == "MethodCall" and declared(n) in ("io::slippi::Version::gte", "io::slippi::Version::lt"):
        if "io::slippi::Version" not in (n["recv"].get("ty") or ""):
            return None
        a = [lit_int(x) for x in n["args"]]
        if len(a) != 2 or None in a:
            return None
        f = ("gte", a[0], a[1], place(n["recv"]))
        return f if n["method"] == "gte" else ("not", f)
    if k == "Call" and declared(n) in ("io::slippi::Version::gte", "io::slippi::Version::lt"):
        a = [lit_int(x) for x in n["args"][1:]]
        if len(a) != 2 or None in a:
            return None
        f = ("gte", a[0], a[1], place(n["args"][0]))
        return f if declared(n).endswith("gte") else ("not", f)
    if k == "Unary" and n.get("op") == "Not":
        f = vcond(n["e"])
        return None if f is None else ("not", f)
    if k == "Binary" and n.get("op") in ("And", "Or"):
        l, r = vcond(n["l"]), vcond(n["r"])
        if l is None or r is None:
            return None
        return ("and" if n["op"] == "And" else "or", l, r)
    if k == "Lit" and n.get("lit") == "bool":
        return ("const", bool(n["v"]))
    return None


def cond(n):
    """vcond extended with named boolean atoms: a bool-typed place (`port.follower`) and `let Some(x) = PLACE`."""
    f = vcond(n)
    if f is not None:
        return f
    n = strip(n)
    k = n.get("k")
    if k in ("Field", "Path") and n.get("ty") == "bool" and place(n):
        return ("flag", place(n))
    if k == "LetCond":
        p = n["pat"]
        if p.get("k") == "TupleStruct" and (p.get("path") or "").endswith("Some") and place(n["init"]):
            return ("some", place(n["init"]), p["pats"][0].get("name"))
    if k == "Unary" and n.get("op") == "Not":
        f = cond(n["e"])
        return None if f is None else ("not", f)
    if k == "Binary" and n.get("op") in ("And", "Or"):
        l, r = cond(n["l"]), cond(n["r"])
        if l is None or r is None:
            return None
        return ("and" if n["op"] == "And" else "or", l, r)
    return None


class VEnv(tuple):
    """a version class representative (major, minor) plus named boolean flags"""
    def __new__(cls, v, flags=None):
        o = tuple.__new__(cls, v)
        o.flags = flags or {}
        return o


def mentions_version(n):
    """True if the expression tests a Version in a way vcond does not understand."""
    for x in tir.walk(n):
        t = x.get("ty") or ""
        if x.get("k") in ("Binary", "MethodCall", "Call") and x.get("ty") == "bool":
            for c in tir.children(x):
                if "io::slippi::Version" in (c.get("ty") or ""):
                    return True
    return False


def feval(f, ver):
    t = f[0]
    if t == "gte":
        return (ver[0], ver[1]) >= (f[1], f[2])
    if t == "not":
        return not feval(f[1], ver)
    if t == "and":
        return feval(f[1], ver) and feval(f[2], ver)
    if t == "or":
        return feval(f[1], ver) or feval(f[2], ver)
    if t == "const":
        return f[1]
    if t in ("flag", "some"):
        flags = getattr(ver, "flags", None)
        if flags is None or f[1] not in flags:
            raise Unsupported({}, "condition on `%s` cannot be evaluated in this context" % f[1])
        return bool(flags[f[1]])
    raise ValueError(f)


def fatoms(f, out):
    if f[0] == "gte":
        out.add((f[1], f[2]))
    elif f[0] in ("not",):
        fatoms(f[1], out)
    elif f[0] in ("and", "or"):
        fatoms(f[1], out)
        fatoms(f[2], out)
    return out


def fplaces(f, out):
    if f[0] == "gte":
        out.add(f[3])
    elif f[0] == "not":
        fplaces(f[1], out)
    elif f[0] in ("and", "or"):
        fplaces(f[1], out)
        fplaces(f[2], out)
    return out


def fstr(f):
    t = f[0]
    if t == "gte":
        return ">=%d.%d" % (f[1], f[2])
    if t == "not":
        if f[1][0] == "gte":
            return "<%d.%d" % (f[1][1], f[1][2])
        return "!(%s)" % fstr(f[1])
    if t in ("and", "or"):
        return "(%s %s %s)" % (fstr(f[1]), t, fstr(f[2]))
    if t in ("flag", "some"):
        return f[1]
    return str(f[1])


# ---------------------------------------------------------------- trees

def leaf(**kw):
    return ("leaf", kw)


def gate(f, then, els=None):
    return ("gate", f, then, els or [])


def flatten(items, ver):
    out = []
    for it in items:
        if it[0] == "leaf":
            out.append(it[1])
        else:
            out.extend(flatten(it[2] if feval(it[1], ver) else it[3], ver))
    return out


def tree_thresholds(items, out=None):
    out = set() if out is None else out
    for it in items:
        if it[0] == "gate":
            fatoms(it[1], out)
            tree_thresholds(it[2], out)
            tree_thresholds(it[3], out)
    return out


def tree_formulas(items, out=None):
    out = [] if out is None else out
    for it in items:
        if it[0] == "gate":
            out.append(it[1])
            tree_formulas(it[2], out)
            tree_formulas(it[3], out)
    return out


def tree_leaves(items):
    for it in items:
        if it[0] == "leaf":
            yield it[1]
        else:
            for x in tree_leaves(it[2]):
                yield x
            for x in tree_leaves(it[3]):
                yield x


def tree_str(items, ind=0):
    s = []
    for it in items:
        if it[0] == "leaf":
            d = it[1]
            s.append(" " * ind + " ".join("%s=%s" % (k, v) for k, v in d.items() if k != "sp" and v is not None))
        else:
            s.append(" " * ind + "if " + fstr(it[1]))
            s.append(tree_str(it[2], ind + 2))
            if it[3]:
                s.append(" " * ind + "else")
                s.append(tree_str(it[3], ind + 2))
    return "\n".join(x for x in s if x)


# ---------------------------------------------------------------- generic statement walker

def params(body):
    out = []
    for p in body["tir"]["params"]:
        out.append((p.get("name"), p.get("ty")))
    return out


def param_named(body, ty_sub):
    for n, t in params(body):
        if t and ty_sub in t:
            return n
    return None


def is_unit_ok(n):
    """`Ok(())`-like tail that carries no effect."""
    n = strip(n)
    if n.get("k") == "Call" and (declared(n) or "").endswith("Ok"):
        a = n["args"]
        return len(a) == 1 and strip(a[0]).get("k") == "Tup" and not strip(a[0])["elems"]
    if n.get("k") == "Tup" and not n["elems"]:
        return True
    return False


def seq(n, leaf_fn, st):
    """Walk statements in order. leaf_fn(expr, st) -> list of items, or None when it does not
    recognise the expression (then the walker fails closed unless the expression is inert)."""
    n = strip_try(n)
    k = n.get("k")
    if k == "Block":
        out = []
        for s in n.get("stmts", []):
            out.extend(seq(s, leaf_fn, st))
        if n.get("tail"):
            out.extend(seq(n["tail"], leaf_fn, st))
        return out
    if k == "Expr":
        return seq(n["e"], leaf_fn, st)
    if k == "If":
        f = vcond(n["cond"])
        if f is None and st.get("flags_ok"):
            f = cond(n["cond"])
            if f is not None and f[0] == "some" and f[2]:
                st.setdefault("alias", {})[f[2]] = f[1]
        if f is not None:
            then = seq(n["then"], leaf_fn, st)
            els = seq(n["else"], leaf_fn, st) if n.get("else") else []
            return [gate(f, then, els)]
    if k == "Match":
        f = vcond(n["scrut"])
        if f is not None:
            then, els = None, None
            for a in n["arms"]:
                p = a["pat"]
                v = None
                if p.get("k") == "Lit" and p["e"].get("lit") == "bool":
                    v = bool(p["e"]["v"])
                elif p.get("k") in ("Wild", "Bind"):
                    v = "rest"
                else:
                    raise Unsupported(n, "match on version test with non-boolean pattern")
                body = seq(a["body"], leaf_fn, st)
                if v is True:
                    then = body
                elif v is False:
                    els = body
                else:
                    if then is None:
                        then = body
                    elif els is None:
                        els = body
            return [gate(f, then or [], els or [])]
    r = leaf_fn(n, st)
    if r is not None:
        return r
    raise Unsupported(n, "unrecognised statement: " + tir.pretty(n)[:160])


def strip_try(n):
    while isinstance(n, dict):
        if n.get("k") == "Try":
            n = n["e"]
        elif n.get("k") == "Block" and not n.get("stmts") and n.get("tail") and not n.get("label"):
            n = n["tail"]
        elif n.get("k") == "Expr":
            n = n["e"]
        else:
            break
    return n


def local_name(n):
    n = strip(n)
    if n.get("k") == "Path" and n.get("res") == "local":
        return n["name"]
    return None


def field_of_self(n, selfname="self"):
    """'a.b' when n denotes self.a.b (through as_ref/as_mut/unwrap), else None."""
    p = place(n)
    if p and p.startswith(selfname + "."):
        return p[len(selfname) + 1:]
    return None


def through_option(n):
    """True if the place expression passes through as_ref/as_mut + unwrap (i.e. an Option column)."""
    n = strip(n)
    seen = set()
    while n.get("k") == "MethodCall" and n.get("method") in ("as_ref", "as_mut", "unwrap", "as_deref", "as_deref_mut"):
        seen.add(n["method"])
        n = strip(n["recv"])
    return "unwrap" in seen


PRIM = {"u8", "i8", "u16", "i16", "u32", "i32", "u64", "i64", "f32", "f64"}
WIDTH = {"u8": 1, "i8": 1, "u16": 2, "i16": 2, "u32": 4, "i32": 4, "u64": 8, "i64": 8, "f32": 4, "f64": 8}


def struct_of_path(path):
    """'frame::mutable::Post::read_push' -> 'Post'; '...<impl frame::immutable::Post>::write' -> 'Post'."""
    m = re.search(r"<impl frame::immutable::(\w+)>::\w+$", path)
    if m:
        return m.group(1)
    m = re.search(r"frame::(?:mutable|immutable)::(\w+)::\w+$", path)
    if m:
        return m.group(1)
    m = re.search(r"<frame::immutable::(\w+) as std::convert::From<frame::mutable::\w+>>::from$", path)
    if m:
        return m.group(1)
    return None


def endian_of(n):
    g = n.get("gargs") or []
    for a in g:
        if a.startswith("byteorder::"):
            return a.split("::")[-1]
    return None


# ---------------------------------------------------------------- read_push

def x_read_push(body):
    rname = None
    for nme, t in params(body):
        if t and "&[u8]" in t:
            rname = nme
    vname = param_named(body, "io::slippi::Version")
    st = {"pending": {}, "r": rname, "v": vname}

    def read_call(n):
        n = strip_try(n)
        if n.get("k") == "MethodCall" and (declared(n) or "").startswith("byteorder::ReadBytesExt::read_"):
            if local_name(n["recv"]) != rname:
                raise Unsupported(n, "read from something other than the payload cursor")
            if n.get("args"):
                raise Unsupported(n, "variable-width read")
            ty = n["method"][len("read_"):]
            if ty not in PRIM:
                raise Unsupported(n, "non-primitive read " + n["method"])
            return dict(op="read", ty=ty, endian=endian_of(n) if WIDTH[ty] > 1 else None, sp=tir.sp(n))
        return None

    def push_target(n, valname):
        """PLACE.push(Some(valname)) -> (field, exact) ; None if not a column push."""
        n = strip_try(n)
        if n.get("k") == "MethodCall" and (declared(n) or "").startswith("arrow2::array::MutablePrimitiveArray::<T>::push") and n["method"] == "push":
            f = field_of_self(n["recv"])
            if f is None:
                raise Unsupported(n, "push into something that is not a column of self")
            a = strip(n["args"][0])
            exact = False
            if a.get("k") == "Call" and (declared(a) or "").endswith("Some") and len(a["args"]) == 1:
                exact = local_name(a["args"][0]) == valname
            return f, exact, through_option(n["recv"])
        return None

    def lf(n, st):
        n0 = n
        n = strip_try(n)
        k = n.get("k")
        if is_unit_ok(n):
            return []
        # r.read_T().map(|x| PLACE.push(Some(x)))
        if k == "MethodCall" and n["method"] == "map" and (declared(n) or "").startswith("std::result::Result"):
            rd = read_call(n["recv"])
            cl = strip(n["args"][0])
            if rd is not None and cl.get("k") == "Closure" and len(cl["params"]) == 1:
                pn = cl["params"][0].get("name")
                pt = push_target(cl["body"], pn)
                if pt is None:
                    raise Unsupported(n, "read value not pushed into a column")
                rd.update(field=pt[0], exact=pt[1], opt=pt[2])
                return [leaf(**rd)]
        # self.F.read_push(r, version)
        if k == "MethodCall" and n["method"] == "read_push" and (declared(n) or "").startswith("frame::mutable::"):
            f = field_of_self(n["recv"])
            if f is None:
                raise Unsupported(n, "read_push on something that is not a field of self")
            a = n["args"]
            if len(a) != 2 or local_name(a[0]) != rname or local_name(a[1]) != vname:
                raise Unsupported(n, "sub-reader not given the same cursor and version")
            return [leaf(op="sub", struct=struct_of_path(declared(n)), field=f, opt=through_option(n["recv"]), sp=tir.sp(n))]
        # validity push
        if k == "MethodCall" and n["method"] == "map" and (declared(n) or "").startswith("std::option::Option"):
            f = field_of_self(n["recv"])
            cl = strip(n["args"][0])
            if f == "validity" and cl.get("k") == "Closure":
                b = strip_try(cl["body"])
                if b.get("k") == "MethodCall" and (declared(b) or "") == "arrow2::bitmap::MutableBitmap::push":
                    v = strip(b["args"][0])
                    if v.get("k") == "Lit" and v.get("lit") == "bool":
                        return [leaf(op="validity", value=bool(v["v"]), sp=tir.sp(n))]
        if k == "If" and strip(n["cond"]).get("k") == "LetCond" and not n.get("else"):
            # `if let Some(v) = self.validity.as_mut() { v.push(true) }`
            lc = strip(n["cond"])
            if (lc["pat"].get("path") or "").endswith("Some") and field_of_self(lc["init"]) == "validity":
                vn = lc["pat"]["pats"][0].get("name")
                body = strip_try(n["then"])
                if body.get("k") == "Block" and len(body.get("stmts", [])) == 1 and not body.get("tail"):
                    body = strip_try(body["stmts"][0])
                if body.get("k") == "MethodCall" and (declared(body) or "") == "arrow2::bitmap::MutableBitmap::push" and local_name(body["recv"]) == vn:
                    v = strip(body["args"][0])
                    if v.get("k") == "Lit" and v.get("lit") == "bool":
                        return [leaf(op="validity", value=bool(v["v"]), sp=tir.sp(n))]
        # let x = r.read_T()?;
        if k == "Let":
            rd = read_call(n.get("init") or {})
            if rd is not None and n["pat"].get("k") == "Bind":
                st["pending"][n["pat"]["name"]] = rd
                l = leaf(**rd)
                rd["_leaf"] = l
                rd.update(field=None, exact=False, opt=False)
                return [("leaf", rd)]
        # PLACE.push(Some(r.read_T()?)): the value read is the value pushed
        if k == "MethodCall" and n["method"] == "push" and (declared(n) or "").startswith("arrow2::array::MutablePrimitiveArray::<T>::push") and len(n.get("args", [])) == 1:
            a = strip(n["args"][0])
            if a.get("k") == "Call" and (declared(a) or "").endswith("Some") and len(a["args"]) == 1 and a["args"][0].get("k") == "Try":
                rd = read_call(a["args"][0])
                if rd is not None:
                    f = field_of_self(n["recv"])
                    if f is None:
                        raise Unsupported(n, "push into something that is not a column of self")
                    rd.update(field=f, exact=True, opt=through_option(n["recv"]))
                    return [leaf(**rd)]
        # PLACE.push(Some(x)) for a pending x
        if k == "MethodCall" and n["method"] == "push":
            for name, rd in list(st["pending"].items()):
                pt = push_target(n, name)
                if pt is not None and pt[1]:
                    rd.update(field=pt[0], exact=True, opt=pt[2])
                    del st["pending"][name]
                    return []
        return None

    items = seq(body["tir"]["value"], lf, st)
    for l in tree_leaves(items):
        l.pop("_leaf", None)
    return items


# ---------------------------------------------------------------- write / size

def x_write(body):
    wname = None
    for nme, t in params(body):
        if t and t.startswith("&mut W"):
            wname = nme
    vname = param_named(body, "io::slippi::Version")
    iname = None
    for nme, t in params(body):
        if t == "usize":
            iname = nme

    def val_src(v):
        """PLACE.value(i) | PLACE.values()[i] -> (field, opt)"""
        v = strip(v)
        if v.get("k") == "MethodCall" and v["method"] == "value" and (declared(v) or "").startswith("arrow2::array::PrimitiveArray"):
            if local_name(v["args"][0]) != iname:
                raise Unsupported(v, "column read at an index other than the row parameter")
            return field_of_self(v["recv"]), through_option(v["recv"])
        if v.get("k") == "Index":
            b = strip(v["base"])
            if b.get("k") == "MethodCall" and b["method"] == "values" and local_name(v["index"]) == iname:
                return field_of_self(b["recv"]), through_option(b["recv"])
        return None

    def lf(n, st):
        n = strip_try(n)
        k = n.get("k")
        if is_unit_ok(n):
            return []
        if k == "MethodCall" and (declared(n) or "").startswith("byteorder::WriteBytesExt::write_"):
            if local_name(n["recv"]) != wname:
                raise Unsupported(n, "write to something other than the output")
            ty = n["method"][len("write_"):]
            if ty not in PRIM:
                raise Unsupported(n, "non-primitive write " + n["method"])
            src = val_src(n["args"][0])
            if src is None or src[0] is None:
                raise Unsupported(n, "written value is not a column of self at the row index: " + tir.pretty(n["args"][0])[:80])
            return [leaf(op="write", ty=ty, endian=endian_of(n) if WIDTH[ty] > 1 else None, field=src[0], opt=src[1], sp=tir.sp(n))]
        if k == "MethodCall" and n["method"] == "write" and "frame::immutable::" in (declared(n) or ""):
            f = field_of_self(n["recv"])
            a = n["args"]
            if f is None or len(a) != 3 or local_name(a[0]) != wname or local_name(a[1]) != vname or local_name(a[2]) != iname:
                raise Unsupported(n, "sub-writer not given the same output, version and row")
            return [leaf(op="sub", struct=struct_of_path(declared(n)), field=f, opt=through_option(n["recv"]), sp=tir.sp(n))]
        return None

    return seq(body["tir"]["value"], lf, {})


def x_size(body):
    vname = param_named(body, "io::slippi::Version")
    st = {"acc": None}

    def term(e):
        e = strip(e)
        if e.get("k") == "Call" and (declared(e) or "").endswith("mem::size_of"):
            t = (e.get("gargs") or [None])[0]
            if t not in PRIM:
                raise Unsupported(e, "size_of a non-primitive")
            return [leaf(op="size", ty=t, sp=tir.sp(e))]
        if e.get("k") == "Call" and "frame::immutable::" in (declared(e) or "") and (declared(e) or "").endswith("::size"):
            if len(e["args"]) != 1 or local_name(e["args"][0]) != vname:
                raise Unsupported(e, "sub-size not given the same version")
            return [leaf(op="sub", struct=struct_of_path(declared(e)), sp=tir.sp(e))]
        if e.get("k") == "Binary" and e.get("op") == "Add":
            return term(e["l"]) + term(e["r"])
        v = lit_int(e)
        if v is not None:
            return [] if v == 0 else [leaf(op="const", n=v, sp=tir.sp(e))]
        if local_name(e) == st["acc"]:
            return []
        raise Unsupported(e, "size term outside the fragment: " + tir.pretty(e)[:80])

    def lf(n, st):
        n = strip_try(n)
        k = n.get("k")
        if k == "Let" and n["pat"].get("k") == "Bind" and st["acc"] is None:
            st["acc"] = n["pat"]["name"]
            return term(n["init"])
        if k == "AssignOp" and n.get("op") in ("AddAssign", "Add") and local_name(n["l"]) == st["acc"]:
            return term(n["r"])
        if local_name(n) is not None and local_name(n) == st["acc"]:
            return []
        if st["acc"] is None:
            return term(n)
        return None

    return seq(body["tir"]["value"], lf, st)


# ---------------------------------------------------------------- push_null

def x_push_null(body):
    vname = param_named(body, "io::slippi::Version")
    st = {"len": None}

    def lf(n, st):
        n = strip_try(n)
        k = n.get("k")
        if is_unit_ok(n):
            return []
        if k == "Let" and n["pat"].get("k") == "Bind":
            i = strip(n["init"])
            if i.get("k") == "MethodCall" and i["method"] == "len" and local_name(i["recv"]) == "self":
                st["len"] = n["pat"]["name"]
                return [leaf(op="len_capture", sp=tir.sp(n))]
            return None
        if k == "MethodCall" and n["method"] == "push" and (declared(n) or "") == "arrow2::bitmap::MutableBitmap::push":
            v = strip(n["args"][0])
            r = strip(n["recv"])
            if r.get("k") == "MethodCall" and r["method"] == "get_or_insert_with" and field_of_self(r["recv"]) == "validity":
                cl = strip(r["args"][0])
                init_ok = False
                if cl.get("k") == "Closure":
                    b = strip_try(cl["body"])
                    if b.get("k") == "Call" and (declared(b) or "") == "arrow2::bitmap::MutableBitmap::from_len_set":
                        init_ok = local_name(b["args"][0]) == st["len"] and st["len"] is not None
                if v.get("k") == "Lit" and v.get("lit") == "bool":
                    return [leaf(op="validity", value=bool(v["v"]), init_ok=init_ok, sp=tir.sp(n))]
            return None
        if k == "MethodCall" and n["method"] == "push_null":
            f = field_of_self(n["recv"])
            if f is None:
                raise Unsupported(n, "push_null on something that is not a field of self")
            d = declared(n) or ""
            if "arrow2::array::MutablePrimitiveArray" in (callee(n) or "") or d.startswith("arrow2::array::MutablePrimitiveArray"):
                return [leaf(op="null", field=f, opt=through_option(n["recv"]), sp=tir.sp(n))]
            if d.startswith("frame::mutable::"):
                if len(n["args"]) != 1 or local_name(n["args"][0]) != vname:
                    raise Unsupported(n, "sub push_null not given the same version")
                return [leaf(op="sub", struct=struct_of_path(d), field=f, opt=through_option(n["recv"]), sp=tir.sp(n))]
        if k == "MethodCall" and n["method"] == "push" and (declared(n) or "").startswith("arrow2::array::MutablePrimitiveArray"):
            a = strip(n["args"][0])
            if a.get("k") == "Path" and (a.get("path") or "").endswith("None"):
                return [leaf(op="null", field=field_of_self(n["recv"]), opt=through_option(n["recv"]), sp=tir.sp(n))]
        return None

    return seq(body["tir"]["value"], lf, st)


# ---------------------------------------------------------------- struct-literal shaped siblings

def ctor_fields(n, fact_struct, any_stmts=False):
    """Fields of a struct literal or tuple-struct constructor call: [(name, expr)]"""
    n = strip_try(n)
    while n.get("k") == "Block" and n.get("tail") is not None and (any_stmts or all(s.get("k") == "Let" for s in n.get("stmts", []))):
        n = strip_try(n["tail"])
    if n.get("k") == "Struct":
        return [(f["name"], f["e"]) for f in n["fields"]], n
    if n.get("k") == "Call" and (n.get("res") == "selfctor" or (n.get("dk") or "").startswith("Ctor")):
        return [(str(i), a) for i, a in enumerate(n["args"])], n
    raise Unsupported(n, "constructor expression outside the fragment: " + tir.pretty(n)[:100])


def then_gate(e):
    """COND.then(|| inner) / COND.then_some(inner) -> (formula, inner) else None"""
    e = strip(e)
    if e.get("k") == "MethodCall" and e["method"] in ("then", "then_some") and (declared(e) or "").startswith("std::primitive::bool") or \
            (e.get("k") == "MethodCall" and e["method"] in ("then", "then_some") and (e["recv"].get("ty") == "bool")):
        f = vcond(e["recv"])
        if f is None:
            return None
        inner = strip(e["args"][0])
        if inner.get("k") == "Closure":
            inner = strip_try(inner["body"])
        return f, inner
    if e.get("k") in ("If", "Match"):
        cond = e.get("cond") or e.get("scrut")
        f = vcond(cond)
        if f is None:
            return None
        # if c { Some(x) } else { None }
        if e["k"] == "If" and e.get("else"):
            t = strip_try(e["then"])
            el = strip_try(e["else"])
            if t.get("k") == "Call" and (declared(t) or "").endswith("Some") and el.get("k") == "Path" and (el.get("path") or "").endswith("None"):
                return f, strip(t["args"][0])
            # if c { lets..; Some(x) } else { None }  ==  c.then(|| { lets..; x })
            if t.get("k") == "Block" and t.get("stmts") and t.get("tail") is not None and el.get("k") == "Path" and (el.get("path") or "").endswith("None"):
                tt = strip_try(t["tail"])
                if tt.get("k") == "Call" and (declared(tt) or "").endswith("Some") and len(tt["args"]) == 1:
                    inner = dict(t)
                    inner["tail"] = tt["args"][0]
                    return f, inner
    return None


def x_with_capacity(body):
    vname = param_named(body, "io::slippi::Version")
    fields, node = ctor_fields(body["tir"]["value"], None)
    out = []

    def one(name, e):
        e = strip_try(e)
        g = then_gate(e)
        if g is not None:
            inner = one(name, g[1])
            return [gate(g[0], inner, [leaf(op="none", field=name, sp=tir.sp(e))])]
        if e.get("k") == "Path" and (e.get("path") or "").endswith("None"):
            return [leaf(op="none", field=name, sp=tir.sp(e))]
        if e.get("k") == "Call":
            d = declared(e) or ""
            if d.startswith("arrow2::array::MutablePrimitiveArray") and d.endswith("with_capacity"):
                return [leaf(op="col", field=name, ty=(e.get("gargs") or [None])[0], sp=tir.sp(e))]
            if d.startswith("arrow2::array::MutablePrimitiveArray") and d.endswith("::new"):
                return [leaf(op="col", field=name, ty=(e.get("gargs") or [None])[0], sp=tir.sp(e))]
            if d.startswith("frame::mutable::") and d.endswith("::with_capacity"):
                if vname not in [local_name(a) for a in e["args"]]:
                    raise Unsupported(e, "sub with_capacity not given the same version")
                return [leaf(op="sub", field=name, struct=struct_of_path(d), sp=tir.sp(e))]
            if d.startswith("arrow2::bitmap::MutableBitmap"):
                return [leaf(op="bitmap", field=name, sp=tir.sp(e))]
            if d.startswith("arrow2::offset::Offsets"):
                return [leaf(op="offsets", field=name, sp=tir.sp(e))]
        # ports.iter().map(|p| PortData::with_capacity(capacity, version, *p)).collect()
        if e.get("k") == "MethodCall" and e["method"] == "collect":
            m = strip(e["recv"])
            if m.get("k") == "MethodCall" and m["method"] == "map":
                it = strip(m["recv"])
                cl = strip(m["args"][0])
                if it.get("k") == "MethodCall" and it["method"] in ("iter", "into_iter") and cl.get("k") == "Closure" and len(cl["params"]) == 1:
                    inner = strip_try(cl["body"])
                    pn = cl["params"][0].get("name")
                    if inner.get("k") == "Call" and (declared(inner) or "").startswith("frame::mutable::") and (declared(inner) or "").endswith("::with_capacity"):
                        an = [local_name(a) for a in inner["args"]]
                        if vname in an and pn in an:
                            return [leaf(op="each", field=name, over=place(it["recv"]), struct=struct_of_path(declared(inner)), sp=tir.sp(e))]
        raise Unsupported(e, "column constructor outside the fragment: " + tir.pretty(e)[:100])

    for name, e in fields:
        out.extend(one(name, e))
    return out


def x_transpose(body):
    """Row view: each destination field <- column of self at the row index."""
    vname = param_named(body, "io::slippi::Version")
    iname = None
    for nme, t in params(body):
        if t == "usize":
            iname = nme
    fields, node = ctor_fields(body["tir"]["value"], None)
    out = []

    def src(e, selfname, optional):
        e = strip_try(e)
        if e.get("k") == "Index":
            b = strip(e["base"])
            if b.get("k") == "MethodCall" and b["method"] == "values" and "PrimitiveArray" in (declared(b) or ""):
                if local_name(e["index"]) != iname:
                    raise Unsupported(e, "row view indexes a column with something other than the row parameter")
                p = place(b["recv"])
                return dict(kind="prim", src=p, opt=optional)
        if e.get("k") == "MethodCall" and e["method"] == "value" and "PrimitiveArray" in (declared(e) or ""):
            if local_name(e["args"][0]) != iname:
                raise Unsupported(e, "row view indexes a column with something other than the row parameter")
            return dict(kind="prim", src=place(e["recv"]), opt=optional)
        if e.get("k") == "MethodCall" and e["method"] == "transpose_one" and (declared(e) or "").startswith("frame::"):
            a = e["args"]
            if len(a) != 2 or local_name(a[0]) != iname or local_name(a[1]) != vname:
                raise Unsupported(e, "sub row view not given the same row and version")
            return dict(kind="sub", src=place(e["recv"]), opt=optional, struct=struct_of_path(declared(e)))
        if e.get("k") == "MethodCall" and e["method"] == "map" and (declared(e) or "").startswith("std::option::Option"):
            r = strip(e["recv"])
            base = place(r)
            cl = strip(e["args"][0])
            if base and cl.get("k") == "Closure" and len(cl["params"]) == 1:
                pn = cl["params"][0].get("name")
                d = src(cl["body"], pn, True)
                if d["src"] != pn:
                    raise Unsupported(e, "closure does not use its own parameter")
                d["src"] = base
                return d
        # COND.then(|| inner)
        g = then_gate(e)
        if g is not None:
            inner = g[1]
            d = items_src(inner) or src(inner, selfname, False)
            d["gate"] = g[0]
            return d
        # self.ports.iter().map(|p| p.transpose_one(i, version)).collect()
        if e.get("k") == "MethodCall" and e["method"] == "collect":
            m = strip(e["recv"])
            if m.get("k") == "MethodCall" and m["method"] == "map":
                it = strip(m["recv"])
                cl = strip(m["args"][0])
                if it.get("k") == "MethodCall" and it["method"] == "iter" and not it["args"] and cl.get("k") == "Closure" and len(cl["params"]) == 1:
                    pn = cl["params"][0].get("name")
                    d = src(cl["body"], pn, False)
                    if d["src"] != pn:
                        raise Unsupported(e, "closure does not use its own parameter")
                    return dict(kind="each", src=place(it["recv"]), opt=False, struct=d.get("struct"))
        # plain copy of a non-column field (port)
        p = place(e)
        if p and e.get("k") in ("Field",):
            return dict(kind="copy", src=p, opt=False)
        raise Unsupported(e, "row-view source outside the fragment: " + tir.pretty(e)[:100])

    def items_src(e):
        """{ let (a, b) = OFFS.start_end(i); (a..b).map(|j| ITEM.transpose_one(j, version)).collect() }"""
        e = strip_try(e)
        if e.get("k") != "Block" or len(e.get("stmts", [])) != 1 or not e.get("tail"):
            return None
        s = e["stmts"][0]
        if not (s.get("k") == "Let" and s["pat"].get("k") == "Tuple" and len(s["pat"]["pats"]) == 2):
            return None
        a, b = [q.get("name") for q in s["pat"]["pats"]]
        i = strip(s["init"])
        if not (i.get("k") == "MethodCall" and i["method"] == "start_end" and "arrow2::offset::Offsets" in (declared(i) or "")):
            return None
        if local_name(i["args"][0]) != iname:
            raise Unsupported(i, "item offsets taken at an index other than the row parameter")
        t = strip_try(e["tail"])
        if not (t.get("k") == "MethodCall" and t["method"] == "collect"):
            return None
        m = strip(t["recv"])
        if not (m.get("k") == "MethodCall" and m["method"] == "map"):
            return None
        rng = strip(m["recv"])
        lo = hi = None
        if rng.get("k") == "Struct" and (rng.get("path") or "").endswith("ops::Range"):
            fl = {f["name"]: local_name(f["e"]) for f in rng["fields"]}
            lo, hi = fl.get("start"), fl.get("end")
        cl = strip(m["args"][0])
        if cl.get("k") != "Closure" or len(cl["params"]) != 1:
            return None
        jn = cl["params"][0].get("name")
        body = strip_try(cl["body"])
        if not (body.get("k") == "MethodCall" and body["method"] == "transpose_one" and (declared(body) or "").startswith("frame::")):
            return None
        ba = body["args"]
        ok = (lo, hi) == (a, b) and len(ba) == 2 and local_name(ba[0]) == jn and local_name(ba[1]) == vname
        return dict(kind="items", src=place(body["recv"]), offsets=place(i["recv"]), exact=ok, opt=False, struct=struct_of_path(declared(body)))

    for name, e in fields:
        d = src(e, "self", False)
        d.update(op="row", field=name, sp=tir.sp(e))
        out.append(leaf(**d))
    return out


def x_from(body):
    xname = body["tir"]["params"][0].get("name")
    fields, node = ctor_fields(body["tir"]["value"], None)
    out = []

    def src(e):
        e = strip_try(e)
        if e.get("k") == "MethodCall" and e["method"] == "into" and not e["args"]:
            p = place(e["recv"])
            if p:
                return dict(src=p, opt=False)
        if e.get("k") == "MethodCall" and e["method"] == "map" and (declared(e) or "").startswith("std::option::Option"):
            base = place(e["recv"])
            cl = strip(e["args"][0])
            if base and cl.get("k") == "Closure" and len(cl["params"]) == 1:
                pn = cl["params"][0].get("name")
                d = src(cl["body"])
                if d["src"] != pn:
                    raise Unsupported(e, "closure does not convert its own parameter")
                return dict(src=base, opt=True)
            if base and cl.get("k") == "Path" and (cl.get("path") or "") in ("std::convert::Into::into", "std::convert::From::from"):
                return dict(src=base, opt=True)        # .map(Into::into): the same conversion, point-free
        p = place(e)
        if p and e.get("k") in ("Field", "Path"):
            return dict(src=p, opt=False, moved=True)
        raise Unsupported(e, "conversion source outside the fragment: " + tir.pretty(e)[:100])

    for name, e in fields:
        d = src(e)
        d.update(op="conv", field=name, sp=tir.sp(e))
        out.append(leaf(**d))
    return out, xname


# ---------------------------------------------------------------- arrow siblings

def vec_elems(n):
    """Elements of a vec![..] / Vec::new() expression, or None."""
    n = strip(n)
    if n.get("k") == "Call" and (declared(n) or "").endswith("Vec::<T>::new"):
        return []
    if tir.in_macro(n, "vec"):
        for x in tir.walk(n):
            if x.get("k") == "Array" and tir.in_macro(x, "vec"):
                return x["elems"]
    return None


ARROW_TY = {"UInt8": "u8", "Int8": "i8", "UInt16": "u16", "Int16": "i16", "UInt32": "u32", "Int32": "i32",
            "UInt64": "u64", "Int64": "i64", "Float32": "f32", "Float64": "f64"}


def field_new(e, vname):
    """Field::new("name", DT, nullable) -> leaf dict"""
    e = strip(e)
    if not (e.get("k") == "Call" and (declared(e) or "") == "arrow2::datatypes::Field::new"):
        return None
    name, dt, nullable = e["args"]
    name = strip(name)
    d = dict(op="field", sp=tir.sp(e))
    if name.get("k") == "Lit" and name.get("lit") == "str":
        d["name"] = name["v"]
    else:
        d["name"] = None
        d["name_expr"] = name
    nb = strip(nullable)
    d["nullable"] = nb.get("v") if nb.get("k") == "Lit" else None
    dt = strip(dt)
    while dt.get("k") == "MethodCall" and dt["method"] == "clone":
        dt = strip(dt["recv"])
    if dt.get("k") == "Path" and (dt.get("path") or "").startswith("arrow2::datatypes::DataType::"):
        d["dt"] = dt["path"].split("::")[-1]
    elif dt.get("k") == "Call" and (declared(dt) or "").endswith("::data_type") and "frame::immutable" in declared(dt):
        d["sub"] = struct_of_path(declared(dt))
        d["sub_args"] = [local_name(a) for a in dt["args"]]
    elif dt.get("k") == "Call" and "frame::immutable" in (declared(dt) or ""):
        d["subfn"] = declared(dt)
        d["sub_args"] = [local_name(a) for a in dt["args"]]
    else:
        raise Unsupported(e, "field type outside the fragment: " + tir.pretty(dt)[:100])
    return d


def x_data_type(body):
    vname = param_named(body, "io::slippi::Version")
    st = {"vec": None, "flags_ok": True}

    def lf(n, st):
        n = strip_try(n)
        k = n.get("k")
        if k == "Let" and n["pat"].get("k") == "Bind":
            el = vec_elems(n["init"])
            if el is not None:
                st["vec"] = n["pat"]["name"]
                out = []
                for e in el:
                    d = field_new(e, vname)
                    if d is None:
                        raise Unsupported(e, "vec! element is not Field::new")
                    out.append(leaf(**d))
                return out
        if k == "MethodCall" and n["method"] == "push" and local_name(n["recv"]) == st["vec"] and st["vec"]:
            d = field_new(n["args"][0], vname)
            if d is None:
                raise Unsupported(n, "pushed value is not Field::new")
            return [leaf(**d)]
        if k == "Call" and (declared(n) or "") == "arrow2::datatypes::DataType::Struct":
            a = strip(n["args"][0])
            if local_name(a) == st["vec"] and st["vec"]:
                return []
            el = vec_elems(a)
            if el is not None:
                out = []
                for e in el:
                    d = field_new(e, vname)
                    if d is None:
                        raise Unsupported(e, "vec! element is not Field::new")
                    out.append(leaf(**d))
                return out
        return None

    return seq(body["tir"]["value"], lf, st)


def boxed_src(e, vname, st=None):
    """X.boxed() where X = self.F | self.F.unwrap() | (those).into_struct_array(version ..)
       | StructArray::new(Self::port_data_type(..), values, None) | ListArray::new(Self::item_data_type(..), offsets, values, None)"""
    st = st or {}
    e = strip(e)
    if local_name(e) is not None and local_name(e) in st.get("bound", {}):
        return dict(st["bound"][local_name(e)])
    if not (e.get("k") == "MethodCall" and e["method"] == "boxed"):
        return None
    x = strip(e["recv"])
    d = dict(op="child", sp=tir.sp(e))
    if x.get("k") == "Call" and (declared(x) or "") == "arrow2::array::StructArray::new":
        dt, vals, validity = x["args"]
        dtc = strip(dt)
        d.update(kind="struct-of", dt_call=declared(dtc) if dtc.get("k") == "Call" else None, values=local_name(vals),
                 values_kind=(st.get("bound", {}).get(local_name(vals)) or {}).get("kind"),
                 validity="None" if (strip(validity).get("path") or "").endswith("None") else tir.pretty(validity), field=None, opt=False)
        return d
    if x.get("k") == "Call" and (declared(x) or "").startswith("arrow2::array::ListArray") and (declared(x) or "").endswith("::new"):
        dt, offs, vals, validity = x["args"]
        dtc = strip(dt)
        inner = st.get("bound", {}).get(local_name(vals)) or boxed_src(vals, vname, st) or {}
        d.update(kind="list", dt_call=declared(dtc) if dtc.get("k") == "Call" else None, offsets=field_of_self(offs), offsets_opt=through_option(offs),
                 field=inner.get("field"), struct=inner.get("struct"), opt=inner.get("opt"),
                 validity="None" if (strip(validity).get("path") or "").endswith("None") else tir.pretty(validity))
        return d
    if x.get("k") == "MethodCall" and x["method"] == "into_struct_array" and "frame::immutable" in (declared(x) or ""):
        d["struct"] = struct_of_path(declared(x))
        d["sub_args"] = [local_name(a) or tir.pretty(a) for a in x["args"]]
        x = strip(x["recv"])
    f = field_of_self(x)
    opt = through_option(x)
    ln = local_name(x)
    if f is None and ln is not None and ln in st.get("alias", {}):
        f = st["alias"][ln]
        f = f[len("self."):] if f.startswith("self.") else f
        opt = True
    d["field"] = f
    d["opt"] = opt
    d["src_local"] = None if f else place(x)
    return d


def x_into_struct_array(body):
    vname = param_named(body, "io::slippi::Version")
    st = {"vec": None, "flags_ok": True, "bound": {}, "alias": {}}

    def lf(n, st):
        n = strip_try(n)
        k = n.get("k")
        if k == "Let" and n["pat"].get("k") == "Bind":
            el = vec_elems(n["init"])
            if el is not None:
                st["vec"] = n["pat"]["name"]
                out = []
                for e in el:
                    d = boxed_src(e, vname, st)
                    if d is None:
                        raise Unsupported(e, "vec! element is not X.boxed()")
                    out.append(leaf(**d))
                return out
            d = boxed_src(n["init"], vname, st)
            if d is not None:
                st["bound"][n["pat"]["name"]] = d
                return []
            # let values: Vec<_> = zip(ports, self.ports).map(|(occupancy, data)| data.into_struct_array(version, *occupancy).boxed()).collect()
            i = strip(n["init"])
            if i.get("k") == "MethodCall" and i["method"] == "collect":
                m = strip(i["recv"])
                if m.get("k") == "MethodCall" and m["method"] == "map":
                    z = strip(m["recv"])
                    cl = strip(m["args"][0])
                    if z.get("k") == "Call" and (declared(z) or "").endswith("iter::zip") and cl.get("k") == "Closure" and len(cl["params"]) == 1 and cl["params"][0].get("k") == "Tuple":
                        a, b = [q.get("name") for q in cl["params"][0]["pats"]]
                        za, zb = [place(x) for x in z["args"]]
                        inner = boxed_src(cl["body"], vname, {"alias": {}, "bound": {}})
                        if inner and inner.get("src_local") == b and inner.get("struct") and zb and zb.startswith("self."):
                            st["bound"][n["pat"]["name"]] = dict(kind="zip", over=za, field=zb[5:], struct=inner["struct"], sub_args=inner.get("sub_args"), pair=(a, b))
                            return []
            return None
        if k == "MethodCall" and n["method"] == "push" and st["vec"] and local_name(n["recv"]) == st["vec"]:
            d = boxed_src(n["args"][0], vname, st)
            if d is None:
                raise Unsupported(n, "pushed value is not X.boxed()")
            return [leaf(**d)]
        if k == "Call" and (declared(n) or "") == "arrow2::array::StructArray::new":
            dt, vals, validity = n["args"]
            if local_name(vals) != st["vec"]:
                raise Unsupported(n, "StructArray::new not given the collected children")
            dtc = strip(dt)
            d = dict(op="new", sp=tir.sp(n), dt_call=declared(dtc) if dtc.get("k") == "Call" else None,
                     dt_args=[local_name(a) for a in dtc.get("args", [])] if dtc.get("k") == "Call" else None,
                     validity=field_of_self(validity) or ("None" if (strip(validity).get("path") or "").endswith("None") else tir.pretty(validity)))
            return [leaf(**d)]
        return None

    return seq(body["tir"]["value"], lf, st)


def x_from_struct_array(body):
    """Import: each destination field <- child at a literal position."""
    vname = param_named(body, "io::slippi::Version")
    val = body["tir"]["value"]
    # find `let (a, b, c) = array.into_data();`
    names = None
    stmts = strip_try(val).get("stmts", []) if strip_try(val).get("k") == "Block" else []
    for s in stmts:
        if s.get("k") == "Let" and s["pat"].get("k") == "Tuple":
            i = strip(s["init"])
            if i.get("k") == "MethodCall" and i["method"] == "into_data" and (declared(i) or "").startswith("arrow2::array::StructArray"):
                names = [(p.get("name") if p.get("k") == "Bind" else None) for p in s["pat"]["pats"]]
    if not names or len(names) != 3:
        raise Unsupported(val, "no `let (fields, values, validity) = array.into_data()`")
    fields_n, values_n, validity_n = names
    fields, node = ctor_fields(val, None, any_stmts=True)
    out = []

    def downcast(e, holder):
        """HOLDER.as_any().downcast_ref::<T>().unwrap().clone() -> T (string) else None"""
        e = strip(e)
        chain = []
        while e.get("k") == "MethodCall":
            chain.append(e)
            e = strip(e["recv"])
        methods = [c["method"] for c in chain]
        if methods[:3] == ["clone", "unwrap", "downcast_ref"] or methods[:3] == ["clone", "expect", "downcast_ref"]:
            dc = chain[2]
            t = (dc.get("gargs") or [None])[0]
            rest = chain[3:]
            if rest and rest[0]["method"] == "as_any":
                return t, strip(rest[0]["recv"])
        return None

    def child(e):
        """values[K] -> ('idx', K); values.get(K) handled by caller; local x -> ('local', name)"""
        e = strip(e)
        if e.get("k") == "Index" and local_name(e["base"]) == values_n:
            kk = lit_int(e["index"])
            if kk is None:
                raise Unsupported(e, "child position is not a literal")
            return ("idx", kk)
        if local_name(e) is not None:
            return ("local", local_name(e))
        return None

    def one(e, bound=None):
        e = strip_try(e)
        # values.get(K).map(|x| inner(x))
        if e.get("k") == "MethodCall" and e["method"] == "map" and (declared(e) or "").startswith("std::option::Option"):
            r = strip(e["recv"])
            if r.get("k") == "MethodCall" and r["method"] == "get" and local_name(r["recv"]) == values_n:
                kk = lit_int(r["args"][0])
                cl = strip(e["args"][0])
                if kk is not None and cl.get("k") == "Closure" and len(cl["params"]) == 1:
                    pn = cl["params"][0].get("name")
                    d = one(cl["body"], bound=(pn, kk))
                    d["opt"] = True
                    return d
        if e.get("k") == "Call" and (declared(e) or "").endswith("::from_struct_array") and "frame::immutable" in (declared(e) or ""):
            dc = downcast(e["args"][0], None)
            if dc is None:
                raise Unsupported(e, "sub import not given a downcast child")
            t, holder = dc
            c = child(holder)
            if local_name(e["args"][1]) != vname:
                raise Unsupported(e, "sub import not given the same version")
            pos = resolve(c, bound, e)
            return dict(kind="sub", struct=struct_of_path(declared(e)), pos=pos, down=t, opt=False, extra_args=[tir.pretty(a) for a in e["args"][2:]])
        dc = downcast(e, None)
        if dc is not None:
            t, holder = dc
            c = child(holder)
            pos = resolve(c, bound, e)
            return dict(kind="prim", pos=pos, down=t, opt=False)
        if validity_n is not None and local_name(e) == validity_n:
            return dict(kind="validity", pos=None, opt=False)
        if e.get("k") == "Call" and e.get("local") and len(e.get("args", [])) >= 1:
            dc = downcast(e["args"][0], None)
            if dc is not None:
                t, holder = dc
                pos = resolve(child(holder), bound, e)
                return dict(kind="subfn", fn=declared(e), pos=pos, down=t, opt=False, extra_args=[local_name(a) for a in e["args"][1:]])
        if local_name(e) is not None:
            return dict(kind="local", name=local_name(e), pos=None, opt=False)
        raise Unsupported(e, "import source outside the fragment: " + tir.pretty(e)[:100])

    def resolve(c, bound, e):
        if c is None:
            raise Unsupported(e, "import source is not a child of the array")
        if c[0] == "idx":
            return c[1]
        if bound and c[1] == bound[0]:
            return bound[1]
        raise Unsupported(e, "import source is an unrelated local")

    for name, e in fields:
        d = one(e)
        d.update(op="import", field=name, sp=tir.sp(e))
        out.append(leaf(**d))
    return out
