"""Confirm that each seeded mutant still compiles and passes the repository's own test suite (run once, results recorded
in mutants/tests_status.json). Usage: mutant_tests.py [--only substr] [--jobs N]"""
import json
import os
import shutil
import subprocess
import sys
import tempfile
from concurrent.futures import ThreadPoolExecutor

VERIF = os.path.dirname(os.path.dirname(os.path.abspath(__file__)))
REPO = "/repo"
STATUS = os.path.join(VERIF, "mutants", "tests_status.json")


def run_one(args):
    m, slot = args
    scratch = tempfile.mkdtemp(prefix="peppi-mt-")
    try:
        subprocess.check_call(["rsync", "-a", "--exclude", "target", "--exclude", ".git", REPO + "/", scratch + "/"])
        r = subprocess.run(["patch", "-p1", "--no-backup-if-mismatch", "-s", "-d", scratch, "-i", os.path.join(VERIF, m["patch"])], capture_output=True, text=True)
        if r.returncode != 0:
            return m["patch"], "patch-failed"
        env = dict(os.environ, CARGO_TARGET_DIR="/tmp/peppi-mt-target-%d" % slot, CARGO_NET_OFFLINE="true")
        c = subprocess.run(["cargo", "test", "--offline", "--no-fail-fast"], cwd=scratch, env=env, capture_output=True, text=True)
        out = c.stdout + c.stderr
        if "error: could not compile" in out or "error[E" in out:
            return m["patch"], "compile-error"
        passed = sum(int(x.split(" passed")[0].split()[-1]) for x in out.splitlines() if x.startswith("test result:"))
        failed = sum(int(x.split(" failed")[0].split()[-1]) for x in out.splitlines() if x.startswith("test result:"))
        return m["patch"], "pass:%d" % passed if c.returncode == 0 and failed == 0 else "fail:%d/%d" % (failed, passed + failed)
    finally:
        shutil.rmtree(scratch, ignore_errors=True)


def main():
    a = sys.argv[1:]
    only = a[a.index("--only") + 1] if "--only" in a else None
    jobs = int(a[a.index("--jobs") + 1]) if "--jobs" in a else 4
    with open(os.path.join(VERIF, "mutants", "catalogue.json")) as fh:
        ms = json.load(fh)["mutants"]
    status = {}
    if os.path.exists(STATUS):
        status = json.load(open(STATUS))
    todo = [m for m in ms if (not only or only in m["patch"]) and (only or m["patch"] not in status)]
    with ThreadPoolExecutor(max_workers=jobs) as ex:
        for i, (p, st) in enumerate(ex.map(run_one, [(m, i % jobs) for i, m in enumerate(todo)])):
            status[p] = st
            print(p, st, flush=True)
            json.dump(status, open(STATUS, "w"), indent=1, sort_keys=True)
    for s in range(jobs):
        shutil.rmtree("/tmp/peppi-mt-target-%d" % s, ignore_errors=True)


if __name__ == "__main__":
    main()
