"""E5 extended to small integer-valued decision functions: the function is evaluated on the order-type representatives of its
integer inputs (constants of the code +-1 and the type's end points), which decides it on the whole domain because the fragment
admits only comparisons, literal/range patterns, value-preserving conversions and constructors — no arithmetic on the inputs.
Values: ints, ('Ok', v) / ('Err',) / ('Some', v) / ('None',), ('struct', path, {field: value}), symbolic parameters ('sym', name)."""
import layout as L
import order
import tir
from tir import strip, declared

INT_RANGE = {"i8": (-128, 127), "i16": (-2**15, 2**15 - 1), "i32": (-2**31, 2**31 - 1), "i64": (-2**63, 2**63 - 1), "u8": (0, 255), "u16": (0, 2**16 - 1),
             "u32": (0, 2**32 - 1), "u64": (0, 2**64 - 1), "usize": (0, 2**64 - 1), "isize": (-2**63, 2**63 - 1)}


class ValueEval(order.Evaluator):
    def lit(self, e):
        v = e.get("v")
        if e.get("neg") and isinstance(v, int):
            v = -v
        return v

    def match_pat(self, p, v, env):
        """env extended by the pattern's bindings, or None when the pattern does not match"""
        k = p.get("k")
        if k == "Wild":
            return env
        if k == "Bind":
            e2 = dict(env)
            e2[p["name"]] = v
            if isinstance(p.get("sub"), dict):
                return self.match_pat(p["sub"], v, e2)
            return e2
        if k == "Ref":
            return self.match_pat(p["pat"], v, env)
        if k == "Lit":
            e = p["e"]
            if e.get("k") == "Lit" and e.get("lit") in ("int", "char", "bool"):
                c = self.lit(e)
                if isinstance(c, int) and not isinstance(c, bool):
                    self.consts_seen.add(c)
                return env if v == c else None
            if e.get("k") == "Path" and (e.get("path") or "").endswith("::None"):
                return env if v == ("None",) else None
            raise L.Unsupported(p, "literal pattern outside the fragment")
        if k == "Path" and (p.get("path") or "").endswith("::None"):
            return env if v == ("None",) else None
        if k == "Range":
            lo, hi = p.get("lo"), p.get("hi")
            lo = self.lit(lo) if isinstance(lo, dict) else None
            hi = self.lit(hi) if isinstance(hi, dict) else None
            for c in (lo, hi):
                if isinstance(c, int):
                    self.consts_seen.add(c)
            if not isinstance(v, int) or isinstance(v, bool):
                raise L.Unsupported(p, "range pattern on a non-integer")
            if hi is not None and "Excluded" in (p.get("end") or ""):
                hi -= 1
            return env if (lo is None or v >= lo) and (hi is None or v <= hi) else None
        if k == "Or":
            for q in p["pats"]:
                r = self.match_pat(q, v, env)
                if r is not None:
                    return r
            return None
        if k == "Tuple":
            if isinstance(v, tuple) and len(v) == len(p.get("pats", [])) and not (v and isinstance(v[0], str)):
                e2 = env
                for q, x in zip(p["pats"], v):
                    e2 = self.match_pat(q, x, e2)
                    if e2 is None:
                        return None
                return e2
            raise L.Unsupported(p, "tuple pattern on a non-tuple value")
        if k == "TupleStruct":
            name = (p.get("path") or "").split("::")[-1]
            if name in ("Ok", "Some", "Err"):
                if isinstance(v, tuple) and v and v[0] == name:
                    if len(p["pats"]) == 1 and len(v) > 1:
                        return self.match_pat(p["pats"][0], v[1], env)
                    return env if all(q.get("k") in ("Wild",) for q in p["pats"]) or len(v) == 1 else None
                return None
        raise L.Unsupported(p, "pattern outside the fragment: %s" % k)

    def eval(self, n, env):
        n0 = strip(n)
        k = n0.get("k")
        if k == "Lit" and n0.get("lit") == "int":
            v = self.lit(n0)
            self.consts_seen.add(v)
            return v
        if k == "Unary" and n0.get("op") == "Neg":
            v = self.eval(n0["e"], env)
            if isinstance(v, int) and not isinstance(v, bool):
                self.consts_seen.add(-v)
                return -v
        if k == "Cast":
            v = self.eval(n0["e"], env)
            r = INT_RANGE.get(n0.get("ty"))
            if isinstance(v, int) and not isinstance(v, bool) and r:
                if r[0] <= v <= r[1]:
                    return v
                span = r[1] - r[0] + 1
                return (v - r[0]) % span + r[0]       # wrapping cast
            if isinstance(v, tuple) and v and v[0] == "sym":
                return v
            raise L.Unsupported(n0, "cast of a non-integer")
        if k == "Call":
            d = declared(n0) or ""
            if (n0.get("dk") or "").startswith("Ctor") or n0.get("res") == "selfctor":
                name = d.split("::")[-1]
                if name == "Err":
                    return ("Err",)
                if name in ("Ok", "Some"):
                    return (name, self.eval(n0["args"][0], env)) if n0["args"] else (name,)
            if d.endswith("TryFrom::try_from") and len(n0["args"]) == 1:
                v = self.eval(n0["args"][0], env)
                m = __import__("re").match(r"std::result::Result<(\w+),", n0.get("ty") or "")
                r = INT_RANGE.get(m.group(1)) if m else None
                if isinstance(v, int) and r:
                    for c in r:
                        self.consts_seen.add(c)
                    return ("Ok", v) if r[0] <= v <= r[1] else ("Err",)
                raise L.Unsupported(n0, "try_from outside the integer fragment")
            if d.endswith("From::from") and len(n0["args"]) == 1 and n0.get("ty") in INT_RANGE:
                return self.eval(n0["args"][0], env)
        if k == "Path" and n0.get("res") == "def" and (n0.get("path") or "").endswith("::None"):
            return ("None",)
        if k == "Struct":
            return ("struct", n0.get("path"), tuple(sorted((f["name"], self.eval(f["e"], env)) for f in n0["fields"])))
        if k == "Match":
            s = self.eval(n0["scrut"], env)
            if not (isinstance(s, tuple) and s and s[0] in ("Ordering", "SomeOrdering")) and not isinstance(s, bool):
                for a in n0["arms"]:
                    e2 = self.match_pat(a["pat"], s, env)
                    if e2 is None:
                        continue
                    if a.get("guard") is not None and not self.eval(a["guard"], e2):
                        continue
                    return self.eval(a["body"], e2)
                raise L.Unsupported(n0, "no arm taken")
        if k == "MethodCall" and n0["method"] in ("ok",) and not n0.get("args"):
            v = self.eval(n0["recv"], env)
            if isinstance(v, tuple) and v and v[0] == "Ok":
                return ("Some",) + v[1:]
            if v == ("Err",):
                return ("None",)
        if k == "Try":
            v = self.eval(n0["e"], env)
            if v == ("Err",):
                raise order._Return(("Err",))
            if isinstance(v, tuple) and v and v[0] == "Ok":
                return v[1] if len(v) > 1 else ()
            raise L.Unsupported(n0, "`?` on a value outside the fragment")
        return super().eval(n, env)


def decide_table(F, path, int_param, other_params, spec, rep, rule):
    """evaluate F.body(path) with int_param ranging over its order-type representatives and the other parameters symbolic;
    spec(v) gives the expected result; reports one obligation"""
    b = F.body(path)
    if b is None:
        rep.ob(rule, False, path, "missing", "%s not found" % path)
        return
    ps = b["tir"]["params"]
    ity = next((p.get("ty") for p in ps if p.get("name") == int_param), None)
    dom = INT_RANGE.get(ity)
    if dom is None:
        rep.cannot(rule, path, L.Unsupported({}, "parameter %s is not an integer" % int_param))
        return
    ev = ValueEval(F)

    def run(v):
        env = {p["name"]: (v if p["name"] == int_param else ("sym", p["name"])) for p in ps if p.get("k") == "Bind"}
        try:
            return ev.eval(b["tir"]["value"], env)
        except order._Return as r:
            return r.value
    try:
        run(dom[0])
        pts = set()
        for c in list(ev.consts_seen) + [dom[0], dom[1], 0]:
            if isinstance(c, int):
                for d in (-1, 0, 1):
                    if dom[0] <= c + d <= dom[1]:
                        pts.add(c + d)
        bad = [(v, run(v), spec(v)) for v in sorted(pts) if run(v) != spec(v)]
    except L.Unsupported as e:
        rep.cannot(rule, path, e)
        return
    rep.ob(rule, not bad, path, "table", "%s disagrees with its specification at %s" % (path, ["%s: code %s, spec %s" % b_ for b_ in bad[:3]]),
           sample={"representatives": sorted(pts), "function": path})
