"""./check <Cxx> [--tier quick|thorough] — run one property's static rules against /repo's current tree."""
import importlib
import os
import sys
import traceback

sys.path.insert(0, os.path.dirname(os.path.abspath(__file__)))
import common
import facts
import layout
import tir


def thorough_selftest(pid, rep, source_hash=None):
    """thorough tier: self-validation of this property's check over every variant tree the framework keeps, each applied
    to a scratch copy of /repo (outside /repo and /verif), with facts re-extracted by the driver:
      * every seeded mutant registered for this property (mutants/catalogue.json) must be reported, by the named rule;
      * every kept sub-agent change for this property (seeded/<id>/patch.diff) must be reported;
      * every behaviour-preserving variant (mutants/benign/*.patch) must leave this check silent.
    A miss or a false alarm on the pinned tree is a broken checker (exit 2), never a violation. On a tree other than
    the pinned one the patches need not apply or keep their meaning: results are then recorded but not binding."""
    import glob
    import json
    import time
    import selftest
    t0 = time.time()
    try:
        with open(os.path.join(os.path.dirname(os.path.abspath(__file__)), "pinned_tree.json")) as fh:
            pinned = json.load(fh)["source_hash"]
    except (OSError, KeyError, ValueError):
        pinned = None
    binding = pinned is not None and source_hash == pinned
    V = selftest.VERIF
    jobs = []
    for m in selftest.catalogue():
        if pid in m["caught_by"]:
            jobs.append(("mutant", os.path.join(V, m["patch"]), m.get("rule"), m.get("what")))
    for d in sorted(glob.glob(os.path.join(V, "seeded", "*"))):
        try:
            meta = json.load(open(os.path.join(d, "meta.json")))
        except (OSError, ValueError):
            continue
        # a seed recorded as open (meta.open: reported by another property's check only; see DESIGN.md) is not part of this check's self-validation
        if meta.get("property") == pid and meta.get("confirmed", True) and not meta.get("open"):
            jobs.append(("seeded", os.path.join(d, "patch.diff"), None, os.path.basename(d)))
    for p in sorted(glob.glob(os.path.join(V, "mutants", "benign", "*.patch"))):
        jobs.append(("benign", p, None, os.path.basename(p)))
    results = []
    bad = []
    from concurrent.futures import ThreadPoolExecutor
    with ThreadPoolExecutor(max_workers=int(os.environ.get("VERIF_JOBS", "8"))) as ex:
        for (kind, patch, rule, what), (status, res) in zip(jobs, ex.map(lambda j: selftest.run_patch(j[1], [pid]), jobs)):
            name = os.path.relpath(patch, V)
            if status != "ran":
                results.append({"kind": kind, "patch": name, "result": "patch-does-not-apply"})
                if binding:
                    bad.append("%s (%s)" % (name, status))
                continue
            rc, out = res[pid]
            fired = rc == 1 and ("VIOLATION property=%s" % pid) in out
            if kind == "benign":
                ok = rc == 0
                results.append({"kind": kind, "patch": name, "result": "silent" if ok else "FALSE-ALARM rc=%d" % rc})
            else:
                named = (not rule) or any(rule in line for line in out.splitlines())
                ok = fired and named
                results.append({"kind": kind, "patch": name, "what": what, "result": "caught" if ok else "missed", "rule": rule})
            if not ok:
                bad.append(name)
    path = os.path.join(common.EVID, "%s.json" % pid)
    with open(path) as fh:
        ev = json.load(fh)
    cov = ev["coverage"]
    for kind, good in (("mutant", "caught"), ("seeded", "caught"), ("benign", "silent")):
        rs = [r for r in results if r["kind"] == kind]
        cov["%s_variants_applied" % kind] = len(rs)
        cov["%s_variants_%s" % (kind, good)] = len([r for r in rs if r["result"] == good])
    cov["mutants_applied"] = cov["mutant_variants_applied"]
    cov["mutants_caught"] = cov["mutant_variants_caught"]
    cov["variant_results"] = results
    cov["variant_results_binding"] = binding
    ev["wall_s"] = round(ev["wall_s"] + time.time() - t0, 3)
    with open(path, "w") as fh:
        json.dump(ev, fh, indent=1)
    print("%s thorough: on scratch copies — %d/%d seeded mutants and %d/%d kept sub-agent changes reported by this check, %d/%d behaviour-preserving variants silent%s" % (
        pid, cov["mutant_variants_caught"], cov["mutant_variants_applied"], cov["seeded_variants_caught"], cov["seeded_variants_applied"],
        cov["benign_variants_silent"], cov["benign_variants_applied"], "" if binding else " (tree differs from the pinned one: informational)"))
    if bad and binding:
        print("CHECKER-BROKEN %s: self-validation failed on: %s" % (pid, ", ".join(bad[:12])))
        return common.EXIT_BROKEN
    return common.EXIT_OK


def main():
    args = sys.argv[1:]
    if not args:
        print("usage: check <Cxx> [--tier quick|thorough]")
        return 2
    pid = args[0]
    tier = os.environ.get("VERIF_TIER", "quick")
    if "--tier" in args:
        tier = args[args.index("--tier") + 1]
    if tier not in ("quick", "thorough"):
        tier = "quick"
    try:
        mod = importlib.import_module("props." + pid)
    except ImportError as e:
        print("no check for %s: %s" % (pid, e))
        return 2
    try:
        doc = facts.load()
        F = tir.Facts(doc)
        rep = common.Report(pid, tier)
        rep.note("facts: %d bodies, source hash %s, cache %s" % (len(doc["bodies"]), doc["source_hash"][:16], doc.get("_cache")))
        rep.counts["functions_analysed"] = len([b for b in doc["bodies"] if b["kind"] in ("Fn", "AssocFn")])
        try:
            rc = mod.run(F, rep, tier)
            if tier == "thorough" and rc == common.EXIT_OK and not os.environ.get("PEPPI_REPO"):
                rc = thorough_selftest(pid, rep, doc.get("source_hash"))
            return rc
        except layout.Unsupported as e:
            # a construct outside an engine's fragment that no rule caught locally: fail closed as a violation
            rep.cannot("fragment", pid, e)
            return rep.finish("other", "aborted: construct outside the analysable fragment (fail closed)", "./check %s --tier %s" % (pid, tier))
        except (KeyError, IndexError, TypeError, AttributeError) as e:
            # a rule met a shape of the code it does not know (a missing arm, field or binding): the property cannot be
            # established on this tree, which is reported as such rather than as a crash of the checker
            tb = traceback.extract_tb(e.__traceback__)
            where = "; ".join("%s:%d %s" % (os.path.basename(f.filename), f.lineno, f.name) for f in tb[-3:])
            rep.cannot("fragment", pid, layout.Unsupported({}, "rule aborted on an unexpected code shape (%s: %s) in %s" % (type(e).__name__, e, where)))
            return rep.finish("other", "aborted: code shape outside the analysable fragment (fail closed)", "./check %s --tier %s" % (pid, tier))
    except common.Broken as e:
        print("CHECKER-BROKEN %s: %s" % (pid, e))
        return common.EXIT_BROKEN
    except facts.FactsError as e:
        print("CHECKER-BROKEN %s: fact extraction failed: %s" % (pid, e))
        return common.EXIT_BROKEN
    except Exception:
        traceback.print_exc()
        print("CHECKER-BROKEN %s: internal error" % pid)
        return common.EXIT_BROKEN


if __name__ == "__main__":
    sys.exit(main())
