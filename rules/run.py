"""./check <Cxx> [--tier quick|thorough] — run one property's static rules against /repo's current tree."""
import importlib
import os
import sys
import traceback

sys.path.insert(0, os.path.dirname(os.path.abspath(__file__)))
import common
import facts
import layout
import tir


def main():
    args = sys.argv[1:]
    if not args:
        print("usage: check <Cxx> [--tier quick|thorough]")
        return 2
    pid = args[0]
    tier = os.environ.get("VERIF_TIER", "quick")
    if "--tier" in args:
        tier = args[args.index("--tier") + 1]
    if tier not in ("quick", "thorough"):
        tier = "quick"
    try:
        mod = importlib.import_module("props." + pid)
    except ImportError as e:
        print("no check for %s: %s" % (pid, e))
        return 2
    try:
        doc = facts.load()
        F = tir.Facts(doc)
        rep = common.Report(pid, tier)
        rep.note("facts: %d bodies, source hash %s, cache %s" % (len(doc["bodies"]), doc["source_hash"][:16], doc.get("_cache")))
        rep.counts["functions_analysed"] = len([b for b in doc["bodies"] if b["kind"] in ("Fn", "AssocFn")])
        try:
            return mod.run(F, rep, tier)
        except layout.Unsupported as e:
            # a construct outside an engine's fragment that no rule caught locally: fail closed as a violation
            rep.cannot("fragment", pid, e)
            return rep.finish("other", "aborted: construct outside the analysable fragment (fail closed)", "./check %s --tier %s" % (pid, tier))
    except common.Broken as e:
        print("CHECKER-BROKEN %s: %s" % (pid, e))
        return common.EXIT_BROKEN
    except facts.FactsError as e:
        print("CHECKER-BROKEN %s: fact extraction failed: %s" % (pid, e))
        return common.EXIT_BROKEN
    except Exception:
        traceback.print_exc()
        print("CHECKER-BROKEN %s: internal error" % pid)
        return common.EXIT_BROKEN


if __name__ == "__main__":
    sys.exit(main())
