"""./check <Cxx> [--tier quick|thorough] — run one property's static rules against /repo's current tree."""
import importlib
import os
import sys
import traceback

sys.path.insert(0, os.path.dirname(os.path.abspath(__file__)))
import common
import facts
import layout
import tir


def thorough_selftest(pid, rep):
    """thorough tier: every seeded mutant registered for this property is applied to a scratch copy of /repo, facts are
    re-extracted and this check must report it. A missed mutant is a broken checker (exit 2), never a violation."""
    import json
    import time
    import selftest
    t0 = time.time()
    ms = [m for m in selftest.catalogue() if pid in m["caught_by"]]
    results = []
    missed = []
    from concurrent.futures import ThreadPoolExecutor
    with ThreadPoolExecutor(max_workers=8) as ex:
        for m, status, res in ex.map(selftest.run_one, [dict(m, caught_by=[pid]) for m in ms]):
            if status != "ran":
                missed.append(m["patch"])
                results.append({"mutant": m["patch"], "result": status})
                continue
            rc, out = res[pid]
            fired = rc == 1 and ("VIOLATION property=%s" % pid) in out
            rule = m.get("rule")
            named = (not rule) or any(rule in line for line in out.splitlines())
            results.append({"mutant": m["patch"], "what": m.get("what"), "result": "caught" if fired and named else "missed", "rule": rule})
            if not (fired and named):
                missed.append(m["patch"])
    path = os.path.join(common.EVID, "%s.json" % pid)
    with open(path) as fh:
        ev = json.load(fh)
    ev["coverage"]["mutants_applied"] = len(ms)
    ev["coverage"]["mutants_caught"] = len(ms) - len(missed)
    ev["coverage"]["mutant_results"] = results
    ev["wall_s"] = round(ev["wall_s"] + time.time() - t0, 3)
    with open(path, "w") as fh:
        json.dump(ev, fh, indent=1)
    print("%s thorough: %d seeded mutants applied to scratch copies, %d reported by this check" % (pid, len(ms), len(ms) - len(missed)))
    if missed:
        print("CHECKER-BROKEN %s: seeded mutants not reported: %s" % (pid, ", ".join(missed)))
        return common.EXIT_BROKEN
    return common.EXIT_OK


def main():
    args = sys.argv[1:]
    if not args:
        print("usage: check <Cxx> [--tier quick|thorough]")
        return 2
    pid = args[0]
    tier = os.environ.get("VERIF_TIER", "quick")
    if "--tier" in args:
        tier = args[args.index("--tier") + 1]
    if tier not in ("quick", "thorough"):
        tier = "quick"
    try:
        mod = importlib.import_module("props." + pid)
    except ImportError as e:
        print("no check for %s: %s" % (pid, e))
        return 2
    try:
        doc = facts.load()
        F = tir.Facts(doc)
        rep = common.Report(pid, tier)
        rep.note("facts: %d bodies, source hash %s, cache %s" % (len(doc["bodies"]), doc["source_hash"][:16], doc.get("_cache")))
        rep.counts["functions_analysed"] = len([b for b in doc["bodies"] if b["kind"] in ("Fn", "AssocFn")])
        try:
            rc = mod.run(F, rep, tier)
            if tier == "thorough" and rc == common.EXIT_OK and not os.environ.get("PEPPI_REPO"):
                rc = thorough_selftest(pid, rep)
            return rc
        except layout.Unsupported as e:
            # a construct outside an engine's fragment that no rule caught locally: fail closed as a violation
            rep.cannot("fragment", pid, e)
            return rep.finish("other", "aborted: construct outside the analysable fragment (fail closed)", "./check %s --tier %s" % (pid, tier))
        except (KeyError, IndexError, TypeError, AttributeError) as e:
            # a rule met a shape of the code it does not know (a missing arm, field or binding): the property cannot be
            # established on this tree, which is reported as such rather than as a crash of the checker
            tb = traceback.extract_tb(e.__traceback__)
            where = "; ".join("%s:%d %s" % (os.path.basename(f.filename), f.lineno, f.name) for f in tb[-3:])
            rep.cannot("fragment", pid, layout.Unsupported({}, "rule aborted on an unexpected code shape (%s: %s) in %s" % (type(e).__name__, e, where)))
            return rep.finish("other", "aborted: code shape outside the analysable fragment (fail closed)", "./check %s --tier %s" % (pid, tier))
    except common.Broken as e:
        print("CHECKER-BROKEN %s: %s" % (pid, e))
        return common.EXIT_BROKEN
    except facts.FactsError as e:
        print("CHECKER-BROKEN %s: fact extraction failed: %s" % (pid, e))
        return common.EXIT_BROKEN
    except Exception:
        traceback.print_exc()
        print("CHECKER-BROKEN %s: internal error" % pid)
        return common.EXIT_BROKEN


if __name__ == "__main__":
    sys.exit(main())
