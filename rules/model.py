"""Layout model of the generated frame structs + the shared L-rules (DESIGN.md section 2)."""
import json
import os
import re

import layout as L
import tir

GEN = ["End", "Item", "ItemMisc", "Position", "Post", "Pre", "Start", "StateFlags", "TriggersPhysical", "Velocities", "Velocity"]
EVENT_STRUCTS = ["Pre", "Post", "Start", "End", "Item"]

SIBS = {
    "with_capacity": ("frame::mutable::%s::with_capacity", L.x_with_capacity),
    "push_null": ("frame::mutable::%s::push_null", L.x_push_null),
    "read_push": ("frame::mutable::%s::read_push", L.x_read_push),
    "m_transpose": ("frame::mutable::%s::transpose_one", L.x_transpose),
    "i_transpose": ("frame::immutable::%s::transpose_one", L.x_transpose),
    "from": ("<frame::immutable::%s as std::convert::From<frame::mutable::%s>>::from", lambda b: L.x_from(b)[0]),
    "write": ("frame::immutable::slippi::<impl frame::immutable::%s>::write", L.x_write),
    "size": ("frame::immutable::slippi::<impl frame::immutable::%s>::size", L.x_size),
    "data_type": ("frame::immutable::peppi::<impl frame::immutable::%s>::data_type", L.x_data_type),
    "into": ("frame::immutable::peppi::<impl frame::immutable::%s>::into_struct_array", L.x_into_struct_array),
    "fromsa": ("frame::immutable::peppi::<impl frame::immutable::%s>::from_struct_array", L.x_from_struct_array),
}

VERIF = os.path.dirname(os.path.dirname(os.path.abspath(__file__)))


def parse_ver(s):
    a, b = s.split(".")[:2]
    return (int(a), int(b))


def vstr(v):
    return "%d.%d" % v


def load_spec(name):
    with open(os.path.join(VERIF, "spec", name)) as fh:
        return json.load(fh)


class Model:
    def __init__(self, F, rep, want=None):
        self.F = F
        self.trees = {}
        self.errors = []
        for s in GEN:
            for sib, (pat, fn) in SIBS.items():
                if want and sib not in want:
                    continue
                p = pat.replace("%s", s)
                b = F.body(p)
                if b is None:
                    rep.obligations += 1
                    rep.violation("anchor", p, "missing", "sibling function %s not found" % p)
                    continue
                try:
                    self.trees[(s, sib)] = fn(b)
                except L.Unsupported as e:
                    rep.cannot("fragment." + sib, p, e)
                except (KeyError, IndexError, TypeError, AttributeError) as e:
                    rep.cannot("fragment." + sib, p, L.Unsupported({}, "extractor error %r" % (e,)))
        # struct field tables from the item table
        self.mfields = {}
        self.ifields = {}
        self.tfields = {}
        for s in GEN:
            for table, mod in ((self.mfields, "frame::mutable::"), (self.ifields, "frame::immutable::"), (self.tfields, "frame::transpose::")):
                st = F.structs.get(mod + s)
                table[s] = [(f["name"], f["ty"]) for f in st["fields"]] if st else None
        self.spec = load_spec("frames_spec.json")
        self.thresholds = self._thresholds()
        self.classes = sorted(self.thresholds)

    def _thresholds(self):
        t = {(0, 1)}
        for items in self.trees.values():
            L.tree_thresholds(items, t)
        # every literal version test anywhere in the crate
        for b in self.F.fn_bodies():
            for n in tir.walk(b["tir"]["value"]):
                f = L.vcond(n) if n.get("k") in ("MethodCall", "Call") and n.get("ty") == "bool" else None
                if f is not None:
                    L.fatoms(f, t)
        for s in EVENT_STRUCTS:
            sp = self.spec[s]
            t.add(parse_ver(sp["since"]))
            for f in sp["fields"]:
                if f.get("since"):
                    t.add(parse_ver(f["since"]))
        ev = load_spec("events.json")
        for e in ev["events"].values():
            t.add(parse_ver(e["since"]))
        for e in ev["game_end_len"]:
            t.add(parse_ver(e["since"]))
        st = load_spec("start_spec.json")
        for e in st["payload_len_classes"]:
            t.add(parse_ver(e["since"]))
        return t

    def class_name(self, v):
        i = self.classes.index(v)
        hi = self.classes[i + 1] if i + 1 < len(self.classes) else None
        return "[%s,%s)" % (vstr(v), vstr(hi) if hi else "inf")

    def has(self, s, sib):
        return (s, sib) in self.trees

    def flat(self, s, sib, ver):
        return L.flatten(self.trees[(s, sib)], ver)

    def expand(self, s, sib, ver, prefix="", depth=0):
        """Flatten and recursively expand sub-struct leaves into primitive leaves with dotted field paths."""
        out = []
        if depth > 4 or (s, sib) not in self.trees:
            raise L.Unsupported({}, "no tree for %s::%s" % (s, sib))
        for l in self.flat(s, sib, ver):
            if l.get("op") == "sub":
                fld = l.get("field")
                sub = self.expand(l["struct"], sib, ver, prefix + (fld + "." if fld is not None else ""), depth + 1)
                out.extend(sub)
            else:
                d = dict(l)
                if d.get("field") is not None:
                    d["field"] = prefix + d["field"]
                d["_in"] = s
                out.append(d)
        return out

    def col_type(self, s, field, mutable=True):
        """('prim', T, optional) | ('sub', S2, optional) | ('validity',) for a column of struct s."""
        table = self.mfields if mutable else self.ifields
        for n, t in table.get(s) or []:
            if n == field:
                opt = t.startswith("std::option::Option<")
                inner = t[len("std::option::Option<"):-1] if opt else t
                m = re.match(r"arrow2::array::(?:Mutable)?PrimitiveArray<(\w+)>$", inner)
                if m:
                    return ("prim", m.group(1), opt)
                m = re.match(r"frame::(?:mutable|immutable)::(\w+)$", inner)
                if m:
                    return ("sub", m.group(1), opt)
                if "Bitmap" in inner:
                    return ("validity", None, opt)
                return ("other", inner, opt)
        return None


def first_diff(a, b):
    for i in range(max(len(a), len(b))):
        x = a[i] if i < len(a) else None
        y = b[i] if i < len(b) else None
        if x != y:
            return i, x, y
    return None


# ------------------------------------------------------------------------------------------- L1 / L7

def rule_L1(rep, M, structs=GEN):
    """reader, writer and size agree field by field (type, width, endianness, order, gate) per version class."""
    for s in structs:
        if not (M.has(s, "read_push") and M.has(s, "write") and M.has(s, "size")):
            continue
        bad_rw, bad_sz = [], []
        for v in M.classes:
            try:
                rd = [(l["field"], l["ty"], l.get("endian")) for l in M.expand(s, "read_push", v) if l["op"] == "read"]
                wr = [(l["field"], l["ty"], l.get("endian")) for l in M.expand(s, "write", v) if l["op"] == "write"]
                sz = [l.get("ty") or "const%d" % l.get("n", 0) for l in M.expand(s, "size", v)]
            except L.Unsupported as e:
                rep.cannot("L1", s, e)
                break
            d = first_diff(rd, wr)
            rep.obligations += 1
            if d is None:
                rep.discharged += 1
            else:
                bad_rw.append((v, d))
            d = first_diff([t for _, t, _ in rd], sz)
            rep.obligations += 1
            if d is None:
                rep.discharged += 1
            else:
                bad_sz.append((v, d))
            if v == M.classes[-1] and not bad_rw:
                rep.samples.append({"rule": "L1", "struct": s, "class": M.class_name(v), "layout": ["%s:%s%s" % (f, t, "/BE" if e == "BigEndian" else "") for f, t, e in rd][:12]})
        rep.counts["L1"] = rep.counts.get("L1", 0) + 2 * len(M.classes)
        if bad_rw:
            v, (i, x, y) = bad_rw[0]
            rep.violation("L1.read-write", s, "pos%d" % i, "%s: read_push and write disagree in %d version classes, first %s at position %d: reader %s vs writer %s" % (
                s, len(bad_rw), M.class_name(v), i, x, y))
        if bad_sz:
            v, (i, x, y) = bad_sz[0]
            rep.violation("L1.size", s, "pos%d" % i, "%s: read_push and size disagree in %d version classes, first %s at position %d: reader %s vs size term %s" % (
                s, len(bad_sz), M.class_name(v), i, x, y))


def rule_L7(rep, M, sibs=("read_push", "write")):
    for (s, sib), items in sorted(M.trees.items()):
        if sib not in sibs:
            continue
        for l in L.tree_leaves(items):
            if l.get("op") in ("read", "write") and L.WIDTH.get(l["ty"], 1) > 1:
                rep.ob("L7", l.get("endian") == "BigEndian", "%s::%s" % (s, sib), l.get("field") or "?",
                       "%s::%s %s %s is %s, not big-endian" % (s, sib, l["op"], l.get("field"), l.get("endian")), l.get("sp", ""))


def rule_exact(rep, M):
    """the value pushed is the value read (no arithmetic/cast between read and push)"""
    for s in GEN:
        if not M.has(s, "read_push"):
            continue
        for l in L.tree_leaves(M.trees[(s, "read_push")]):
            if l.get("op") == "read":
                rep.ob("read.exact", bool(l.get("exact")) and l.get("field") is not None, "%s::read_push" % s, str(l.get("field")),
                       "%s::read_push: value read as %s is not pushed unchanged into a column (dest=%s)" % (s, l["ty"], l.get("field")), l.get("sp", ""))


# ------------------------------------------------------------------------------------------- L2

def live_fields(M, s, v):
    """fields of mutable::s that with_capacity makes live (Some / plain) in class v"""
    live = {}
    for l in M.flat(s, "with_capacity", v):
        if l["op"] in ("col", "sub", "bitmap", "offsets"):
            live[l["field"]] = l
    return live


def rule_L2(rep, M, structs=GEN):
    """column balance: with_capacity / push_null / read_push touch the same live columns exactly once per class;
    validity gets exactly one bit per push."""
    for s in structs:
        if not (M.has(s, "with_capacity") and M.has(s, "push_null") and M.has(s, "read_push")):
            continue
        has_validity = any(n == "validity" for n, _ in (M.mfields.get(s) or []))
        problems = {}
        for v in M.classes:
            live = live_fields(M, s, v)
            cols = sorted(f for f, l in live.items() if l["op"] in ("col", "sub"))
            for sib, ops in (("read_push", ("read", "sub")), ("push_null", ("null", "sub"))):
                fl = M.flat(s, sib, v)
                touched = [l["field"] for l in fl if l["op"] in ops]
                rep.obligations += 1
                if sorted(touched) == cols:
                    rep.discharged += 1
                else:
                    missing = [c for c in cols if c not in touched]
                    extra = [c for c in touched if c not in cols]
                    dup = sorted(set(c for c in touched if touched.count(c) > 1))
                    problems.setdefault((sib, tuple(missing), tuple(extra), tuple(dup)), []).append(v)
                if has_validity:
                    vl = [l for l in fl if l["op"] == "validity"]
                    want = sib == "read_push"
                    ok = len(vl) == 1 and vl[0]["value"] is want
                    if sib == "push_null" and ok:
                        ok = bool(vl[0].get("init_ok"))
                        # the length used to create the bitmap must be captured before any column grows
                        idx_len = [i for i, l in enumerate(fl) if l["op"] == "len_capture"]
                        idx_push = [i for i, l in enumerate(fl) if l["op"] in ("null", "sub")]
                        ok = ok and idx_len and (not idx_push or idx_len[0] < min(idx_push))
                    rep.obligations += 1
                    if ok:
                        rep.discharged += 1
                    else:
                        problems.setdefault((sib, "validity"), []).append(v)
        rep.counts["L2"] = rep.counts.get("L2", 0) + len(M.classes) * (4 if has_validity else 2)
        for key, vs in sorted(problems.items(), key=str):
            if key[1] == "validity":
                rep.violation("L2.validity", "%s::%s" % (s, key[0]), "validity",
                              "%s::%s does not push exactly one %s validity bit (bitmap created from the pre-push length) in classes %s" % (
                                  s, key[0], "true" if key[0] == "read_push" else "false", ",".join(M.class_name(v) for v in vs[:4])))
            else:
                sib, missing, extra, dup = key
                rep.violation("L2.balance", "%s::%s" % (s, sib), ",".join(missing + extra + dup) or "?",
                              "%s::%s column balance broken in %d classes (first %s): live columns not touched %s, touched but not live %s, touched twice %s" % (
                                  s, sib, len(vs), M.class_name(vs[0]), list(missing), list(extra), list(dup)))
        if not problems:
            v = M.classes[-1]
            rep.samples.append({"rule": "L2", "struct": s, "class": M.class_name(v), "live_columns": sorted(live_fields(M, s, v))[:30]})


def rule_gate_consistent(rep, M, sibs=("read_push", "push_null", "write", "into"), structs=GEN, rule="G"):
    """every `.as_mut().unwrap()` / `.as_ref().unwrap()` on a gated column happens only in classes where
    with_capacity made that column Some (discharge class G of the panic inventory)."""
    for s in structs:
        if not M.has(s, "with_capacity"):
            continue
        for sib in sibs:
            if not M.has(s, sib):
                continue
            bad = {}
            n = 0
            for v in M.classes:
                live = live_fields(M, s, v)
                for l in M.flat(s, sib, v):
                    if l.get("opt") and l.get("field") is not None:
                        n += 1
                        if l["field"] not in live:
                            bad.setdefault(l["field"], []).append(v)
            rep.obligations += n
            rep.discharged += n - sum(len(x) for x in bad.values())
            rep.counts[rule] = rep.counts.get(rule, 0) + n
            for f, vs in sorted(bad.items()):
                rep.violation(rule + ".unwrap", "%s::%s" % (s, sib), f,
                              "%s::%s unwraps column %s in classes where with_capacity leaves it None: %s" % (s, sib, f, ",".join(M.class_name(v) for v in vs[:4])))


def rule_presence(rep, M):
    """column f is Some in with_capacity <=> version >= intro(f) per the spec; read_push touches it under the same gate"""
    for s in EVENT_STRUCTS:
        if not (M.has(s, "with_capacity") and M.has(s, "read_push")):
            continue
        intro = {}
        for f in M.spec[s]["fields"]:
            top = f["dest"].split(".")[0]
            intro.setdefault(top, parse_ver(f.get("since") or M.spec[s]["since"]))
        for v in M.classes:
            if v > (3, 16):
                continue
            live = set(f for f, l in live_fields(M, s, v).items() if l["op"] in ("col", "sub"))
            want = set(f for f, iv in intro.items() if v >= iv)
            if v < parse_ver(M.spec[s]["since"]):
                continue
            rep.ob("presence", live == want, "%s::with_capacity" % s, ",".join(sorted(live ^ want)),
                   "%s: in class %s the live columns differ from the spec's field set: extra %s missing %s" % (
                       s, M.class_name(v), sorted(live - want), sorted(want - live)))


# ------------------------------------------------------------------------------------------- L3

def rule_L3(rep, M, sibs=("m_transpose", "i_transpose", "from"), structs=GEN):
    """row views and mutable->immutable conversion are identity wirings"""
    for s in structs:
        for sib in sibs:
            if not M.has(s, sib):
                continue
            leaves = list(L.tree_leaves(M.trees[(s, sib)]))
            mutable = sib == "m_transpose"
            if sib == "from":
                table = M.ifields.get(s) or []
                want_fields = [n for n, _ in table]
            else:
                table = M.tfields.get(s) or []
                want_fields = [n for n, _ in table]
            got = [l["field"] for l in leaves]
            fn = SIBS[sib][0].replace("%s", s)
            rep.ob("L3.fields", sorted(got) == sorted(want_fields), fn, "fields",
                   "%s initialises fields %s but the destination struct has %s" % (fn, got, want_fields))
            for l in leaves:
                src = l.get("src") or ""
                parts = src.split(".")
                ok = len(parts) == 2 and parts[1] == l["field"]
                rep.ob("L3.identity", ok, fn, l["field"],
                       "%s: destination field `%s` is wired to `%s` (not the column of the same name)" % (fn, l["field"], src), l.get("sp", ""),
                       sample={"fn": fn, "field": l["field"], "src": src})
                ct = M.col_type(s, l["field"], mutable=(sib != "i_transpose"))
                if ct and sib != "from":
                    rep.ob("L3.optional", bool(l.get("opt")) == bool(ct[2]), fn, l["field"] + ".opt",
                           "%s: field `%s` optionality in the row view differs from the column (%s)" % (fn, l["field"], ct), l.get("sp", ""))


# ------------------------------------------------------------------------------------------- L4 / L5

def export_list(M, s, v):
    """flattened (field, kind, struct) children of into_struct_array for class v, plus the `new` leaf"""
    ch, new = [], None
    for l in M.flat(s, "into", v):
        if l["op"] == "child":
            ch.append(l)
        elif l["op"] == "new":
            new = l
    return ch, new


def rule_L4(rep, M, structs=GEN):
    for s in structs:
        if not (M.has(s, "data_type") and M.has(s, "into") and M.has(s, "fromsa")):
            continue
        imp = list(L.tree_leaves(M.trees[(s, "fromsa")]))
        fn_from = SIBS["fromsa"][0].replace("%s", s)
        fn_into = SIBS["into"][0].replace("%s", s)
        fn_dt = SIBS["data_type"][0].replace("%s", s)
        want_fields = [n for n, _ in (M.ifields.get(s) or [])]
        rep.ob("L4.fields", sorted(l["field"] for l in imp) == sorted(want_fields), fn_from, "fields",
               "%s initialises %s, struct has %s" % (fn_from, [l["field"] for l in imp], want_fields))
        problems = {}
        for v in M.classes:
            ch, new = export_list(M, s, v)
            dt = [l for l in M.flat(s, "data_type", v) if l["op"] == "field"]
            rep.obligations += 1
            # data_type vs into: same length, names = field names, arrow types = image of column type
            ok = len(ch) == len(dt) and new is not None
            why = None
            if not ok:
                why = ("len", "data_type has %d fields, into_struct_array pushes %d children" % (len(dt), len(ch)))
            else:
                for k, (c, d) in enumerate(zip(ch, dt)):
                    ct = M.col_type(s, c["field"], mutable=False) if c.get("field") is not None else None
                    if d.get("name") != c.get("field"):
                        why = (c.get("field"), "child %d is column `%s` but schema field %d is named `%s`" % (k, c.get("field"), k, d.get("name")))
                    elif d.get("nullable") is not False:
                        why = (c.get("field"), "schema field `%s` is not declared non-nullable" % d.get("name"))
                    elif ct is None:
                        why = (c.get("field"), "child %d is not a column of the struct" % k)
                    elif ct[0] == "prim":
                        if L.ARROW_TY.get(d.get("dt")) != ct[1] or c.get("struct"):
                            why = (c["field"], "column `%s` is %s but schema says %s" % (c["field"], ct[1], d.get("dt") or d.get("sub")))
                    elif ct[0] == "sub":
                        if d.get("sub") != ct[1] or c.get("struct") != ct[1]:
                            why = (c["field"], "column `%s` is struct %s but schema/export use %s/%s" % (c["field"], ct[1], d.get("sub"), c.get("struct")))
                    if why:
                        break
                if not why and new.get("validity") not in ("validity", "None"):
                    why = ("validity", "StructArray::new given validity %s" % new.get("validity"))
                if not why and any(n == "validity" for n in want_fields) and new.get("validity") != "validity":
                    why = ("validity", "struct has a validity bitmap but StructArray::new is given %s" % new.get("validity"))
                if not why and not (new.get("dt_call") or "").endswith("<impl frame::immutable::%s>::data_type" % s):
                    why = ("data_type", "StructArray::new is not given Self::data_type(version)")
            if why:
                problems.setdefault(("L4.schema", fn_into) + why, []).append(v)
            else:
                rep.discharged += 1
            # import positions vs export positions
            names = [c.get("field") for c in ch]
            for l in imp:
                if l["kind"] == "validity":
                    continue
                rep.obligations += 1
                f, pos = l["field"], l.get("pos")
                ct = M.col_type(s, f, mutable=False)
                err = None
                if pos is None:
                    err = "field `%s` is not imported from a child" % f
                elif pos < len(names):
                    if names[pos] != f:
                        err = "field `%s` is imported from child %d, which is column `%s` in this class" % (f, pos, names[pos])
                    else:
                        want = ("arrow2::array::PrimitiveArray<%s>" % ct[1]) if ct and ct[0] == "prim" else "arrow2::array::StructArray"
                        if l.get("down") != want:
                            err = "field `%s` downcasts child %d to %s, column type is %s" % (f, pos, l.get("down"), want)
                        elif ct and ct[0] == "sub" and l.get("struct") != ct[1]:
                            err = "field `%s` imported through %s, column is %s" % (f, l.get("struct"), ct[1])
                else:
                    if not l.get("opt"):
                        err = "field `%s` indexes child %d unconditionally but only %d children exist in this class" % (f, pos, len(names))
                    elif f in names:
                        err = "field `%s` is exported at position %d but imported from %d (absent) in this class" % (f, names.index(f), pos)
                if ct and not err and bool(ct[2]) != bool(l.get("opt")):
                    err = "field `%s` optionality differs between struct (%s) and import" % (f, ct[2])
                if err:
                    problems.setdefault(("L4.import", fn_from, f, err), []).append(v)
                else:
                    rep.discharged += 1
            # every exported column must be imported by someone
            for k, nme in enumerate(names):
                rep.obligations += 1
                if any(l["field"] == nme and l.get("pos") == k for l in imp):
                    rep.discharged += 1
                else:
                    problems.setdefault(("L4.import", fn_from, str(nme), "exported child %d (`%s`) is not imported back" % (k, nme)), []).append(v)
        rep.counts["L4"] = rep.counts.get("L4", 0) + len(M.classes) * (1 + len(imp))
        for key, vs in sorted(problems.items(), key=str):
            rule, fn, construct, msg = key
            rep.violation(rule, fn, construct, "%s (in %d classes, first %s)" % (msg, len(vs), M.class_name(vs[0])))
        if not problems:
            v = M.classes[-1]
            rep.samples.append({"rule": "L4", "struct": s, "class": M.class_name(v), "schema": ["%s:%s" % (d.get("name"), d.get("dt") or d.get("sub")) for d in M.flat(s, "data_type", v) if d["op"] == "field"][:30]})


def struct_live_classes(M):
    """Classes in which each generated struct is instantiated, from the gates of its parents' with_capacity
    (roots: Pre/Post always; Start/End/Item from mutable::Frame::with_capacity)."""
    roots = {"Pre": None, "Post": None}
    fb = M.F.body("frame::mutable::Frame::with_capacity")
    frame_tree = L.x_with_capacity(fb)
    live = {s: set() for s in GEN}
    for v in M.classes:
        stack = ["Pre", "Post"]
        for l in L.flatten(frame_tree, v):
            if l["op"] == "sub":
                stack.append(l["struct"])
        seen = set()
        while stack:
            s = stack.pop()
            if s in seen or s not in GEN:
                continue
            seen.add(s)
            live[s].add(v)
            if M.has(s, "with_capacity"):
                for l in M.flat(s, "with_capacity", v):
                    if l["op"] == "sub":
                        stack.append(l["struct"])
    return live, frame_tree


def rule_L5(rep, M):
    """every StructArray::new of a generated struct receives at least one child in every class where the struct is live"""
    live, _ = struct_live_classes(M)
    for s in GEN:
        if not M.has(s, "into"):
            continue
        bad = []
        for v in sorted(live[s]):
            ch, new = export_list(M, s, v)
            rep.obligations += 1
            if ch:
                rep.discharged += 1
            else:
                bad.append(v)
        rep.counts["L5"] = rep.counts.get("L5", 0) + len(live[s])
        if bad:
            fn = SIBS["into"][0].replace("%s", s)
            rep.violation("L5.empty-struct", fn, "StructArray::new",
                          "%s builds a StructArray with no children for versions %s (arrow2 rejects an empty struct: the .slpp writer panics for every such replay with frames)" % (
                              fn, ", ".join(M.class_name(v) for v in bad)))


# ------------------------------------------------------------------------------------------- L6

def rule_L6(rep, M, headers):
    """header + flattened read_push layout == spec offsets, per class. `headers` = {struct: [(ty,...)]} as extracted from parse_event"""
    for s in EVENT_STRUCTS:
        if not M.has(s, "read_push"):
            continue
        sp = M.spec[s]
        bad = {}
        for v in M.classes:
            if v > (3, 16) or v < parse_ver(sp["since"]):
                continue
            hdr = headers.get(s)
            off = 1
            got = []
            for ty in hdr or []:
                got.append((off, ty, None))
                off += L.WIDTH[ty]
            try:
                for l in M.expand(s, "read_push", v):
                    if l["op"] == "read":
                        got.append((off, l["ty"], l["field"]))
                        off += L.WIDTH[l["ty"]]
            except L.Unsupported as e:
                rep.cannot("L6", s, e)
                break
            want = [(f["off"], f["ty"], None) for f in sp["header"]]
            want += [(f["off"], f["ty"], f["dest"]) for f in sp["fields"] if v >= parse_ver(f.get("since") or sp["since"])]
            rep.obligations += len(want)
            d = first_diff(got, want)
            if d is None:
                rep.discharged += len(want)
            else:
                rep.discharged += d[0]
                bad.setdefault((d[1], d[2]), []).append(v)
            if v == (3, 16) and d is None:
                rep.samples.append({"rule": "L6", "struct": s, "class": M.class_name(v),
                                    "layout": ["0x%02X %s -> %s" % (o, t, f or "(header)") for o, t, f in got][-8:]})
        rep.counts["L6"] = rep.counts.get("L6", 0) + len(M.classes)
        for (g, w), vs in sorted(bad.items(), key=str):
            rep.violation("L6.offset", "frame::mutable::%s::read_push" % s, str((w or g)[2]),
                          "%s: decoded layout differs from the Slippi spec in %d classes (first %s): code has %s, spec has %s" % (
                              s, len(vs), M.class_name(vs[0]),
                              "0x%02X %s -> %s" % g if g else "nothing", "0x%02X %s -> %s" % w if w else "nothing"))


def rule_frames_json(rep, M):
    """cross-reference: the repository's own frames.json table agrees with the extracted reader layout"""
    import facts
    path = os.path.join(facts.REPO, "gen", "resources", "frames.json")
    with open(path) as fh:
        fj = json.load(fh)
    for s in GEN:
        if s not in fj or not M.has(s, "read_push"):
            continue
        for v in M.classes:
            want = []
            for i, f in enumerate(fj[s]["fields"]):
                iv = parse_ver(f["version"]) if f.get("version") else (0, 0)
                if v >= iv:
                    want.append((f.get("name") or str(i), f["type"]))
            got = []
            for l in M.flat(s, "read_push", v):
                if l["op"] == "read":
                    got.append((l["field"], l["ty"]))
                elif l["op"] == "sub":
                    got.append((l["field"], l["struct"]))
            got = [(g[0].replace("r#", ""), g[1]) for g in got]
            rep.ob("frames.json", got == want, "frame::mutable::%s::read_push" % s, "table",
                   "%s: reader layout in class %s differs from gen/resources/frames.json: %s" % (s, M.class_name(v), first_diff(got, want)))
