"""Regenerate the seeded-changes table in DESIGN.md from seeded/*/meta.json."""
import glob
import json
import os
import re

VERIF = os.path.dirname(os.path.dirname(os.path.abspath(__file__)))


def shorten(items, limit=900):
    out = []
    n = 0
    for it in items:
        if n + len(it) + 2 > limit:
            out.append("…")
            break
        out.append(it)
        n += len(it) + 2
    return ", ".join(out)


def main():
    rows = []
    n = miss = 0
    notown = []
    for f in sorted(glob.glob(os.path.join(VERIF, "seeded", "*", "meta.json"))):
        m = json.load(open(f))
        n += 1
        own = m["caught_by"].get(m["property"], {})
        rules = ", ".join(own.get("rules", [])[:3]) or "-"
        if not own.get("rules"):
            notown.append(m["id"])
        others = ", ".join(k for k in sorted(m["caught_by"]) if k != m["property"]) or "-"
        hist = m.get("history", "")
        missed = "initially MISSED" in hist or hist.lower().startswith("missed")
        miss += 1 if missed else 0
        rows.append("| %s | %s | %s | %s | %s |" % (m["id"], m["needs_to_manifest"].replace("|", "/")[:150], "`" + rules + "`", others,
                                                "**missed at first** — " + hist.split(";")[-1].strip()[:170] if missed else (hist[:170] or "reported as written")))
    table = ("\n\n%d changes, all confirmed by me and %s; %d of them were **missed when first run** and "
             "the rule set was strengthened (last column), never loosened.\n\n| id | needs, in order to manifest | reported by (own property) | also reported by | notes |\n|---|---|---|---|---|\n" % (n, "all reported by the check of the property they break" if not notown else "all but %s reported by the check of the property they break (open, see its notes column)" % ", ".join(notown), miss)) + "\n".join(rows) + "\n"
    p = os.path.join(VERIF, "DESIGN.md")
    s = open(p).read()
    if "<!-- SEEDED:BEGIN -->" in s:
        s = re.sub(r"<!-- SEEDED:BEGIN -->.*<!-- SEEDED:END -->", "<!-- SEEDED:BEGIN -->" + table.replace("\\", "\\\\") + "<!-- SEEDED:END -->", s, flags=re.S)
    else:
        s = s.replace("SEEDED_TABLE", "<!-- SEEDED:BEGIN -->" + table + "<!-- SEEDED:END -->")
    # per-property rule inventory from the evidence files
    lines = ["\n\n| property | level | obligations | rule instances on the current tree (rule id × count) |\n|---|---|---|---|"]
    for f in sorted(glob.glob(os.path.join(VERIF, "evidence", "C*.json"))):
        e = json.load(open(f))
        ri = e["coverage"].get("rule_instances", {})
        items = ["%s×%d" % (k, v) for k, v in ri.items() if not k.startswith("floor:") and k not in ("functions_analysed",) and isinstance(v, int)]
        lines.append("| %s | %s | %d | %s |" % (e["property_id"], e["level"], e["coverage"]["obligations"], shorten(items)))
    inv = "\n".join(lines) + "\n"
    if "<!-- RULES:BEGIN -->" in s:
        s = re.sub(r"<!-- RULES:BEGIN -->.*<!-- RULES:END -->", "<!-- RULES:BEGIN -->" + inv.replace("\\", "\\\\") + "<!-- RULES:END -->", s, flags=re.S)
    open(p, "w").write(s)
    print("seeded table: %d rows, %d initially missed" % (n, miss))


if __name__ == "__main__":
    main()
