"""E5 — ordering-domain decision of pure comparison predicates.

A predicate built only from comparisons (between variables, tuple/struct components and constants),
boolean connectives and branches on those is invariant under order-isomorphism of its inputs, so it is
decided by evaluating its comparison skeleton on a representative set R^n that realises every order type of
(variables, constants) — the small-model argument for the ordering domain. The evaluator below understands
nothing but that fragment; any other construct (arithmetic, casts, foreign calls) raises Unsupported and the
check fails closed."""
import itertools

import tir
from layout import Unsupported
from tir import strip, declared

CMP = {"Lt": lambda a, b: a < b, "Le": lambda a, b: a <= b, "Gt": lambda a, b: a > b, "Ge": lambda a, b: a >= b,
       "Eq": lambda a, b: a == b, "Ne": lambda a, b: a != b}


class _Return(Exception):
    def __init__(self, value):
        self.value = value


class Evaluator:
    def __init__(self, F, allow_calls=()):
        self.F = F
        self.allow = set(allow_calls)
        self.consts_seen = set()
        self.derived_checked = {}

    def const_value(self, path):
        b = self.F.const_body(path)
        if b is None or not b.get("tir"):
            raise Unsupported({}, "constant %s has no body" % path)
        return self.eval(b["tir"]["value"], {})

    def derived_ord(self, ty):
        """comparison through PartialOrd on a struct is lexicographic only for the derived impl"""
        if ty in self.derived_checked:
            return self.derived_checked[ty]
        ok = False
        for i in self.F.items["impls"]:
            if i["self"] == ty and i["trait"] == "std::cmp::PartialOrd":
                ok = bool(i["derived"])
        eq = False
        for i in self.F.items["impls"]:
            if i["self"] == ty and i["trait"] == "std::cmp::PartialEq":
                eq = bool(i["derived"])
        self.derived_checked[ty] = ok and eq
        return ok and eq

    def eval(self, n, env):
        n = strip(n)
        k = n.get("k")
        if k == "Lit":
            if n.get("lit") in ("int", "bool", "char"):
                if n.get("lit") == "int":
                    self.consts_seen.add(n["v"])
                return n["v"]
            raise Unsupported(n, "literal outside the ordering fragment")
        if k == "Path":
            if n.get("res") == "local":
                if n["name"] not in env:
                    raise Unsupported(n, "unbound local " + n["name"])
                return env[n["name"]]
            if n.get("res") == "def" and (n.get("dk") or "").startswith("Const"):
                return self.const_value(n["path"])
            if n.get("res") == "def" and (n.get("dk") or "").startswith("Ctor") and (n.get("path") or "").endswith("None"):
                return ("None",)
            raise Unsupported(n, "path outside the ordering fragment: " + str(n.get("path")))
        if k == "Field":
            b = self.eval(n["base"], env)
            if isinstance(b, tuple) and n.get("idx") is not None and n["idx"] < len(b):
                return b[n["idx"]]
            raise Unsupported(n, "field of a non-tuple value")
        if k == "Tup":
            return tuple(self.eval(x, env) for x in n["elems"])
        if k == "Call":
            d = declared(n) or ""
            if (n.get("dk") or "").startswith("Ctor") or n.get("res") == "selfctor":
                name = d.split("::")[-1]
                if name in ("Ok", "Err", "Some"):
                    return (name,)
                # tuple-struct constructor with evaluable args (Version(3, 16, 0))
                return tuple(self.eval(a, env) for a in n["args"])
            if d in self.allow:
                return self.call(d, [self.eval(a, env) for a in n["args"]])
            raise Unsupported(n, "call outside the ordering fragment: " + d)
        if k == "MethodCall":
            d = declared(n) or ""
            if d in self.allow:
                return self.call(d, [self.eval(n["recv"], env)] + [self.eval(a, env) for a in n["args"]])
            if n["method"] == "clone" and not n["args"]:
                return self.eval(n["recv"], env)
            if n["method"] in ("cmp", "partial_cmp") and d in ("std::cmp::Ord::cmp", "std::cmp::PartialOrd::partial_cmp") and len(n["args"]) == 1:
                a, b = self.eval(n["recv"], env), self.eval(n["args"][0], env)
                ty = (n["recv"].get("ty") or "").lstrip("&")
                if not (ty.startswith("(") or ty in ("u8", "u16", "u32", "i32", "usize") or self.derived_ord(ty)):
                    raise Unsupported(n, "comparison through a hand-written Ord on " + ty)
                if type(a) != type(b):
                    raise Unsupported(n, "comparison of unlike values")
                o = ("Ordering", (a > b) - (a < b))
                return o if n["method"] == "cmp" else ("SomeOrdering", o[1])
            if n["method"] in ("is_gt", "is_ge", "is_lt", "is_le", "is_eq", "is_ne") and d.startswith("std::cmp::Ordering::"):
                o = self.eval(n["recv"], env)
                if isinstance(o, tuple) and o and o[0] == "Ordering":
                    return {"is_gt": o[1] > 0, "is_ge": o[1] >= 0, "is_lt": o[1] < 0, "is_le": o[1] <= 0, "is_eq": o[1] == 0, "is_ne": o[1] != 0}[n["method"]]
            raise Unsupported(n, "method call outside the ordering fragment: " + d)
        if k == "Unary" and n.get("op") == "Not" and n.get("ty") == "bool":
            return not self.eval(n["e"], env)
        if k == "Binary":
            op = n["op"]
            if op == "And":
                return bool(self.eval(n["l"], env)) and bool(self.eval(n["r"], env))
            if op == "Or":
                return bool(self.eval(n["l"], env)) or bool(self.eval(n["r"], env))
            if op in CMP:
                a, b = self.eval(n["l"], env), self.eval(n["r"], env)
                if n.get("overloaded"):
                    ty = (n["l"].get("ty") or "").lstrip("&")
                    if ty.startswith("(") or ty in ("u8", "u16", "u32", "i32", "usize"):
                        pass
                    elif not self.derived_ord(ty):
                        raise Unsupported(n, "comparison through a hand-written PartialOrd/PartialEq on " + ty)
                if type(a) != type(b) or (isinstance(a, tuple) and len(a) != len(b)):
                    raise Unsupported(n, "comparison of unlike values")
                return CMP[op](a, b)
            raise Unsupported(n, "arithmetic in a comparison predicate: " + op)
        if k == "If":
            c = self.eval(n["cond"], env)
            if c:
                return self.eval(n["then"], env)
            return self.eval(n["else"], env) if n.get("else") else ()
        if k == "Match":
            s = self.eval(n["scrut"], env)
            if isinstance(s, tuple) and s and s[0] in ("Ordering", "SomeOrdering"):
                names = {-1: "Less", 0: "Equal", 1: "Greater"}

                def pat_matches(p):
                    if p.get("k") in ("Wild", "Bind"):
                        return True
                    if p.get("k") == "Or":
                        return any(pat_matches(q) for q in p["pats"])
                    if p.get("k") == "TupleStruct" and (p.get("path") or "").endswith("Some") and s[0] == "SomeOrdering":
                        q = p["pats"][0]
                        return q.get("k") in ("Wild", "Bind") or (q.get("k") == "Lit" and (q["e"].get("path") or "").endswith("Ordering::" + names[s[1]]))
                    if p.get("k") == "Lit" and s[0] == "Ordering":
                        return (p["e"].get("path") or "").endswith("Ordering::" + names[s[1]])
                    return False
                for a in n["arms"]:
                    if a.get("guard"):
                        raise Unsupported(n, "guarded arm on an Ordering")
                    if pat_matches(a["pat"]):
                        return self.eval(a["body"], env)
                raise Unsupported(n, "no arm taken")
            for a in n["arms"]:
                p = a["pat"]
                if p.get("k") == "Lit" and p["e"].get("lit") == "bool":
                    if bool(p["e"]["v"]) == bool(s) and isinstance(s, bool):
                        return self.eval(a["body"], env)
                elif p.get("k") in ("Wild", "Bind") and not a.get("guard"):
                    return self.eval(a["body"], env)
                else:
                    raise Unsupported(n, "match pattern outside the ordering fragment")
            raise Unsupported(n, "no arm taken")
        if k == "Block":
            env2 = dict(env)
            for s in n.get("stmts", []):
                if s.get("k") == "Let" and s["pat"].get("k") == "Bind" and s.get("init") and not s.get("els"):
                    env2[s["pat"]["name"]] = self.eval(s["init"], env2)
                elif s.get("k") == "Expr" and strip(s["e"]).get("k") in ("If", "Ret", "Match"):
                    # a guard statement: `if c { return v; }` — evaluated for its early return only
                    self.eval(s["e"], env2)
                else:
                    raise Unsupported(s, "statement in a comparison predicate")
            if n.get("tail"):
                return self.eval(n["tail"], env2)
            return ()
        if k == "Ret":
            raise _Return(self.eval(n["e"], env) if n.get("e") else ())
        if k == "Cast":
            raise Unsupported(n, "cast in a comparison predicate")
        raise Unsupported(n, "construct outside the ordering fragment: %s" % k)

    def call(self, path, args):
        b = self.F.body(path)
        if b is None:
            raise Unsupported({}, "no body for " + path)
        ps = b["tir"]["params"]
        if len(ps) != len(args) or any(p.get("k") != "Bind" for p in ps):
            raise Unsupported(b["tir"]["value"], "parameter patterns outside the fragment")
        try:
            return self.eval(b["tir"]["value"], {p["name"]: a for p, a in zip(ps, args)})
        except _Return as r:
            return r.value


def representatives(consts, nvars, lo=0, hi=255):
    r = set()
    for c in list(consts) + [lo, hi]:
        for d in range(-nvars, nvars + 1):
            if lo <= c + d <= hi:
                r.add(c + d)
    return sorted(r)


def _all_int_literals(F, path, seen=None):
    """every integer literal of a function's typed tree — expressions and patterns, including arms a probe run does not visit"""
    out = set()
    b = F.body(path)
    if b is None:
        return out

    def pat_lits(p):
        if not isinstance(p, dict):
            return
        e = p.get("e")
        if isinstance(e, dict) and e.get("lit") == "int" and isinstance(e.get("v"), int):
            out.add(-e["v"] if e.get("neg") else e["v"])
        for key in ("lo", "hi"):
            x = p.get(key)
            if isinstance(x, dict):
                y = x.get("e") if isinstance(x.get("e"), dict) else x
                if y.get("lit") == "int" and isinstance(y.get("v"), int):
                    out.add(-y["v"] if y.get("neg") else y["v"])
        for key in ("sub", "pat", "mid"):
            pat_lits(p.get(key))
        for key in ("pats", "before", "after"):
            for q in p.get(key, []) or []:
                pat_lits(q)
        for fl in p.get("fields", []) or []:
            if isinstance(fl, dict):
                pat_lits(fl.get("pat"))
    for n in tir.walk(b["tir"]["value"]):
        if n.get("k") == "Lit" and n.get("lit") == "int" and isinstance(n.get("v"), int):
            out.add(n["v"])
        if n.get("k") == "Match":
            for a in n["arms"]:
                pat_lits(a.get("pat"))
        if n.get("k") in ("Let", "LetCond"):
            pat_lits(n.get("pat"))
    return out


def decide(F, rep, rule, path, shape, spec, allow=(), site_fn=None, cls=None, spec_consts=()):
    """shape: list of parameter arities (1 = scalar u8, 3 = Version triple). spec(args)->expected result."""
    ev = (cls or Evaluator)(F, allow_calls=set(allow) | {path})
    b = F.body(path)
    if b is None:
        rep.ob(rule, False, path, "missing", "predicate %s not found" % path)
        return None
    # dry run to collect constants of the skeleton
    nvars = sum(shape)
    try:
        probe = [tuple([1] * a) if a > 1 else 1 for a in shape]
        ev.call(path, probe)
        # constants referenced through const items are gathered while evaluating them
    except Unsupported as e:
        rep.cannot(rule, path, e)
        return None
    # the order types are taken over the constants of the code *and* of the specification: literals of arms the probe run did
    # not visit (`(3, 0..=13) =>`), and the thresholds the spec distinguishes even when the code no longer mentions them
    consts = set(c for c in (set(ev.consts_seen) | _all_int_literals(F, path) | set(spec_consts)) if isinstance(c, int) and 0 <= c <= 255)
    R = representatives(consts, nvars)
    total = bad = 0
    first = None
    try:
        for vals in itertools.product(R, repeat=nvars):
            args, i = [], 0
            for a in shape:
                args.append(tuple(vals[i:i + a]) if a > 1 else vals[i])
                i += a
            got = ev.call(path, args)
            want = spec(*args)
            total += 1
            if got != want:
                bad += 1
                if first is None:
                    first = (args, got, want)
    except Unsupported as e:
        rep.cannot(rule, path, e)
        return None
    rep.obligations += 1
    rep.discharged += 0 if bad else 1
    rep.counts[rule] = rep.counts.get(rule, 0) + 1
    rep.counts[rule + ".order_types_evaluated"] = total
    if bad:
        rep.violation(rule, path, "predicate", "%s disagrees with its specification on %d of %d order-type representatives, e.g. args=%s: code gives %s, spec %s" % (
            path, bad, total, first[0], first[1], first[2]))
    else:
        rep.samples.append({"rule": rule, "predicate": path, "representatives": R[:24], "order_types_evaluated": total, "constants": sorted(consts)})
    return ev


GTE = "io::slippi::Version::gte"
LT = "io::slippi::Version::lt"


def rule_gte(F, rep):
    decide(F, rep, "E5.gte", GTE, [3, 1, 1], lambda v, M, m: (v[0], v[1]) >= (M, m))
    decide(F, rep, "E5.lt", LT, [3, 1, 1], lambda v, M, m: not ((v[0], v[1]) >= (M, m)), allow=(GTE,))


def rule_max_version(F, rep):
    ev = Evaluator(F)
    try:
        mx = ev.const_value("io::slippi::MAX_SUPPORTED_VERSION")
    except Unsupported as e:
        rep.cannot("E5.max", "io::slippi::MAX_SUPPORTED_VERSION", e)
        return None
    rep.ob("E5.max.const", isinstance(mx, tuple) and len(mx) == 3, "io::slippi::MAX_SUPPORTED_VERSION", "value", "MAX_SUPPORTED_VERSION is not a version triple: %r" % (mx,),
           sample={"MAX_SUPPORTED_VERSION": list(mx)})
    decide(F, rep, "E5.max", "io::slippi::assert_max_version", [3], lambda v: ("Ok",) if v <= mx else ("Err",))
    return mx


def rule_min_version(F, rep):
    ev = Evaluator(F)
    try:
        mn = ev.const_value("io::peppi::MIN_VERSION")
    except Unsupported as e:
        rep.cannot("E5.min", "io::peppi::MIN_VERSION", e)
        return None
    decide(F, rep, "E5.min", "io::peppi::assert_current_version", [3], lambda v: ("Err",) if v < mn else ("Ok",))
    return mn
