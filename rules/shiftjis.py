"""E6 tables for C19: the fix_char normalisation match as (interval, affine map) rows."""
import layout as L
import tir
from tir import strip, declared

FIX = "game::shift_jis::fix_char"


def const_int(F, path):
    """value of a local integer constant item built from literals, +, - (None otherwise)"""
    if F is None:
        return None
    b = F.const_body(path)
    if b is None or not b.get("tir"):
        return None
    f = affine(b["tir"]["value"], "\0", F)
    return f[1] if f is not None and f[0] == 0 else None


def affine(e, var, F=None):
    """expression -> (a, b) meaning a*var + b, or None. Conversions between char and u32 (`c as u32`, `u32::from(c)`,
    `char::from_u32(x).unwrap()/.unwrap_or(c)`, `char::try_from(x).unwrap()`) are value-preserving on scalar values and
    are looked through; the scalar-value side condition is checked separately on the resulting table."""
    e = strip(e)
    k = e.get("k")
    if k == "Path" and e.get("res") == "local" and e.get("name") == var:
        return (1, 0)
    v = tir.lit_int(e)
    if v is not None and k in ("Lit", "Cast", "Unary"):
        return (0, v)
    if k == "Path" and e.get("res") == "def" and (e.get("dk") or "").startswith("Const"):
        c = const_int(F, e.get("path"))
        return None if c is None else (0, c)
    if k == "Cast" and e.get("ty") in ("u32", "char", "u64", "usize", "i64"):
        return affine(e["e"], var, F)
    if k == "Call" and len(e.get("args", [])) == 1 and ((declared(e) or "").endswith("From::from") or (declared(e) or "").endswith("char::methods::<impl char>::from_u32")
                                                       or (declared(e) or "").endswith("TryFrom::try_from") or (declared(e) or "").endswith("::from_u32")):
        return affine(e["args"][0], var, F)
    if k == "MethodCall" and e["method"] in ("unwrap", "expect", "unwrap_or", "unwrap_or_default") and "char" in (e.get("ty") or ""):
        return affine(e["recv"], var, F)
    if k == "Binary" and e.get("op") in ("Add", "Sub"):
        l, r = affine(e["l"], var, F), affine(e["r"], var, F)
        if l is None or r is None:
            return None
        s = 1 if e["op"] == "Add" else -1
        return (l[0] + s * r[0], l[1] + s * r[1])
    if k == "Block" and not e.get("stmts") and e.get("tail"):
        return affine(e["tail"], var, F)
    return None


def fix_char_table(F):
    """[(lo, hi, a, b)] for the non-default arms of fix_char's match; None if the function is outside the fragment.
    Also returns nothing for the default arm, which must be the identity (checked by fix_char_shape)."""
    info = fix_char_shape(F)
    if info is None:
        return None
    return [(lo, hi, b) for lo, hi, a, b in info["rows"] if a == 1] + [(lo, hi, b - lo) for lo, hi, a, b in info["rows"] if a == 0 and lo == hi]


def _conv_of(e):
    """local whose char <-> u32 conversion e is, or None"""
    e = strip(e)
    if e.get("k") == "Call" and (declared(e) or "").endswith("From::from") and len(e["args"]) == 1 and e.get("ty") == "u32":
        return L.local_name(e["args"][0])
    if e.get("k") == "Cast" and e.get("ty") == "u32":
        return L.local_name(e["e"])
    return None


def fix_char_shape(F):
    b = F.body(FIX)
    if b is None:
        return None
    cname = b["tir"]["params"][0].get("name")
    val = L.strip_try(b["tir"]["value"])
    stmts = val.get("stmts", []) if val.get("k") == "Block" else []
    info = {"rows": [], "default_identity": False, "in_conv": False, "out_conv": False, "problems": []}
    var = cname
    mnode = None
    for s in stmts:
        if s.get("k") != "Let" or s["pat"].get("k") != "Bind":
            info["problems"].append("unexpected statement")
            continue
        i = strip(s["init"])
        if i.get("k") == "Call" and (declared(i) or "").endswith("From::from") and L.local_name(i["args"][0]) == var and i.get("ty") == "u32":
            info["in_conv"] = True
            var = s["pat"]["name"]
        elif i.get("k") == "Cast" and L.local_name(i["e"]) == var and i.get("ty") == "u32":
            info["in_conv"] = True
            var = s["pat"]["name"]
        elif i.get("k") == "Match" and (L.local_name(i["scrut"]) == var or _conv_of(i["scrut"]) == var):
            if _conv_of(i["scrut"]) == var:
                info["in_conv"] = True      # `match u32::from(c) { .. }`
            mnode = i
            mvar = var
            var = s["pat"]["name"]
        else:
            info["problems"].append("statement outside the fragment: " + tir.pretty(s)[:80])
    tail = L.strip_try(val.get("tail") or {}) if val.get("k") == "Block" else val

    def scrut_var(e):
        """the local a scrutinee denotes, looking through char <-> u32 conversions"""
        e = strip(e)
        if e.get("k") == "Call" and (declared(e) or "").endswith("From::from") and len(e["args"]) == 1 and e.get("ty") == "u32":
            return L.local_name(e["args"][0]), True
        if e.get("k") == "Cast" and e.get("ty") == "u32":
            return L.local_name(e["e"]), True
        return L.local_name(e), False
    sv, conv = scrut_var(tail["scrut"]) if tail.get("k") == "Match" else (None, False)
    if tail.get("k") == "Match" and mnode is None and sv == var:
        mnode, mvar = tail, var
        info["out_conv"] = "direct"
        if var == cname:
            info["in_conv"] = "direct"      # the match is on the char itself (or on its code point computed in place)
    elif tail.get("k") == "MethodCall" and tail["method"] in ("unwrap", "expect"):
        c = strip(tail["recv"])
        if c.get("k") == "Call" and (declared(c) or "").endswith("TryFrom::try_from") and L.local_name(c["args"][0]) == var and "char" in (c.get("ty") or ""):
            info["out_conv"] = True
    if mnode is None:
        return None
    for a in mnode["arms"]:
        p = a["pat"]
        if a.get("guard"):
            info["problems"].append("guarded arm")
            continue
        pats = p["pats"] if p.get("k") == "Or" else [p]
        for q in pats:
            alias = None
            if q.get("k") == "Bind" and isinstance(q.get("sub"), dict):
                alias, q = q.get("name"), q["sub"]       # `code @ 0xff01..=0xff5e`: the binding is the matched code point
            if q.get("k") == "Range":
                lo, hi = q["lo"].get("v"), q["hi"].get("v")
                if "Excluded" in (q.get("end") or ""):
                    hi -= 1
            elif q.get("k") == "Lit" and q["e"].get("lit") in ("int", "char"):
                lo = hi = q["e"]["v"]
            elif q.get("k") in ("Wild", "Bind"):
                f = affine(a["body"], q.get("name") if q.get("k") == "Bind" else mvar, F)
                if f is None:
                    f = affine(a["body"], cname, F)      # `_ => c`: the original char is the same code point
                info["default_identity"] = f == (1, 0)
                continue
            else:
                info["problems"].append("pattern outside the fragment")
                continue
            f = affine(a["body"], mvar, F)
            if f is None and alias:
                f = affine(a["body"], alias, F)
            if f is None and cname != mvar:
                f = affine(a["body"], cname, F)
            if f is None or f[0] not in (0, 1):
                info["problems"].append("arm body is not affine in the code point: " + tir.pretty(a["body"])[:60])
                continue
            info["rows"].append((lo, hi, f[0], f[1]))
    return info
