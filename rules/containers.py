"""Arrow import/export rules for the hand-written frame containers (Data, PortData, Frame) and the
Port name tables. Shared by C02 and C14."""
import fmtspec
import layout as L
import model
import tir
from tir import declared, strip

PEPPI = "frame::immutable::peppi::<impl frame::immutable::%s>::%s"


def _tree(F, rep, c, k, fn):
    p = PEPPI % (c, k)
    b = F.body(p)
    if b is None:
        rep.ob("anchor", False, p, "missing", "container function %s not found" % p)
        return None, p
    try:
        return fn(b), p
    except L.Unsupported as e:
        rep.cannot("fragment.container", p, e)
        return None, p


def port_tables(F, rep):
    """Display for Port and Port::parse are inverse tables over P1..P4"""
    disp = {}
    b = F.body("<game::Port as std::fmt::Display>::fmt")
    if b is None:
        rep.ob("E6.port", False, "<game::Port as std::fmt::Display>::fmt", "missing", "no Display for Port")
        return
    root = b["tir"]["value"]
    for n in tir.walk(root):
        if n.get("k") == "Match":
            labels = {}
            for a in n["arms"]:
                p = a["pat"]
                while p.get("k") == "Ref":
                    p = p["pat"]
                var = None
                if p.get("k") == "Lit" and p["e"].get("k") == "Path":
                    var = p["e"]["path"].split("::")[-1]
                elif p.get("k") == "Path":
                    var = (p.get("path") or "").split("::")[-1]
                if var is None:
                    continue
                pieces = fmtspec.format_pieces(a["body"]) or (fmtspec.find_format(a["body"]) or [None])[0]
                if pieces and all(k == "lit" for k, _ in pieces):
                    disp[var] = "".join(v for _, v in pieces)
                else:
                    lb = L.strip_try(a["body"])
                    if lb.get("k") == "Lit" and lb.get("lit") == "str":
                        labels[var] = lb["v"]
            if labels:
                # `let label = match self { .. => "P1", .. }` written out unchanged by write_str / a bare `{}`
                bound = None
                for s_ in tir.walk(root):
                    if s_.get("k") == "Let" and s_["pat"].get("k") == "Bind" and L.strip_try(s_.get("init") or {}) is n:
                        bound = s_["pat"]["id"]
                for w in tir.walk(root):
                    if w.get("k") == "MethodCall" and w["method"] == "write_str" and len(w["args"]) == 1:
                        a0 = strip(w["args"][0])
                        if (bound is not None and a0.get("id") == bound) or a0 is n:
                            disp.update(labels)
                    if w.get("k") == "MethodCall" and w["method"] == "write_fmt":
                        pieces = fmtspec.format_pieces(w["args"][0]) or []
                        if len(pieces) == 1 and pieces[0][0] == "arg" and fmtspec.is_default_spec(pieces[0][1]) and pieces[0][1].get("trait") == "display":
                            ex = strip(pieces[0][1].get("expr") or {})
                            if bound is not None and ex.get("id") == bound:
                                disp.update(labels)
            break
    parse = {}
    b = F.body("game::Port::parse")
    if b is not None:
        for n in tir.walk(b["tir"]["value"]):
            if n.get("k") == "Match":
                for a in n["arms"]:
                    p = a["pat"]
                    body = L.strip_try(a["body"])
                    if p.get("k") == "Lit" and p["e"].get("lit") == "str" and body.get("k") == "Call" and (declared(body) or "").endswith("Ok"):
                        v = strip(body["args"][0])
                        if v.get("k") == "Path":
                            parse[p["e"]["v"]] = v["path"].split("::")[-1]
                    elif p.get("k") == "Lit" and p["e"].get("lit") == "str" and body.get("k") == "Path" and body.get("res") == "def":
                        # `let port = match s { "P1" => Port::P1, .., _ => return Err(..) }; Ok(port)`
                        bound = None
                        for s_ in tir.walk(b["tir"]["value"]):
                            if s_.get("k") == "Let" and s_["pat"].get("k") == "Bind" and L.strip_try(s_.get("init") or {}) is n:
                                bound = s_["pat"]["id"]
                        oks = [c for c in tir.walk(b["tir"]["value"]) if c.get("k") == "Call" and (declared(c) or "").endswith("::Ok") and len(c["args"]) == 1
                               and ((bound is not None and strip(c["args"][0]).get("id") == bound) or strip(c["args"][0]) is n)]
                        if oks:
                            parse[p["e"]["v"]] = body["path"].split("::")[-1]
                break
    en = F.enums.get("game::Port")
    variants = [v["name"] for v in en["variants"]] if en else []
    if b is not None and not parse and en:
        # NAMES.iter().position(|&n| n == s) .. Port::try_from(index as u8) ..: the i-th name parses to the variant with discriminant i
        root = b["tir"]["value"]
        sname = b["tir"]["params"][0].get("name")
        pos = [x for x in tir.walk(root) if x.get("k") == "MethodCall" and x["method"] == "position" and (declared(x) or "").endswith("Iterator::position")]
        conv = [x for x in tir.walk(root) if x.get("k") == "Call" and (declared(x) or "").endswith("TryFrom::try_from") and "game::Port" in (x.get("ty") or "")]
        if len(pos) == 1 and len(conv) == 1:
            it = strip(pos[0]["recv"])
            src = strip(it["recv"]) if it.get("k") == "MethodCall" and it["method"] == "iter" else {}
            names = None
            if src.get("k") == "Path" and src.get("res") == "def":
                cb = F.const_body(src.get("path"))
                arr = strip(cb["tir"]["value"]) if cb and cb.get("tir") else {}
                if arr.get("k") == "Array" and all(strip(e).get("k") == "Lit" and strip(e).get("lit") == "str" for e in arr["elems"]):
                    names = [strip(e)["v"] for e in arr["elems"]]
            cl = strip(pos[0]["args"][0])
            eq = strip(cl["body"]) if cl.get("k") == "Closure" else {}
            pid = None
            if cl.get("k") == "Closure" and len(cl["params"]) == 1:
                q = cl["params"][0]
                while q.get("k") == "Ref":
                    q = q["pat"]
                pid = q.get("id")
            sides = [strip(eq.get("l") or {}), strip(eq.get("r") or {})] if eq.get("k") == "Binary" and eq.get("op") == "Eq" else []
            cmp_ok = len(sides) == 2 and {sides[0].get("id") == pid, sides[1].get("id") == pid} == {True, False} and sname in (sides[0].get("name"), sides[1].get("name"))
            # the index reaches Port::try_from only through value-preserving conversions (and_then / ok / try_from / as)
            other_calls = [declared(x) or x.get("method") for x in tir.walk(root) if x.get("k") in ("Call", "MethodCall") and not tir.in_macro(x, "format", "format_args")
                           and (x.get("method") or (declared(x) or "").split("::")[-1]) not in ("iter", "position", "and_then", "ok", "try_from", "ok_or_else", "ok_or", "map", "from", "into", "must_use", "format")]
            by_discr = {v["discr"]: v["name"] for v in en["variants"]}
            if names and cmp_ok and not other_calls and len(set(names)) == len(names):
                parse = {nm: by_discr[i] for i, nm in enumerate(names) if i in by_discr}
                if len(parse) != len(names):
                    parse = {}
    rep.ob("E6.port.display", sorted(disp) == sorted(variants) and len(variants) == 4, "<game::Port as std::fmt::Display>::fmt", "table",
           "Display for Port covers %s, enum has %s" % (sorted(disp), variants), sample={"display": disp})
    inv = all(parse.get(s) == v for v, s in disp.items()) and len(parse) == len(disp)
    rep.ob("E6.port.inverse", inv, "game::Port::parse", "table", "Port::parse %s is not the inverse of Display %s" % (parse, disp), sample={"parse": parse})


def data_rule(F, rep):
    dt, p1 = _tree(F, rep, "Data", "data_type", L.x_data_type)
    into, p2 = _tree(F, rep, "Data", "into_struct_array", L.x_into_struct_array)
    imp, p3 = _tree(F, rep, "Data", "from_struct_array", L.x_from_struct_array)
    if None in (dt, into, imp):
        return
    v = (3, 16)
    d = [(l["name"], l.get("sub")) for l in L.flatten(dt, v) if l["op"] == "field"]
    c = [(l["field"], l.get("struct")) for l in L.flatten(into, v) if l["op"] == "child"]
    new = [l for l in L.flatten(into, v) if l["op"] == "new"]
    i = [(l["field"], l.get("struct"), l.get("pos")) for l in L.tree_leaves(imp) if l["kind"] != "validity"]
    rep.ob("L4.Data", d == [("pre", "Pre"), ("post", "Post")] and c == d and i == [("pre", "Pre", 0), ("post", "Post", 1)], p2, "children",
           "Data schema %s, export %s, import %s must be [pre: Pre, post: Post] at positions 0, 1" % (d, c, i), sample={"schema": d})
    rep.ob("L4.Data.validity", bool(new) and new[0]["validity"] == "validity" and any(l["kind"] == "validity" and l["field"] == "validity" for l in L.tree_leaves(imp)), p2, "validity",
           "Data must pass its validity bitmap into StructArray::new and take it back out of into_data()")
    rep.ob("L4.Data.nullable", all(l.get("nullable") is False for l in L.tree_leaves(dt)), p1, "nullable", "Data schema fields must be non-nullable")


def portdata_rule(F, rep):
    dt, p1 = _tree(F, rep, "PortData", "data_type", L.x_data_type)
    into, p2 = _tree(F, rep, "PortData", "into_struct_array", L.x_into_struct_array)
    imp, p3 = _tree(F, rep, "PortData", "from_struct_array", L.x_from_struct_array)
    if None in (dt, into, imp):
        return
    for fol in (False, True):
        env = L.VEnv((3, 16), {"port.follower": fol, "self.follower": fol})
        try:
            d = [(l["name"], l.get("sub")) for l in L.flatten(dt, env) if l["op"] == "field"]
            c = [(l["field"], l.get("struct")) for l in L.flatten(into, env) if l["op"] == "child"]
        except L.Unsupported as e:
            rep.cannot("L4.PortData", p2, e)
            return
        want = [("leader", "Data")] + ([("follower", "Data")] if fol else [])
        rep.ob("L4.PortData", d == want and c == want, p2, "children/follower=%s" % fol,
               "PortData with follower=%s: schema %s, export %s, want %s" % (fol, d, c, want), sample={"follower": fol, "schema": d})
    i = [(l["field"], l.get("struct"), l.get("pos"), l.get("opt")) for l in L.tree_leaves(imp) if l["kind"] == "sub"]
    rep.ob("L4.PortData.import", i == [("leader", "Data", 0, False), ("follower", "Data", 1, True)], p3, "positions",
           "PortData import must take leader from child 0 and follower from child 1 if present, got %s" % i)
    # the schema's follower flag and the data's follower presence are tied by mutable::PortData::with_capacity
    b = F.body("frame::mutable::PortData::with_capacity")
    ok = False
    if b is not None:
        fields, _ = L.ctor_fields(b["tir"]["value"], None)
        for name, e in fields:
            if name == "follower":
                e = L.strip_try(e)
                bb = tir.bool_branch(e)
                if bb is not None and tir.place(bb[0]) == "port.follower" and bb[2] is not None:
                    bt, bf = L.strip_try(bb[1]), L.strip_try(bb[2])
                    ok = (bt.get("k") == "Call" and (declared(bt) or "").endswith("Some")) and (bf.get("k") == "Path" and (bf.get("path") or "").endswith("None"))
                elif e.get("k") == "MethodCall" and e["method"] in ("then", "then_some") and tir.place(e["recv"]) == "port.follower":
                    ok = True
    rep.ob("L4.PortData.follower", ok, "frame::mutable::PortData::with_capacity", "follower", "follower data must exist exactly when PortOccupancy.follower is set")


def frame_rule(F, rep, M):
    dt, p1 = _tree(F, rep, "Frame", "data_type", L.x_data_type)
    into, p2 = _tree(F, rep, "Frame", "into_struct_array", L.x_into_struct_array)
    imp, p3 = _tree(F, rep, "Frame", "from_struct_array", L.x_from_struct_array)
    if None in (dt, into, imp):
        return
    wc = L.x_with_capacity(F.body("frame::mutable::Frame::with_capacity"))
    bad = {}
    for v in M.classes:
        live = [l["field"] for l in L.flatten(wc, v) if l["op"] in ("col", "sub", "each", "offsets")]
        want = ["id", "ports"] + [f for f in ("start", "end", "item") if f in live]
        d = [l["name"] for l in L.flatten(dt, v) if l["op"] == "field"]
        c = []
        for l in L.flatten(into, v):
            if l["op"] == "child":
                c.append("ports" if l.get("kind") == "struct-of" else l.get("field"))
        rep.obligations += 1
        if d == want and c == want:
            rep.discharged += 1
        else:
            bad.setdefault((tuple(d), tuple(c), tuple(want)), []).append(v)
    rep.counts["L4.Frame"] = len(M.classes)
    for (d, c, want), vs in bad.items():
        rep.violation("L4.Frame", p2, "children", "Frame schema %s / export %s differ from the live columns %s in %d classes (first %s)" % (list(d), list(c), list(want), len(vs), M.class_name(vs[0])))
    if not bad:
        rep.samples.append({"rule": "L4.Frame", "class": M.class_name(M.classes[-1]), "schema": ["id", "ports", "start", "end", "item"]})
    # kinds of the children
    leaves = {("ports" if l.get("kind") == "struct-of" else l.get("field")): l for l in L.tree_leaves(into) if l["op"] == "child"}
    dleaves = {l["name"]: l for l in L.tree_leaves(dt) if l["op"] == "field"}
    rep.ob("L4.Frame.id", (dleaves.get("id") or {}).get("dt") == "Int32" and not (leaves.get("id") or {}).get("struct"), p1, "id", "frame id must be exported as Int32")
    pl = leaves.get("ports") or {}
    rep.ob("L4.Frame.ports", (pl.get("dt_call") or "").endswith("::port_data_type") and pl.get("values_kind") == "zip" and (dleaves.get("ports") or {}).get("subfn", "").endswith("::port_data_type"),
           p2, "ports", "ports must be a struct of per-port arrays built from zip(ports, self.ports) with the port_data_type schema")
    il = leaves.get("item") or {}
    rep.ob("L4.Frame.item", il.get("kind") == "list" and il.get("offsets") == "item_offset" and il.get("struct") == "Item" and (il.get("dt_call") or "").endswith("::item_data_type")
           and (dleaves.get("item") or {}).get("subfn", "").endswith("::item_data_type"), p2, "item",
           "items must be exported as ListArray(item_data_type, self.item_offset, self.item.into_struct_array(..))")
    for f, s in (("start", "Start"), ("end", "End")):
        rep.ob("L4.Frame." + f, (leaves.get(f) or {}).get("struct") == s and (dleaves.get(f) or {}).get("sub") == s, p2, f, "%s must be exported through %s" % (f, s))
    rep.ob("L4.Frame.nullable", all(l.get("nullable") is False for l in L.tree_leaves(dt)), p1, "nullable", "Frame schema fields must be non-nullable")
    # import positions
    i = {l["field"]: l for l in L.tree_leaves(imp)}
    ok = (i.get("id", {}).get("pos") == 0 and i.get("id", {}).get("down") == "arrow2::array::PrimitiveArray<i32>"
          and i.get("ports", {}).get("pos") == 1 and (i.get("ports", {}).get("fn") or "").endswith("::port_data_from_struct_array")
          and i.get("start", {}).get("pos") == 2 and i.get("start", {}).get("opt") and i.get("start", {}).get("struct") == "Start"
          and i.get("end", {}).get("pos") == 3 and i.get("end", {}).get("opt") and i.get("end", {}).get("struct") == "End")
    rep.ob("L4.Frame.import", bool(ok), p3, "positions", "Frame import must read id<-0, ports<-1, start<-get(2), end<-get(3); got %s" % {k: (v.get("pos"), v.get("opt")) for k, v in i.items()})
    # item / item_offset come from values.get(4).map_or((None, None), |v| ..)
    b = F.body(p3)
    item_ok = False
    for n in tir.walk(b["tir"]["value"]):
        if n.get("k") == "Let" and n["pat"].get("k") == "Tuple" and [q.get("name") for q in n["pat"]["pats"]] == ["item", "item_offset"]:
            init = strip(n["init"])
            if init.get("k") == "MethodCall" and init["method"] == "map_or":
                r = strip(init["recv"])
                if r.get("k") == "MethodCall" and r["method"] == "get" and tir.lit_int(r["args"][0]) == 4:
                    txt = tir.pretty(init["args"][1])
                    item_ok = "offsets()" in txt and "from_struct_array" in txt and "ListArray" in "".join(x.get("gargs", [""])[0] for x in tir.walk(init["args"][1]) if x.get("k") == "MethodCall" and x["method"] == "downcast_ref")
    rep.ob("L4.Frame.import.item", item_ok, p3, "item", "Frame import must take (item, item_offset) from child 4 as ListArray<i32> (values -> Item::from_struct_array, offsets())")


def helpers_rule(F, rep):
    # port_data_type: one field per occupancy entry, named Display(port), typed PortData::data_type(version, *p)
    p = PEPPI % ("Frame", "port_data_type")
    b = F.body(p)
    ok = False
    if b is not None:
        for n in tir.walk(b["tir"]["value"]):
            if n.get("k") == "Call" and (declared(n) or "") == "arrow2::datatypes::Field::new":
                name, dt, nul = n["args"]
                pieces = fmtspec.format_pieces(name)
                dtc = strip(dt)
                while dtc.get("k") == "MethodCall" and dtc["method"] == "clone":
                    dtc = strip(dtc["recv"])
                ok = (pieces is not None and len(pieces) == 1 and pieces[0][0] == "arg" and pieces[0][1].get("trait") == "display" and fmtspec.is_default_spec(pieces[0][1])
                      and tir.place(pieces[0][1].get("expr") or {}) == "p.port" and (declared(dtc) or "").endswith("<impl frame::immutable::PortData>::data_type")
                      and strip(nul).get("v") is False)
    rep.ob("schema.port-name", ok, p, "field", "port fields must be named by Display(port) and typed by PortData::data_type(version, *p), non-nullable")
    # item_data_type
    p = PEPPI % ("Frame", "item_data_type")
    b = F.body(p)
    ok = False
    if b is not None:
        body = L.strip_try(b["tir"]["value"])
        if body.get("k") == "Call" and (declared(body) or "") == "arrow2::datatypes::DataType::List":
            for n in tir.walk(body):
                d = L.field_new(n, "version") if n.get("k") == "Call" else None
                if d:
                    ok = d.get("name") == "item" and d.get("sub") == "Item" and d.get("nullable") is False
    rep.ob("schema.item-list", ok, p, "list", "item column must be List<item: Item struct, non-nullable>")
    # port_data_from_struct_array: child i -> PortData::from_struct_array(.., version, Port::parse(&fields[i].name))
    p = PEPPI % ("Frame", "port_data_from_struct_array")
    b = F.body(p)
    ok = False

    def scan(scope, iv, child, vparam):
        """inside scope: PortData::from_struct_array(<child downcast+clone>, version, Port::parse(&fields[i].name))"""
        def is_i(e):
            e = strip(e)
            while e.get("k") == "Cast":
                e = strip(e["e"])
            return e.get("k") == "Path" and e.get("id") == iv
        conv = parse_ok = False
        for c in tir.walk(scope):
            if c.get("k") == "Call" and (declared(c) or "").endswith("<impl frame::immutable::PortData>::from_struct_array") and len(c["args"]) == 3:
                a0 = strip(c["args"][0])
                chain = []
                while a0.get("k") == "MethodCall":
                    chain.append(a0["method"])
                    a0 = strip(a0["recv"])
                conv = a0.get("k") == "Path" and a0.get("id") == child and child is not None and set(chain) <= {"clone", "unwrap", "downcast_ref", "as_any", "expect"} and "downcast_ref" in chain
                conv = conv and L.local_name(c["args"][1]) == vparam
                for y in tir.walk(c["args"][2]):
                    if y.get("k") == "Call" and (declared(y) or "") == "game::Port::parse" and len(y["args"]) == 1:
                        nm = strip(y["args"][0])
                        parse_ok = nm.get("k") == "Field" and nm["name"] == "name" and strip(nm["base"]).get("k") == "Index" and tir.place(strip(nm["base"])["base"]) == "fields" and is_i(strip(nm["base"])["index"])
        return conv, parse_ok

    def get_i(g, iv):
        g = strip(g)
        if not (g.get("k") == "MethodCall" and g["method"] == "get" and tir.place(g["recv"]) == "values" and g.get("args")):
            return False
        e = strip(g["args"][0])
        while e.get("k") == "Cast":
            e = strip(e["e"])
        return e.get("k") == "Path" and e.get("id") == iv
    if b is not None:
        vparam = b["tir"]["params"][1].get("name")
        for n in tir.walk(b["tir"]["value"]):
            if n.get("k") == "For":
                it = tir.pretty(n["iter"])
                iv = n["pat"].get("id")
                child = None     # binding of `values.get(i)`
                bounded = "game::NUM_PORTS" in it
                if n["pat"].get("k") == "Tuple" and len(n["pat"].get("pats", [])) == 2 and all(q.get("k") == "Bind" for q in n["pat"]["pats"]):
                    # `for (i, a) in values.iter().enumerate().take(NUM_PORTS)`: the i-th child, for the same indices
                    src = strip(n["iter"])
                    tk = None
                    if src.get("k") == "MethodCall" and src["method"] == "take" and len(src.get("args", [])) == 1:
                        tk, src = src["args"][0], strip(src["recv"])
                    if src.get("k") == "MethodCall" and src["method"] == "enumerate" and not src.get("args"):
                        inner = strip(src["recv"])
                        while inner.get("k") == "MethodCall" and inner["method"] in ("iter", "into_iter") and not inner.get("args"):
                            inner = strip(inner["recv"])
                        if tir.place(inner) == "values" and tk is not None and "game::NUM_PORTS" in tir.pretty(tk):
                            iv = n["pat"]["pats"][0].get("id")
                            child = n["pat"]["pats"][1].get("id")
                            bounded = True
                for x in tir.walk(n["body"]):
                    if x.get("k") == "If" and strip(x["cond"]).get("k") == "LetCond":
                        lc = strip(x["cond"])
                        if (lc["pat"].get("path") or "").endswith("::Some") and get_i(lc["init"], iv):
                            child = lc["pat"]["pats"][0].get("id")
                conv, parse_ok = scan(n["body"], iv, child, vparam)
                ok = bounded and child is not None and conv and parse_ok
            elif n.get("k") == "MethodCall" and n["method"] == "filter_map" and len(n.get("args", [])) == 1 and not ok:
                # (0..NUM_PORTS).filter_map(|i| values.get(i).map(|a| PortData::from_struct_array(..))).collect()
                rg, cl = strip(n["recv"]), strip(n["args"][0])
                if rg.get("k") == "Struct" and (rg.get("path") or "").endswith("ops::Range") and "game::NUM_PORTS" in tir.pretty(rg) and cl.get("k") == "Closure" and len(cl["params"]) == 1 and cl["params"][0].get("k") == "Bind":
                    f0 = {x["name"]: strip(x["e"]) for x in rg["fields"]}
                    body = strip(cl["body"])
                    iv = cl["params"][0]["id"]
                    if tir.lit_int(f0.get("start") or {}) == 0 and body.get("k") == "MethodCall" and body["method"] == "map" and get_i(body["recv"], iv):
                        icl = strip(body["args"][0])
                        if icl.get("k") == "Closure" and len(icl["params"]) == 1 and icl["params"][0].get("k") == "Bind":
                            conv, parse_ok = scan(icl["body"], iv, icl["params"][0]["id"], vparam)
                            ok = conv and parse_ok
    rep.ob("import.ports", ok, p, "loop", "ports must be imported child-by-child with the port parsed from the same child's field name")
