"""The tail of slippi::de::read(): what follows the raw element (terminator byte, optional metadata element, digest),
as a set of stream-token paths (rules/readpaths.py) — independent of match / if-chain / let spelling."""
import readpaths
import tir
from tir import strip, declared

READ = "io::slippi::de::read"


def terminator_paths(F):
    """[(tokens, kind)] with tokens ('u8', constraint) | ('call', callee, constant byte args); kind ok|err.
    Raises layout.Unsupported when the tail is outside the fragment; returns None when no terminator read is found."""
    b = F.body(READ)
    if b is None:
        return None
    root = b["tir"]["value"]
    # the wrapped reader: the local the caller's reader was shadowed by (HashingReader::new(..)) — every local of that type
    rids = set()
    for n in tir.walk(root):
        if n.get("k") == "Let" and n["pat"].get("k") == "Bind" and "HashingReader" in (n["pat"].get("ty") or ""):
            rids.add(n["pat"]["id"])
    top = root
    while top.get("k") == "Block" and not top.get("stmts") and top.get("tail") is not None:
        top = top["tail"]
    if top.get("k") != "Block":
        return None
    stmts = top.get("stmts", [])
    start = None
    for i, s in enumerate(stmts):
        direct = [x for x in tir.walk(s) if x.get("k") == "MethodCall" and x["method"] == "read_u8" and strip(x["recv"]).get("id") in rids]
        in_loop = any(y.get("k") in ("Loop", "For") and any(z is x for z in tir.walk(y)) for x in direct for y in tir.walk(s))
        if direct and not in_loop:
            start = i
    if start is None:
        return None
    frag = {"k": "Block", "ty": top.get("ty"), "sp": stmts[start].get("sp"), "stmts": stmts[start:], "tail": top.get("tail")}
    P = readpaths.Paths(F, b, root=frag, reader_ids=rids, stream_calls=True)
    out = []
    for st, v in P.done:
        toks = []
        for t in st.tokens:
            if t[0] == "u8":
                c = st.cons.get(t[1])
                toks.append(("u8", ("=", c[1]) if c and c[0] == "eq" else (("!=", tuple(sorted(c[1]))) if c else None)))
            elif t[0] == "call":
                toks.append(("call", t[1].split("::")[-1], t[2] if len(t) > 2 else ()))
            else:
                toks.append((t[0],))
        out.append((tuple(toks), "err" if v[0] == "err" else "ok"))
    return out


EXPECTED = {
    ((("u8", ("=", 0x55)), ("call", "parse_metadata", ()), ("call", "expect_bytes", ((0x7d,),)), ("call", "into_digest", ())), "ok"),
    ((("u8", ("=", 0x7d)), ("call", "into_digest", ())), "ok"),
    ((("u8", ("!=", (0x55, 0x7d))),), "err"),
}


EXPECTED_META = ((("u8", ("=", 0x55)), ("call", "parse_metadata", ()), ("call", "expect_bytes", ((0x7d,),)), ("call", "into_digest", ())), "ok")


def check(F):
    """(ok, detail): the tail accepts 'U' + metadata element + '}' or a bare '}', rejects every other byte, and takes the digest last"""
    ps = terminator_paths(F)
    if ps is None:
        return False, "no terminator read found after the event loop"
    have = set(ps)
    # error exits inside the metadata element (a failed expect_bytes / parse_metadata) are `?` on I/O-level results: not listed as paths
    return have == EXPECTED, "paths differing from the expected tail: %s" % sorted(str(x) for x in have ^ EXPECTED)[:4]
