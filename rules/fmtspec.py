"""E6 helper: semantic decoding of lowered `format_args!` (template bytecode + argument list)."""
import tir
from tir import strip, declared

ALIGN = {0: "<", 1: ">", 2: "^", 3: None}


def decode_template(bs):
    """core::fmt template bytecode -> list of ('lit', str) / ('arg', spec dict). See library/core/src/fmt/mod.rs."""
    out, i, next_arg = [], 0, 0
    while i < len(bs):
        n = bs[i]
        i += 1
        if n == 0:
            if i != len(bs):
                # a zero byte inside is only legal within pieces, which we consume below
                pass
            break
        if n < 0x80:
            out.append(("lit", bytes(bs[i:i + n]).decode("utf-8", "replace")))
            i += n
        elif n == 0x80:
            ln = bs[i] | (bs[i + 1] << 8)
            i += 2
            out.append(("lit", bytes(bs[i:i + ln]).decode("utf-8", "replace")))
            i += ln
        else:
            spec = {"fill": " ", "align": None, "width": None, "precision": None, "plus": False, "minus": False, "alternate": False,
                    "zero": False, "debug_hex": None, "width_indirect": bool(n & 16), "precision_indirect": bool(n & 32)}
            flags = None
            if n & 1:
                flags = bs[i] | (bs[i + 1] << 8) | (bs[i + 2] << 16) | (bs[i + 3] << 24)
                i += 4
            if n & 2:
                spec["width"] = bs[i] | (bs[i + 1] << 8)
                i += 2
            if n & 4:
                spec["precision"] = bs[i] | (bs[i + 1] << 8)
                i += 2
            if n & 8:
                next_arg = bs[i] | (bs[i + 1] << 8)
                i += 2
            if flags is not None:
                spec["fill"] = chr(flags & 0x1FFFFF)
                spec["plus"] = bool(flags & (1 << 21))
                spec["minus"] = bool(flags & (1 << 22))
                spec["alternate"] = bool(flags & (1 << 23))
                spec["zero"] = bool(flags & (1 << 24))
                spec["debug_hex"] = "x" if flags & (1 << 25) else ("X" if flags & (1 << 26) else None)
                spec["align"] = ALIGN[(flags >> 29) & 3]
            spec["index"] = next_arg
            next_arg += 1
            out.append(("arg", spec))
    return out


def find_format(n):
    """Locate the lowered format_args! below node n. Returns list of pieces:
       ('lit', text) | ('arg', {trait, expr (TIR node), spec...}); or None."""
    for x in tir.walk(n):
        if x.get("k") == "Call" and (declared(x) or "").startswith("std::fmt::Arguments") and (declared(x) or "").endswith("::new"):
            tmpl = strip(x["args"][0])
            if tmpl.get("k") != "Array" and tmpl.get("k") != "Lit":
                continue
            if tmpl.get("k") == "Lit":
                bs = tmpl.get("v")
            else:
                bs = [tir.lit_int(e) for e in tmpl["elems"]]
            pieces = decode_template(bs)
            # argument table: the enclosing block has `let args = (&a, &b); let args = (Argument::new_X(args.0), ..)`
            return pieces, x
        if x.get("k") == "Call" and (declared(x) or "").startswith("std::fmt::Arguments") and (declared(x) or "").endswith("::from_str"):
            s = strip(x["args"][0])
            return [("lit", s.get("v"))], x
    return None


def format_pieces(n):
    """Pieces with argument expressions and traits resolved."""
    r = None
    blocks = [x for x in tir.walk(n) if x.get("k") == "Block" and tir.in_macro(x, "format_args")]
    for b in blocks or [n]:
        r = find_format(b)
        if r is None:
            continue
        pieces, call = r
        raw, wrapped = None, None
        for s in b.get("stmts", []):
            if s.get("k") == "Let" and s["pat"].get("name") == "args":
                i = strip(s["init"])
                if i.get("k") == "Tup" and i["elems"] and strip(i["elems"][0]).get("k") == "Call" and "fmt::rt::Argument" in (declared(strip(i["elems"][0])) or ""):
                    wrapped = i["elems"]
                elif i.get("k") == "Tup":
                    raw = i["elems"]
                elif i.get("k") == "Array":
                    wrapped = i["elems"]
                else:
                    raw = [i]
        out = []
        for kind, v in pieces:
            if kind == "lit":
                out.append(("lit", v))
            else:
                d = dict(v)
                w = strip(wrapped[v["index"]]) if wrapped and v["index"] < len(wrapped) else None
                if w is not None:
                    d["trait"] = (declared(w) or "").split("::new_")[-1]
                    a = strip(w["args"][0])
                    # args.N -> raw[N]
                    if a.get("k") == "Field" and raw is not None and a.get("idx") is not None and a["idx"] < len(raw):
                        d["expr"] = strip(raw[a["idx"]])
                    else:
                        d["expr"] = a
                out.append(("arg", d))
        return out
    return None


def is_default_spec(d):
    return (d.get("fill") == " " and d.get("align") is None and d.get("width") is None and d.get("precision") is None and not d.get("plus")
            and not d.get("alternate") and not d.get("zero") and not d.get("debug_hex"))
