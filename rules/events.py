"""H family: the event dispatch of `parse_event` — per-arm headers, cursors, versions, effects."""
import layout as L
import tir
from tir import strip, place, declared, callee

PARSE_EVENT = "io::slippi::de::parse_event"
FRAME_EVENTS = {"FrameStart": "Start", "FramePre": "Pre", "FramePost": "Post", "FrameEnd": "End", "Item": "Item"}
VERSION_PLACE = "state.game.start.slippi.version"


class EventInfo:
    pass


def find_dispatch(F):
    """the `match event { Payloads => .., .. }` of parse_event: returns (body, match node, {variant: arm})"""
    b = F.body(PARSE_EVENT)
    if b is None:
        return None, None, {}
    for n in tir.walk(b["tir"]["value"]):
        if n.get("k") == "Match" and n.get("src") == "Normal" and "io::slippi::de::Event" in (n["scrut"].get("ty") or ""):
            arms = {}
            for a in n["arms"]:
                for p in (a["pat"]["pats"] if a["pat"].get("k") == "Or" else [a["pat"]]):
                    if p.get("k") == "Lit" and p["e"].get("k") == "Path":
                        arms[p["e"]["path"].split("::")[-1]] = a
                    elif p.get("k") in ("Wild", "Bind"):
                        arms["_"] = a
            return b, n, arms
    return b, None, {}


def arm_stmts(arm):
    body = L.strip_try(arm["body"])
    if body.get("k") == "Block":
        return list(body.get("stmts", [])) + ([body["tail"]] if body.get("tail") else [])
    return [body]


def cursor_of(stmts, bufname="buf"):
    """`let r = &mut &*buf;` -> name of the cursor over the whole payload buffer (offset 0)"""
    for s in stmts:
        if s.get("k") == "Let" and s["pat"].get("k") == "Bind":
            i = s.get("init") or {}
            if i.get("k") == "AddrOf":
                inner = strip(i)
                while inner.get("k") == "Unary" and inner.get("op") == "Deref":
                    inner = strip(inner["e"])
                if inner.get("k") == "Path" and inner.get("name") == bufname:
                    return s["pat"]["name"]
    return None


def is_read(n):
    return n.get("k") == "MethodCall" and (declared(n) or "").startswith("byteorder::ReadBytesExt::read_")


def analyse_arm(name, arm):
    """header reads (unconditional, before the generated reader), the generated reader calls and their arguments"""
    info = {"event": name, "header": [], "readers": [], "problems": []}
    stmts = arm_stmts(arm)
    cur = cursor_of(stmts)
    info["cursor"] = cur
    # `let version = state.game.start.slippi.version;` style aliases
    alias = {}
    for s in stmts:
        if s.get("k") == "Let" and s["pat"].get("k") == "Bind" and s.get("init") is not None:
            ip = place(s["init"])
            if ip:
                alias[s["pat"]["name"]] = ip
    seen_reader = False
    for s in stmts:
        top_read = None
        if s.get("k") == "Let" and not seen_reader:
            i = L.strip_try(s.get("init") or {})
            # let x = r.read_T()?   |   let x = r.read_u8()? != 0
            cand = i
            if cand.get("k") == "Binary":
                cand = L.strip_try(cand["l"])
            if is_read(cand) and L.local_name(cand["recv"]) == cur:
                ty = cand["method"][5:]
                info["header"].append({"ty": ty, "endian": L.endian_of(cand) if L.WIDTH.get(ty, 1) > 1 else None,
                                       "name": s["pat"].get("name"), "sp": tir.sp(cand)})
                top_read = cand
        for n in tir.walk(s):
            if n.get("k") == "MethodCall" and n["method"] == "read_push" and (declared(n) or "").startswith("frame::mutable::"):
                seen_reader = True
                a = n["args"]
                info["readers"].append({
                    "struct": L.struct_of_path(declared(n)), "target": place(n["recv"]),
                    "cursor_ok": len(a) == 2 and L.local_name(a[0]) == cur and cur is not None,
                    "version": alias.get(place(a[1]), place(a[1])) if len(a) == 2 else None, "sp": tir.sp(n), "node": n})
            elif is_read(n) and n is not top_read and L.local_name(n["recv"]) == cur:
                info["problems"].append("read of the payload cursor that is not an unconditional header read at %s" % tir.sp(n))
    return info


def size_source(F):
    """how `parse_event` sizes its buffer: returns dict with the expressions feeding `vec![0; size]` and read_exact"""
    b = F.body(PARSE_EVENT)
    out = {"size_defs": [], "buf_defs": [], "read_exact": []}
    if b is None:
        return out
    for n in tir.walk(b["tir"]["value"]):
        if n.get("k") == "Let" and n["pat"].get("k") == "Bind":
            if n["pat"]["name"] == "size":
                out["size_defs"].append(n)
            if n["pat"]["name"] == "buf":
                out["buf_defs"].append(n)
    return out
