"""H family: the event dispatch of `parse_event` — per-arm headers, cursors, versions, effects."""
import layout as L
import tir
from tir import strip, place, declared, callee

PARSE_EVENT = "io::slippi::de::parse_event"
FRAME_EVENTS = {"FrameStart": "Start", "FramePre": "Pre", "FramePost": "Post", "FrameEnd": "End", "Item": "Item"}
VERSION_PLACE = "state.game.start.slippi.version"


class EventInfo:
    pass


def find_dispatch(F):
    """the `match event { Payloads => .., .. }` of parse_event: returns (body, match node, {variant: arm})"""
    b = F.body(PARSE_EVENT)
    if b is None:
        return None, None, {}
    for n in tir.walk(b["tir"]["value"]):
        if n.get("k") == "Match" and n.get("src") == "Normal" and "io::slippi::de::Event" in (n["scrut"].get("ty") or ""):
            arms = {}
            for a in n["arms"]:
                for p in (a["pat"]["pats"] if a["pat"].get("k") == "Or" else [a["pat"]]):
                    # `Event::X`, or `Ok(Event::X)` / `Some(Event::X)` when the conversion result is matched directly
                    while p.get("k") == "Ref":
                        p = p["pat"]
                    if p.get("k") == "TupleStruct" and (p.get("path") or "").endswith(("::Ok", "::Some")) and len(p.get("pats", [])) == 1:
                        p = p["pats"][0]
                    elif p.get("k") == "TupleStruct" and (p.get("path") or "").endswith("::Err"):
                        arms.setdefault("_", a)
                        continue
                    if p.get("k") == "Lit" and p["e"].get("k") == "Path":
                        arms[p["e"]["path"].split("::")[-1]] = a
                    elif p.get("k") == "Path" and "Event::" in (p.get("path") or ""):
                        arms[p["path"].split("::")[-1]] = a
                    elif p.get("k") in ("Wild", "Bind"):
                        arms["_"] = a
            if len([k for k in arms if k != "_"]) >= 3:
                return b, n, arms
    return b, None, {}


def arm_stmts(arm):
    body = L.strip_try(arm["body"])
    if body.get("k") == "Block":
        return list(body.get("stmts", [])) + ([body["tail"]] if body.get("tail") else [])
    return [body]


def cursor_of(stmts, bufname="buf"):
    """`let r = &mut &*buf;` -> name of the cursor over the whole payload buffer (offset 0)"""
    for s in stmts:
        if s.get("k") == "Let" and s["pat"].get("k") == "Bind":
            i = s.get("init") or {}
            if i.get("k") == "AddrOf":
                inner = strip(i)
                while inner.get("k") == "Unary" and inner.get("op") == "Deref":
                    inner = strip(inner["e"])
                if inner.get("k") == "Path" and inner.get("res") == "local" and (inner.get("ty") or "") == "std::vec::Vec<u8>":
                    return s["pat"]["name"]
    return None


def is_read(n):
    return n.get("k") == "MethodCall" and (declared(n) or "").startswith("byteorder::ReadBytesExt::read_")


def analyse_arm(name, arm):
    """header reads (unconditional, before the generated reader), the generated reader calls and their arguments"""
    info = {"event": name, "header": [], "readers": [], "problems": []}
    stmts = arm_stmts(arm)
    cur = cursor_of(stmts)
    info["cursor"] = cur
    # `let version = state.game.start.slippi.version;` style aliases
    alias = {}
    for s in stmts:
        if s.get("k") == "Let" and s["pat"].get("k") == "Bind" and s.get("init") is not None:
            ip = place(s["init"])
            if ip:
                alias[s["pat"]["name"]] = ip
    seen_reader = False
    for s in stmts:
        top_read = None
        if s.get("k") == "Let" and not seen_reader:
            i = L.strip_try(s.get("init") or {})
            # let x = r.read_T()?   |   let x = r.read_u8()? != 0
            cand = i
            if cand.get("k") == "Binary":
                cand = L.strip_try(cand["l"])
            if is_read(cand) and L.local_name(cand["recv"]) == cur:
                ty = cand["method"][5:]
                info["header"].append({"ty": ty, "endian": L.endian_of(cand) if L.WIDTH.get(ty, 1) > 1 else None,
                                       "name": s["pat"].get("name"), "sp": tir.sp(cand)})
                top_read = cand
        for n in tir.walk(s):
            if n.get("k") == "MethodCall" and n["method"] == "read_push" and (declared(n) or "").startswith("frame::mutable::"):
                seen_reader = True
                a = n["args"]
                info["readers"].append({
                    "struct": L.struct_of_path(declared(n)), "target": place(n["recv"]),
                    "cursor_ok": len(a) == 2 and L.local_name(a[0]) == cur and cur is not None,
                    "version": alias.get(place(a[1]), place(a[1])) if len(a) == 2 else None, "sp": tir.sp(n), "node": n})
            elif is_read(n) and n is not top_read and L.local_name(n["recv"]) == cur:
                info["problems"].append("read of the payload cursor that is not an unconditional header read at %s" % tir.sp(n))
    return info


def size_source(F):
    """how `parse_event` sizes its buffer: returns dict with the expressions feeding `vec![0; size]` and read_exact"""
    b = F.body(PARSE_EVENT)
    out = {"size_defs": [], "buf_defs": [], "read_exact": []}
    if b is None:
        return out
    for n in tir.walk(b["tir"]["value"]):
        if n.get("k") == "Let" and n["pat"].get("k") == "Bind":
            if n["pat"]["name"] == "size":
                out["size_defs"].append(n)
            if n["pat"]["name"] == "buf":
                out["buf_defs"].append(n)
    return out


def payload_buffer(F, fn):
    """Role-based (name-independent) description of how `fn` obtains an event's payload:
       code := reader.read_u8()?; size := <table>[code as usize]...get(); buf := vec![0; size]; reader.read_exact(&mut buf)?
    returns dict(ok, table, problems)"""
    b = F.body(fn)
    out = {"ok": False, "table": None, "problems": []}
    if b is None:
        out["problems"].append("function not found")
        return out
    root = b["tir"]["value"]
    pids = {p.get("id"): p.get("name") for p in b["tir"]["params"] if p.get("k") == "Bind"}
    lets = {}
    for n in tir.walk(root):
        if n.get("k") == "Let" and n["pat"].get("k") == "Bind":
            lets.setdefault(n["pat"]["id"], n)

    def local_id(e):
        e = strip(e)
        while e.get("k") == "Cast":
            e = strip(e["e"])
        return e.get("id") if e.get("k") == "Path" and e.get("res") == "local" else None

    rx = [n for n in tir.walk(root) if n.get("k") == "MethodCall" and n["method"] == "read_exact" and local_id(n["recv"]) in pids]
    if len(rx) != 1:
        out["problems"].append("expected exactly one read_exact on the stream parameter, found %d" % len(rx))
        return out
    reader = local_id(rx[0]["recv"])
    buf = lets.get(local_id(strip(rx[0]["args"][0])))
    if buf is None or not tir.in_macro(buf["init"], "vec"):
        out["problems"].append("read_exact target is not a `vec![0; n]` local")
        return out
    # everything the buffer length is computed from, following immutable lets and Some(..)/Ok(..) payload bindings
    env = tir.LetEnv(root)
    seen = set()
    cone = [x for x in tir.walk(buf["init"]) if x.get("k") in ("MethodCall", "Index") or (x.get("k") == "Call" and not tir.in_macro(x, "vec"))]
    work = [x for x in tir.walk(buf["init"]) if x.get("k") == "Path" and x.get("res") == "local"]
    while work and len(seen) < 40:
        x = work.pop()
        if x.get("id") in seen:
            continue
        seen.add(x.get("id"))
        r = env.resolve(x, peel=True)
        if r is strip(x):
            continue
        for y in tir.walk(r):
            cone.append(y)
            if y.get("k") == "Path" and y.get("res") == "local":
                work.append(y)
    if not work and not seen:
        out["problems"].append("buffer length is not computed from let-bound values")
        return out
    idx = [x for x in cone if x.get("k") == "Index"]
    idx = [x for i, x in enumerate(idx) if not any(x is y for y in idx[:i])]
    calls = [(x.get("resolved") or x.get("path") or "") for x in cone if x.get("k") in ("Call", "MethodCall")]
    if any(c.endswith("::size") or "size_of" in c for c in calls):
        out["problems"].append("buffer length depends on a size() function")
    if len(idx) != 1:
        out["problems"].append("buffer length is not one lookup in the payload-size table")
        return out
    out["table"] = place(idx[0]["base"])
    ix = strip(idx[0]["index"])
    while ix.get("k") == "Cast" or (ix.get("k") == "Call" and (ix.get("path") or "").endswith("From::from") and len(ix["args"]) == 1):
        ix = strip(ix["e"] if ix.get("k") == "Cast" else ix["args"][0])
    code = lets.get(ix.get("id")) if ix.get("k") == "Path" else None
    if code is None:
        out["problems"].append("table index is not a let-bound local")
        return out
    ci = code["init"]
    c0 = strip(ci["e"]) if ci.get("k") == "Try" else {}
    if not (c0.get("k") == "MethodCall" and c0["method"] == "read_u8" and local_id(c0["recv"]) == reader):
        out["problems"].append("the table index is not the raw code byte read from the stream")
    if not any(c.endswith("::get") for c in calls):
        out["problems"].append("table entry is not unwrapped with NonZero::get")
    out["ok"] = not out["problems"] and (out["table"] or "").endswith("payload_sizes")
    if not (out["table"] or "").endswith("payload_sizes"):
        out["problems"].append("size looked up in `%s`, not the file's payload-size table" % out["table"])
    return out
