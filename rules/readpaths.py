"""Path enumeration over small recursive-descent readers (the UBJSON metadata reader).

The function's typed tree is walked as a control-flow tree; every read from the stream becomes a token, every test of a
byte that was read becomes a constraint on that token, and every way out (tail value, `return`, `?` on a constructed Err)
ends a path. The result is the reader's accepted grammar as a finite set of (token sequence, constraints, outcome) —
independent of whether a test is written as `match`, `if .. { return Err }`, `let .. else`, with or without intermediate
lets. Nothing is executed: values are symbols."""
import layout as L
import tir
from tir import strip, declared

READS = {"read_u8": ("u8", 1), "read_i8": ("i8", 1), "read_u16": ("u16", 2), "read_i16": ("i16", 2), "read_u32": ("u32", 4), "read_i32": ("i32", 4),
         "read_u64": ("u64", 8), "read_i64": ("i64", 8), "read_f32": ("f32", 4), "read_f64": ("f64", 8)}


class Unsupported(L.Unsupported):
    pass


class State:
    __slots__ = ("tokens", "env", "cons", "guards")

    def __init__(self, tokens=(), env=None, cons=None, guards=()):
        self.tokens = tokens
        self.env = env or {}
        self.cons = cons or {}
        self.guards = guards

    def with_token(self, t):
        return State(self.tokens + (t,), self.env, self.cons, self.guards)

    def bind(self, bid, v):
        e = dict(self.env)
        e[bid] = v
        return State(self.tokens, e, self.cons, self.guards)

    def constrain(self, sym, c):
        k = dict(self.cons)
        old = k.get(sym)
        if c[0] == "eq":
            if old and old[0] == "eq" and old[1] != c[1]:
                return None
            if old and old[0] == "ne" and c[1] in old[1]:
                return None
            k[sym] = c
        else:
            if old and old[0] == "eq":
                return self if old[1] not in c[1] else None
            k[sym] = ("ne", frozenset((old[1] if old else frozenset()) | c[1]))
        return State(self.tokens, self.env, k, self.guards)

    def guard(self, text, val):
        return State(self.tokens, self.env, self.cons, self.guards + ((text, val),))


class Paths:
    def __init__(self, F, body, reader=None, local_prefix=None, max_paths=400, loop_iteration=False, root=None, reader_ids=None, stream_calls=False):
        """loop_iteration=True: the (single) stream-reading loop of the function is analysed for one iteration — paths end with
        ('continue',) at the end of its body, ('break',) at a break, or a return value.
        root / reader_ids: analyse a fragment of the body (a block built from some of its statements) with the given locals as the stream.
        stream_calls=True: a call that is handed the stream is a token ('call', callee, constant byte arguments)."""
        self.F = F
        self.body = body
        self.loop_iteration = loop_iteration
        self.stream_calls = stream_calls
        t = body["tir"]
        self.reader_ids = set(reader_ids or ())
        if reader_ids is None:
            for p in t["params"]:
                if p.get("k") == "Bind" and (reader is None and "&mut" in (p.get("ty") or "") or p.get("name") == reader):
                    self.reader_ids.add(p["id"])
        self.prefix = local_prefix
        self.done = []        # (state, outcome value)
        self.nsym = 0
        self.max_paths = max_paths
        st = State()
        for p in t["params"]:
            if p.get("k") == "Bind":
                st = st.bind(p["id"], ("param", p.get("name")))
        for st2, v in self.ev(root if root is not None else t["value"], st):
            self.done.append((st2, v))
        if len(self.done) > max_paths:
            raise Unsupported(t["value"], "too many paths")

    # -- values ------------------------------------------------------------------------------------
    def sym(self, ty):
        self.nsym += 1
        return ("sym", self.nsym, ty)

    def is_reader(self, e):
        e = strip(e)
        return e.get("k") == "Path" and e.get("res") == "local" and e.get("id") in self.reader_ids

    # -- evaluation --------------------------------------------------------------------------------
    def seq(self, nodes, st, acc=()):
        """evaluate expressions left to right; yields (state, values)"""
        if not nodes:
            yield st, acc
            return
        for st2, v in self.ev(nodes[0], st):
            yield from self.seq(nodes[1:], st2, acc + (v,))

    def ev(self, n, st):
        if len(self.done) > self.max_paths:
            raise Unsupported(n, "too many paths")
        k = n.get("k")
        if k == "Block":
            yield from self.block(n, 0, st)
        elif k in ("Lit",):
            yield st, ("lit", n.get("v"))
        elif k == "Path":
            if n.get("res") == "local":
                yield st, st.env.get(n.get("id"), ("opaque", n))
            else:
                p = n.get("path") or ""
                if p.endswith("::None"):
                    yield st, ("none",)
                elif (n.get("dk") or "").startswith("Const"):
                    v = self.const_value(p)
                    yield st, (("lit", v) if v is not None else ("opaque", n))
                else:
                    yield st, ("opaque", n)
        elif k in ("AddrOf", "Cast", "Expr") or (k == "Unary" and n.get("op") == "Deref"):
            for st2, v in self.ev(n["e"], st):
                yield st2, (v if k != "Cast" or v[0] in ("sym", "lit") else ("opaque", n))
        elif k == "Unary":
            for st2, v in self.ev(n["e"], st):
                if n.get("op") == "Not" and v[0] == "bool":
                    yield st2, ("bool", v[1], v[2], not v[3])
                else:
                    yield st2, ("opaque", n)
        elif k == "Try":
            for st2, v in self.ev(n["e"], st):
                if v[0] == "err":
                    self.done.append((st2, v))
                elif v[0] == "ok":
                    yield st2, v[1]
                elif v[0] == "okerr":
                    yield st2, v[1]
                    self.done.append((st2, ("err", n)))
                else:
                    yield st2, v      # I/O level Result: the error path is an I/O failure, not a grammar decision
        elif k == "Ret":
            if n.get("e") is None:
                self.done.append((st, ("unit",)))
            else:
                for st2, v in self.ev(n["e"], st):
                    self.done.append((st2, v))
        elif k == "MethodCall":
            yield from self.method(n, st)
        elif k == "Call":
            yield from self.call(n, st)
        elif k == "Binary":
            for st2, (a, b) in self.seq([n["l"], n["r"]], st):
                op = n.get("op")
                if op in ("Eq", "Ne") and a[0] == "sym" and b[0] == "lit":
                    yield st2, ("bool", a, b[1], op == "Eq")
                elif op in ("Eq", "Ne") and b[0] == "sym" and a[0] == "lit":
                    yield st2, ("bool", b, a[1], op == "Eq")
                else:
                    yield st2, ("opaque", n)
        elif k == "If":
            c = n["cond"]
            if c.get("k") == "LetCond":
                for st2, v in self.ev(c["init"], st):
                    yield from self.pattern_fork(c["pat"], v, st2, lambda s: self.ev(n["then"], s), (lambda s: self.ev(n["else"], s)) if n.get("else") else (lambda s: iter([(s, ("unit",))])), n)
                return
            for st2, v in self.ev(c, st):
                if v[0] == "bool":
                    _, sy, val, pos = v
                    t = st2.constrain(sy, ("eq", val) if pos else ("ne", frozenset([val])))
                    f = st2.constrain(sy, ("ne", frozenset([val])) if pos else ("eq", val))
                elif v[0] == "lit" and isinstance(v[1], bool):
                    t, f = (st2, None) if v[1] else (None, st2)      # a condition whose value this path already fixed
                else:
                    txt = tir.pretty(c)[:80]
                    t, f = st2.guard(txt, True), st2.guard(txt, False)
                if t is not None:
                    yield from self.ev(n["then"], t)
                if f is not None:
                    if n.get("else"):
                        yield from self.ev(n["else"], f)
                    else:
                        yield f, ("unit",)
        elif k == "Match":
            for st2, v in self.ev(n["scrut"], st):
                yield from self.match(n, v, st2)
        elif k in ("Tup", "Array"):
            for st2, vs in self.seq(list(n.get("elems", [])), st):
                yield st2, ("tuple", vs)
        elif k == "Struct":
            for st2, vs in self.seq([f["e"] for f in n.get("fields", [])], st):
                yield st2, ("opaque", n)
        elif k == "Closure":
            yield st, ("opaque", n)
        elif k in ("Assign", "AssignOp"):
            for st2, v in self.ev(n["r"], st):
                yield st2, ("unit",)
        elif k == "Field" or k == "Index":
            for st2, v in self.ev(n["base"], st):
                yield st2, ("opaque", n)
        elif k in ("Loop", "For"):
            reads = [x for x in tir.walk(n) if x.get("k") in ("MethodCall", "Call") and (self.is_stream_call(x))]
            if reads and self.loop_iteration and k == "Loop":
                for st2, v in self.ev(n["body"], st):
                    self.done.append((st2, ("continue",)))
                return
            if reads:
                yield st.with_token(("loop", tir.sp(n))), ("opaque", n)
            else:
                yield st, ("opaque", n)
        elif k == "Break":
            if self.loop_iteration:
                self.done.append((st, ("break",)))
            else:
                yield st, ("unit",)
        elif k == "Repeat":
            yield st, ("opaque", n)
        else:
            raise Unsupported(n, "construct outside the reader-path fragment: %s" % k)

    def is_stream_call(self, x):
        if x.get("k") == "MethodCall" and self.is_reader(x["recv"]):
            return True
        return any(self.is_reader(a) for a in x.get("args", []))

    def const_value(self, path):
        b = self.F.const_body(path)
        if b is None or not b.get("tir"):
            return None
        return tir.lit_int(b["tir"]["value"])

    def block(self, n, i, st):
        stmts = n.get("stmts", [])
        if i == len(stmts):
            if n.get("tail") is not None:
                yield from self.ev(n["tail"], st)
            else:
                yield st, ("unit",)
            return
        s = stmts[i]
        if s.get("k") == "Let":
            if s.get("init") is None:
                yield from self.block(n, i + 1, st)
                return
            for st2, v in self.ev(s["init"], st):
                if s.get("els") is not None:
                    def cont(sx):
                        return self.block(n, i + 1, sx)

                    def els(sx):
                        for sy, vy in self.ev(s["els"], sx):
                            pass       # the else block diverges; its exits were recorded by Ret
                        return iter(())
                    yield from self.pattern_fork(s["pat"], v, st2, cont, els, s)
                else:
                    st3 = self.bind_pat(s["pat"], v, st2)
                    yield from self.block(n, i + 1, st3)
        else:
            e = s.get("e") if s.get("k") == "Expr" else s
            for st2, v in self.ev(e, st):
                yield from self.block(n, i + 1, st2)

    def bind_pat(self, p, v, st):
        if p.get("k") == "Bind":
            return st.bind(p["id"], v)
        if p.get("k") == "Tuple" and v[0] == "tuple" and len(v[1]) == len(p["pats"]):
            for q, x in zip(p["pats"], v[1]):
                st = self.bind_pat(q, x, st)
            return st
        if p.get("k") == "Ref":
            return self.bind_pat(p["pat"], v, st)
        return st

    def pattern_fork(self, p, v, st, on_match, on_else, node):
        """refutable pattern against a symbolic value: Some(x)/None on an option-like value, literal on a byte symbol"""
        while p.get("k") == "Ref":
            p = p["pat"]
        if p.get("k") == "TupleStruct" and (p.get("path") or "").endswith("::Some"):
            if v[0] == "some":
                yield from on_match(self.bind_pat(p["pats"][0], v[1], st))
            elif v[0] == "none":
                yield from on_else(st)
            else:
                yield from on_match(self.bind_pat(p["pats"][0], ("payload", v), st.guard("is_some(%s)" % (v[2] if v[0] == "callres" else "?"), True)))
                yield from on_else(st.guard("is_some(%s)" % (v[2] if v[0] == "callres" else "?"), False))
            return
        if p.get("k") == "TupleStruct" and (p.get("path") or "").endswith("::Ok"):
            if v[0] == "ok":
                yield from on_match(self.bind_pat(p["pats"][0], v[1], st))
            elif v[0] == "err":
                yield from on_else(st)
            else:
                yield from on_match(self.bind_pat(p["pats"][0], ("payload", v), st))
                yield from on_else(st)
            return
        if p.get("k") == "Lit" and v[0] == "sym":
            val = p["e"].get("v")
            a = st.constrain(v, ("eq", val))
            b = st.constrain(v, ("ne", frozenset([val])))
            if a is not None:
                yield from on_match(a)
            if b is not None:
                yield from on_else(b)
            return
        raise Unsupported(node, "refutable pattern outside the reader-path fragment")

    def match(self, n, v, st):
        arms = n["arms"]
        if v[0] == "sym":
            seen = set()
            guarded_vals = {}
            for a in arms:
                pats = a["pat"]["pats"] if a["pat"].get("k") == "Or" else [a["pat"]]
                if a.get("guard") and not all(p.get("k") == "Lit" for p in pats):
                    raise Unsupported(n, "guarded non-literal arm on a byte that was read")
                for p in pats:
                    if p.get("k") == "Lit" and p["e"].get("lit") in ("int", "char"):
                        val = p["e"]["v"]
                        if val in seen:
                            continue
                        s2 = st.constrain(v, ("eq", val))
                        if a.get("guard"):
                            # `LIT if g => ..`: taken when g holds; otherwise a later arm for the same byte (or the default) applies
                            txt = tir.pretty(a["guard"])[:80]
                            guarded_vals.setdefault(val, []).append(txt)
                            if s2 is not None:
                                yield from self.ev(a["body"], s2.guard(txt, True))
                            continue
                        seen.add(val)
                        if s2 is not None:
                            for g in guarded_vals.get(val, []):
                                s2 = s2.guard(g, False)
                            yield from self.ev(a["body"], s2)
                    elif p.get("k") == "Range":
                        raise Unsupported(n, "range pattern on a byte that was read")
                    elif p.get("k") in ("Wild", "Bind"):
                        s2 = st.constrain(v, ("ne", frozenset(seen))) if seen else st
                        if s2 is not None:
                            if p.get("k") == "Bind":
                                s2 = s2.bind(p["id"], v)
                            yield from self.ev(a["body"], s2)
                        return
                    else:
                        raise Unsupported(n, "pattern outside the reader-path fragment")
            return
        if v[0] == "bool":
            bb = tir.bool_branch(n)
            if bb is not None:
                _, sy, val, pos = v
                t = st.constrain(sy, ("eq", val) if pos else ("ne", frozenset([val])))
                f = st.constrain(sy, ("ne", frozenset([val])) if pos else ("eq", val))
                if t is not None:
                    yield from self.ev(bb[1], t)
                if f is not None and bb[2] is not None:
                    yield from self.ev(bb[2], f)
                return
        # Option / Result shaped scrutinee
        took = False
        for a in arms:
            p = a["pat"]
            while p.get("k") == "Ref":
                p = p["pat"]
            if a.get("guard"):
                raise Unsupported(n, "guarded arm")
            if p.get("k") == "TupleStruct" and (p.get("path") or "").endswith(("::Some", "::Ok")):
                which = "some" if p["path"].endswith("Some") else "ok"
                if v[0] == which:
                    yield from self.ev(a["body"], self.bind_pat(p["pats"][0], v[1], st))
                    return
                if v[0] in ("none", "err"):
                    continue
                txt = "is_%s(%s)" % (which, v[2] if v[0] == "callres" else tir.pretty(n["scrut"])[:40])
                yield from self.ev(a["body"], self.bind_pat(p["pats"][0], ("payload", v), st.guard(txt, True)))
                took = True
            elif p.get("k") in ("Wild", "Bind") or (p.get("k") in ("Lit", "Path") and ((p.get("path") or (p.get("e") or {}).get("path") or "").endswith("::None"))) or (
                    p.get("k") == "TupleStruct" and (p.get("path") or "").endswith("::Err")):
                if v[0] in ("some", "ok") and not took:
                    continue
                txt = "is_some(%s)" % (v[2] if v[0] == "callres" else tir.pretty(n["scrut"])[:40])
                yield from self.ev(a["body"], st.guard(txt, False) if took else st)
            else:
                # a match on something that is not stream data: every arm is a possible continuation
                txt = tir.pretty(n["scrut"])[:60] + " matches " + tir.pat(a["pat"])
                yield from self.ev(a["body"], st.guard(txt, True))

    def method(self, n, st):
        m = n["method"]
        d = declared(n) or ""
        if self.is_reader(n["recv"]) and m in READS and d.startswith("byteorder::ReadBytesExt::"):
            ty, w = READS[m]
            en = "" if w == 1 else (L.endian_of(n) or "?")
            s = self.sym(ty)
            yield st.with_token((ty + ("be" if en == "BigEndian" else ("le" if en == "LittleEndian" else en)), s)), s
            return
        if self.is_reader(n["recv"]) and m == "read_exact":
            for st2, v in self.ev(n["args"][0], st):
                ln = v[1] if v[0] == "vec" else ("?", tir.pretty(n["args"][0])[:40])
                yield st2.with_token(("bytes", ln, v)), ("io",)
            return
        if self.is_reader(n["recv"]) and m in ("by_ref",):
            yield st, st.env.get(strip(n["recv"]).get("id"), ("param", "r"))
            return
        if self.is_reader(n["recv"]) and self.stream_calls:
            for st2, vs in self.seq(list(n.get("args", [])), st):
                yield st2.with_token(("call", d or m, ())), ("callres", d or m, len(st2.tokens))
            return
        if self.is_reader(n["recv"]):
            raise Unsupported(n, "stream operation outside the reader-path fragment: " + m)
        for st2, vs in self.seq([n["recv"]] + list(n.get("args", [])), st):
            rv = vs[0]
            if m in ("ok_or", "ok_or_else") and rv[0] in ("some", "none", "callres", "payload", "opaque"):
                if rv[0] == "some":
                    yield st2, ("ok", rv[1])
                elif rv[0] == "none":
                    yield st2, ("err", n)
                else:
                    yield st2, ("okerr", ("payload", rv))
            elif m in ("map_err",):
                yield st2, rv
            elif m == "map" and rv[0] in ("ok", "some") and strip(n["args"][0]).get("k") == "Closure":
                yield st2, (rv[0], ("mapped", rv[1], n["args"][0]))
            elif m == "map" and len(n["args"]) == 1 and strip(n["args"][0]).get("k") == "Path" and (strip(n["args"][0]).get("dk") or "").startswith("Ctor"):
                # `res.map(Value::String)`: the payload wrapped by a constructor, the error passed on
                ctor = strip(n["args"][0]).get("path")
                if rv[0] in ("ok", "some"):
                    yield st2, (rv[0], ("ctor", ctor, (rv[1],)))
                elif rv[0] == "okerr":
                    yield st2, ("okerr", ("ctor", ctor, (rv[1],)))
                elif rv[0] in ("callres", "payload"):
                    yield st2, ("okerr", ("ctor", ctor, (("payload", rv),)))
                else:
                    yield st2, ("opaque", n)
            elif m in ("into", "to_owned", "clone", "to_string", "as_mut_slice", "as_slice", "as_mut", "as_ref"):
                yield st2, rv
            else:
                yield st2, ("opaque", n)

    def call(self, n, st):
        d = declared(n) or ""
        args = list(n.get("args", []))
        if (n.get("dk") or "").startswith("Ctor") or n.get("res") == "selfctor":
            name = d.split("::")[-1]
            for st2, vs in self.seq(args, st):
                if name == "Ok":
                    yield st2, ("ok", vs[0] if vs else ("unit",))
                elif name == "Err":
                    yield st2, ("err", n)
                elif name == "Some":
                    yield st2, ("some", vs[0] if vs else ("unit",))
                else:
                    yield st2, ("ctor", d, vs)
            return
        if d.endswith("vec::from_elem") and len(args) == 2:
            for st2, vs in self.seq(args, st):
                yield st2, ("vec", vs[1])
            return
        if self.prefix and d.startswith(self.prefix) and any(self.is_reader(a) for a in args):
            for st2, vs in self.seq([a for a in args if not self.is_reader(a)], st):
                yield st2.with_token(("call", d[len(self.prefix):], vs)), ("callres", d[len(self.prefix):], len(st2.tokens))
            return
        if any(self.is_reader(a) for a in args) and self.stream_calls:
            consts = tuple(tuple(b) for b in (self.F.bytes_of(a) for a in args if not self.is_reader(a)) if b is not None)
            for st2, vs in self.seq([a for a in args if not self.is_reader(a)], st):
                yield st2.with_token(("call", d, consts)), ("callres", d, len(st2.tokens))
            return
        if any(self.is_reader(a) for a in args):
            raise Unsupported(n, "the stream is handed to %s (outside the reader-path fragment)" % d)
        for st2, vs in self.seq(args, st):
            if d.endswith("From::from") and vs and vs[0][0] in ("sym", "lit"):
                yield st2, vs[0]
            elif d.endswith("String::from_utf8") and vs:
                yield st2, ("okerr", ("utf8", vs[0]))
            else:
                yield st2, ("call", d, vs)

    # -- summary -------------------------------------------------------------------------------------
    def summary(self):
        """[(token shapes, outcome kind, outcome value)] with byte constraints folded into the tokens"""
        out = []
        for st, v in self.done:
            toks = []
            for t in st.tokens:
                if t[0] in ("u8", "i8") and t[1][0] == "sym":
                    c = st.cons.get(t[1])
                    toks.append((t[0], ("=", c[1]) if c and c[0] == "eq" else (("!=", tuple(sorted(c[1]))) if c else None), t[1][1]))
                elif t[0] == "bytes":
                    toks.append(("bytes", t[1][1] if isinstance(t[1], tuple) and t[1][0] == "sym" else t[1]))
                elif t[0] == "call":
                    toks.append(("call", t[1]))
                else:
                    toks.append((t[0],) + ((t[1][1],) if isinstance(t[1], tuple) and t[1][0] == "sym" else ()))
            kind = v[0] if v[0] in ("ok", "err", "okerr") else "value"
            out.append((tuple(toks), kind, v, st.guards))
        return out
