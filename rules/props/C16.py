"""C16 — metadata trees are read, written and stored with order and bytes preserved (structural).
E6: the reader's accepted grammar and the writer's emitted grammar are extracted as token sequences and compared."""
import fmtspec
import flow
import layout as L
import peppifmt
import reach
import tir
from tir import strip, declared, callee

DE = "io::ubjson::de::"
SER = "io::ubjson::ser::"


def write_tokens(F, node, depth=0):
    """token sequence emitted by a writer expression: ('byte', b) | ('u8len', expr) | ('text', expr) | ('i32be', expr) | ('call', fn)"""
    toks = []
    for g, c in flow.ordered_calls(node, lambda n: True):
        d = callee(c) or ""
        if c.get("k") == "MethodCall" and c["method"] == "write_fmt":
            pieces = fmtspec.format_pieces(c["args"][0]) or (fmtspec.find_format(c["args"][0]) or [None])[0]
            for k, v in pieces or []:
                if k == "lit":
                    toks += [("byte", b) for b in v.encode()]
                else:
                    toks.append(("text", tir.place(v.get("expr") or {}), v.get("trait"), fmtspec.is_default_spec(v)))
        elif d.startswith("byteorder::WriteBytesExt::write_"):
            ty = c["method"][6:]
            toks.append((ty + ("be" if L.endian_of(c) == "BigEndian" else ("" if L.WIDTH.get(ty, 1) == 1 else "?")), tir.pretty(c["args"][0])[:60]))
        elif d.startswith(SER):
            toks.append(("call", d[len(SER):], [tir.place(a) for a in c["args"][1:]]))
        elif d.endswith("Write::write_all"):
            a = strip(c["args"][0])
            if a.get("k") == "Array":
                toks += [("byte", tir.lit_int(e)) for e in a["elems"]]
            else:
                toks.append(("bytes", tir.pretty(a)[:60]))
    return toks


def byte_match(fn_body):
    """`match r.read_u8()? { lit => body, .. }` -> (match node, {byte: body}, default body)"""
    for n in tir.walk(fn_body):
        if n.get("k") == "Match" and n["scrut"].get("k") == "Try":
            c = strip(n["scrut"]["e"])
            if c.get("k") == "MethodCall" and c["method"] == "read_u8":
                arms, default = {}, None
                for a in n["arms"]:
                    p = a["pat"]
                    if p.get("k") == "Lit" and p["e"].get("lit") == "int":
                        arms[p["e"]["v"]] = a["body"]
                    else:
                        default = a["body"]
                return n, arms, default
    return None, {}, None


def is_err(e):
    e = L.strip_try(e)
    return e.get("k") == "Call" and (declared(e) or "").endswith("::Err")


def reader_grammar(F, rep):
    g = {}
    # to_utf8: u8 length, that many bytes, UTF-8
    b = F.body(DE + "to_utf8")
    ok = False
    if b:
        txt = tir.pretty(b["tir"]["value"])
        val = L.strip_try(b["tir"]["value"])
        st = val.get("stmts", [])
        try:
            l0 = strip(st[0]["init"]["e"]) if st[0]["init"].get("k") == "Try" else {}
            ln = st[0]["pat"]["name"]
            bufinit = strip(st[1]["init"])
            bufname = st[1]["pat"]["name"]
            sized = [x.get("name") for x in tir.walk(bufinit) if x.get("k") == "Path" and x.get("res") == "local"] == [ln]
            rx = strip(L.strip_try(st[2]))
            exact = rx.get("k") == "MethodCall" and rx["method"] == "read_exact" and L.local_name(rx["args"][0]) == bufname
            tail = L.strip_try(val["tail"])
            conv = tail.get("k") == "Call" and (declared(tail) or "").endswith("::Ok") and "String::from_utf8(%s)?" % bufname in tir.pretty(tail)
            # the bytes read are the bytes converted: nothing else may touch the buffer in between
            from props import C08
            touched = [n for pl, n in C08.mutations(val) if pl == bufname and not (n.get("k") == "AddrOf" and any(n is strip(a) or n is a for a in rx.get("args", [])))]
            ok = l0.get("method") == "read_u8" and sized and exact and conv and not touched
        except (IndexError, KeyError, TypeError):
            ok = False
    rep.ob("grammar.reader.utf8", ok, DE + "to_utf8", "shape", "to_utf8 must be: u8 length, exactly that many bytes, String::from_utf8")
    g["utf8"] = ["u8len", "bytes"]
    # to_key
    b = F.body(DE + "to_key")
    m, arms, default = byte_match(b["tir"]["value"]) if b else (None, {}, None)
    key_ok = (set(arms) == {0x55, 0x7d} and "to_utf8" in tir.pretty(arms.get(0x55, {})) and (L.strip_try(arms.get(0x55, {})).get("path") or "").endswith("::Ok")
              and "None" in tir.pretty(arms.get(0x7d, {})) and default is not None and is_err(default))
    rep.ob("grammar.reader.key", key_ok, DE + "to_key", "markers", "to_key must accept exactly 'U'<utf8> (key) and '}' (end of map); found markers %s" % sorted(hex(x) for x in arms),
           sample={"key_markers": sorted(hex(x) for x in arms)})
    # to_val
    b = F.body(DE + "to_val")
    m, arms, default = byte_match(b["tir"]["value"]) if b else (None, {}, None)
    ok = set(arms) == {0x53, 0x6c, 0x7b} and default is not None and is_err(default)
    rep.ob("grammar.reader.value-markers", ok, DE + "to_val", "markers", "to_val must accept exactly 'S', 'l', '{'; found %s" % sorted(hex(x) for x in arms),
           sample={"value_markers": sorted(hex(x) for x in arms)})
    if 0x53 in arms:
        m2, a2, d2 = byte_match(arms[0x53])
        ok = set(a2) == {0x55} and "serde_json::Value::String(io::ubjson::de::to_utf8(r)?)" in tir.pretty(a2.get(0x55, {})) and d2 is not None and is_err(d2)
        rep.ob("grammar.reader.string", ok, DE + "to_val", "S", "string value must be 'S' 'U' <utf8>")
    if 0x6c in arms:
        reads = [x for x in tir.walk(arms[0x6c]) if x.get("k") == "MethodCall" and (declared(x) or "").startswith("byteorder::ReadBytesExt::read_")]
        ok = len(reads) == 1 and reads[0]["method"] == "read_i32" and L.endian_of(reads[0]) == "BigEndian" and "serde_json::Value::Number" in tir.pretty(arms[0x6c])
        rep.ob("grammar.reader.int", ok, DE + "to_val", "l", "integer value must be 'l' + i32 big-endian")
    if 0x7b in arms:
        calls = [callee(x) for x in tir.walk(arms[0x7b]) if x.get("k") in ("Call", "MethodCall") and (callee(x) or "").startswith(DE)]
        ok = calls and all(c in (DE + "read_map_", DE + "read_map") for c in calls) and "serde_json::Value::Object" in tir.pretty(arms[0x7b])
        rep.ob("grammar.reader.map", bool(ok), DE + "to_val", "{", "map value must recurse into read_map after '{'")
    # read_map_: loop { key or end; value; insert in read order }
    b = F.body(DE + "read_map_") or F.body(DE + "read_map")
    ok = False
    if b:
        ins = [x for x in tir.walk(b["tir"]["value"]) if x.get("k") == "MethodCall" and (declared(x) or "") == "serde_json::Map::<std::string::String, serde_json::Value>::insert"]
        ok = len(ins) == 1 and L.local_name(ins[0]["args"][0]) is not None and "to_val" in tir.pretty(ins[0]["args"][1])
    rep.ob("order.reader-insert", ok, DE + "read_map_", "insert", "the reader must insert each (key, value) pair into the map in read order, once")


def writer_grammar(F, rep):
    b = F.body(SER + "write_utf8")
    toks = write_tokens(F, b["tir"]["value"]) if b else []
    sname = b["tir"]["params"][1].get("name") if b else None
    ok = (len(toks) == 3 and toks[0] == ("byte", 0x55) and toks[1][0] == "u8" and toks[1][1].startswith("%s.len()" % sname)
          and toks[2] == ("text", sname, "display", True))
    rep.ob("grammar.writer.utf8", ok, SER + "write_utf8", "tokens", "write_utf8 must emit 'U', u8 length of s, the bytes of s; got %s" % (toks,), sample={"tokens": [str(t) for t in toks]})
    b = F.body(SER + "write_map")
    ok_loop = False
    arms = {}
    if b:
        for n in tir.walk(b["tir"]["value"]):
            if n.get("k") == "For":
                ok_loop = tir.place(n["iter"]) == b["tir"]["params"][1].get("name")
                stmts = L.strip_try(n["body"]).get("stmts", []) + [L.strip_try(n["body"]).get("tail")]
                first = write_tokens(F, stmts[0]) if stmts else []
                kname = (n["pat"]["pats"][0].get("name") if n["pat"].get("k") == "Tuple" else None)
                rep.ob("grammar.writer.key", first == [("call", "write_utf8", [kname])], SER + "write_map", "key", "each pair must start with write_utf8(key); got %s" % first)
                for m in tir.walk(n["body"]):
                    if m.get("k") == "Match":
                        for a in m["arms"]:
                            p = a["pat"]
                            nm = (p.get("path") or "_").split("::")[-1] if p.get("k") == "TupleStruct" else "_"
                            arms[nm] = (write_tokens(F, a["body"]), a)
                        break
    rep.ob("order.writer-iter", ok_loop, SER + "write_map", "iteration", "the writer must iterate the map itself (insertion order), not a sorted or collected copy")
    s = arms.get("String", ([], None))[0]
    rep.ob("grammar.writer.string", len(s) == 2 and s[0] == ("byte", 0x53) and s[1][:2] == ("call", "write_utf8"), SER + "write_map", "String", "string values must be emitted as 'S' + write_utf8; got %s" % s)
    i = arms.get("Number", ([], None))[0]
    rep.ob("grammar.writer.int", len(i) == 2 and i[0] == ("byte", 0x6c) and i[1][0] == "i32be", SER + "write_map", "Number", "integers must be emitted as 'l' + i32 big-endian; got %s" % i)
    o = arms.get("Object", ([], None))[0]
    rep.ob("grammar.writer.map", len(o) == 3 and o[0] == ("byte", 0x7b) and o[1][:2] == ("call", "write_map") and o[2] == ("byte", 0x7d), SER + "write_map", "Object",
           "nested maps must be emitted as '{' + write_map + '}' by the same function; got %s" % o)
    # informational: writer panics outside the statement's domain
    rep.note("writer sites outside the statement's domain (strings > 255 bytes, non-i32 numbers, arrays/bools/null): try_into().unwrap() in write_utf8/write_map and unimplemented!() in write_map")


def toplevel_rule(F, rep):
    import model
    ev = model.load_spec("events.json")
    key = ev["metadata_key"]
    # reader: parse_metadata expects key minus the leading 'U'
    b = F.body("io::slippi::de::parse_metadata")
    got = None
    for n in tir.walk(b["tir"]["value"]):
        if n.get("k") == "Call" and (declared(n) or "") == "io::expect_bytes":
            a = strip(n["args"][1])
            if a.get("k") == "Array":
                got = [tir.lit_int(e) for e in a["elems"]]
    rep.ob("toplevel.reader-key", got == key[1:], "io::slippi::de::parse_metadata", "key", "parse_metadata must expect %s after the 'U', got %s" % (key[1:], got))
    rb = F.body("io::slippi::de::read")
    m, arms, default = byte_match(L.strip_try(rb["tir"]["value"]).get("stmts", [])[-2] if False else rb["tir"]["value"])
    # the terminator match is the last byte match in read(): find the one with arms {0x55, 0x7d}
    term = None
    for n in tir.walk(rb["tir"]["value"]):
        mm, aa, dd = byte_match(n) if n.get("k") == "Match" else (None, {}, None)
        if mm is n and set(aa) == {0x55, 0x7d}:
            term = (aa, dd)
    ok = False
    if term:
        aa, dd = term
        t55 = tir.pretty(aa[0x55])
        ok = "parse_metadata" in t55 and "expect_bytes(&mut r, &(125))?" in t55.replace("[", "(").replace("]", ")") and is_err(L.strip_try(dd).get("e") or dd) if dd is not None else False
        none_arm = L.strip_try(aa[0x7d])
        ok = ok and (none_arm.get("k") in ("Block", "Tup")) and not list(x for x in tir.walk(none_arm) if x.get("k") in ("Call", "MethodCall", "Assign"))
    rep.ob("toplevel.reader-terminator", bool(ok), "io::slippi::de::read", "terminator", "after the raw element read() must accept 'U'+metadata+'}' or a bare '}' (no metadata) and nothing else")
    # writer
    wb = F.body("io::slippi::ser::write")
    seq = []
    for g, c in flow.ordered_calls(wb["tir"]["value"], lambda n: (callee(n) or "").endswith("Write::write_all") or (callee(n) or "") == SER + "write_map"):
        if (callee(c) or "") == SER + "write_map":
            seq.append(("write_map", tuple(x[1] for x in g)))
        else:
            a = strip(c["args"][0])
            if a.get("k") == "Array":
                seq.append((tuple(tir.lit_int(e) for e in a["elems"]), tuple(x[1] for x in g)))
    tail = seq[-4:]
    guard = "std::prelude::v1::Some(metadata) = game.metadata"
    ok = (len(tail) == 4 and tail[0] == (tuple(key), (guard,)) and tail[1] == ("write_map", (guard,)) and tail[2] == ((0x7d,), (guard,)) and tail[3] == ((0x7d,), ()))
    rep.ob("toplevel.writer", ok, "io::slippi::ser::write", "metadata-element", "the writer must emit U\\x08metadata{ + map + } exactly when metadata is Some, then the top-level }; got %s" % (tail,),
           sample={"tail": [str(t) for t in tail]})


def order_rule(F, rep):
    ext = F.items["ext_adts"]
    m = [e for e in ext if e["path"] == "serde_json::Map"]
    ok = bool(m) and any("indexmap::map::IndexMap" in f["ty"] for f in m[0]["fields"])
    rep.ob("order.indexmap", ok, "serde_json::Map", "representation", "serde_json::Map is not IndexMap-backed in the type-checked program (preserve_order feature off): key order would be lost",
           sample={"map_repr": m[0]["fields"][0]["ty"] if m else None})
    G = reach.Graph(F)
    R = G.reachable(["io::slippi::de::parse_metadata", "io::ubjson::ser::write_map", "io::peppi::de::read_peppi_metadata"])
    ext_calls = G.external_calls(R)
    bad = sorted(c for c in ext_calls if "BTreeMap" in c or "HashMap" in c or c.endswith("::sort") or "sort_" in c.split("::")[-1])
    rep.ob("order.no-resort", not bad, "metadata path", "containers", "metadata passes through an order-destroying container/sort: %s" % bad[:3])


def absence_rule(F, rep):
    # .slpp: writer serialises the Option itself, reader maps null -> None, object -> Some
    b = F.body("io::peppi::de::read_peppi_metadata")
    arms = {}
    for n in tir.walk(b["tir"]["value"]):
        if n.get("k") == "Match":
            for a in n["arms"]:
                p = a["pat"]
                nm = (p.get("path") or (p.get("e") or {}).get("path") or "_").split("::")[-1]
                body = tir.pretty(L.strip_try(a["body"]))
                arms[nm] = body
    ok = "Some(map)" in arms.get("Object", "").replace("std::prelude::v1::", "") and "Ok(" in arms.get("Object", "").replace("std::prelude::v1::", "") and "None" in arms.get("Null", "") and "Ok(" in arms.get("Null", "").replace("std::prelude::v1::", "")
    rep.ob("absence.slpp", ok, "io::peppi::de::read_peppi_metadata", "null", "the .slpp reader must map JSON null to no metadata and an object to Some(map); arms: %s" % sorted(arms))
    arms2, m, loop = peppifmt.reader_arms(F)
    a = arms2.get("metadata.json")
    ok = a is not None and tir.pretty(L.strip_try(a["body"])) == "metadata = io::peppi::de::read_peppi_metadata(file)?"
    rep.ob("absence.slot", ok, peppifmt.READ, "metadata.json", "the metadata slot must take read_peppi_metadata's Option unchanged")


def run(F, rep, tier):
    reader_grammar(F, rep)
    writer_grammar(F, rep)
    toplevel_rule(F, rep)
    order_rule(F, rep)
    absence_rule(F, rep)
    rep.control("token extractor sees marker bytes", write_tokens(F, F.body(SER + "write_utf8")["tir"]["value"])[0] == ("byte", 0x55))
    rep.trusted += ["serde_json::Map with preserve_order iterates in insertion order; serde_json to_vec/from_reader preserve object order with that feature",
                    "String::from_utf8 / Display for str are byte-preserving for valid UTF-8"]
    rep.not_decided.append("byte equality for all trees (recursion over data) — decided are the marker/width/endianness tables, nesting discipline and ordering containers")
    return rep.finish("other",
                      "The reader's accepted grammar (key: 'U' len:u8 bytes | '}'; value: 'S' 'U' len:u8 bytes | 'l' i32-BE | '{' map) is extracted from the literal match arms and the reads "
                      "that follow them and compared with the writer's emitted token sequences; the top-level metadata element is compared as literal byte strings on both sides and is "
                      "emitted/accepted exactly when metadata is present; serde_json::Map is IndexMap-backed in the type-checked program, the reader inserts in read order and the writer "
                      "iterates the map itself; the .slpp copy maps null to absence.",
                      "./check C16 --tier " + tier)
