"""C16 — metadata trees are read, written and stored with order and bytes preserved (structural).
E6: the reader's accepted grammar and the writer's emitted grammar are extracted as token sequences and compared."""
import fmtspec
import flow
import layout as L
import peppifmt
import reach
import tir
from tir import strip, declared, callee

DE = "io::ubjson::de::"
SER = "io::ubjson::ser::"


def write_tokens(F, node, depth=0):
    """token sequence emitted by a writer expression: ('byte', b) | ('u8len', expr) | ('text', expr) | ('i32be', expr) | ('call', fn)"""
    toks = []
    for g, c in flow.ordered_calls(node, lambda n: True):
        d = callee(c) or ""
        if c.get("k") == "MethodCall" and c["method"] == "write_fmt":
            pieces = fmtspec.format_pieces(c["args"][0]) or (fmtspec.find_format(c["args"][0]) or [None])[0]
            for k, v in pieces or []:
                if k == "lit":
                    toks += [("byte", b) for b in v.encode()]
                else:
                    toks.append(("text", tir.place(v.get("expr") or {}), v.get("trait"), fmtspec.is_default_spec(v)))
        elif d.startswith("byteorder::WriteBytesExt::write_"):
            ty = c["method"][6:]
            toks.append((ty + ("be" if L.endian_of(c) == "BigEndian" else ("" if L.WIDTH.get(ty, 1) == 1 else "?")), tir.pretty(c["args"][0])[:60], c["args"][0]))
        elif d.startswith(SER):
            toks.append(("call", d[len(SER):], [tir.place(a) for a in c["args"][1:]]))
        elif d.endswith("Write::write_all"):
            a = strip(c["args"][0])
            if a.get("k") == "Array":
                toks += [("byte", tir.lit_int(e)) for e in a["elems"]]
            else:
                toks.append(("bytes", tir.pretty(a)[:60]))
    return toks


def byte_match(fn_body):
    """`match r.read_u8()? { lit => body, .. }` -> (match node, {byte: body}, default body)"""
    for n in tir.walk(fn_body):
        if n.get("k") == "Match" and n["scrut"].get("k") == "Try":
            c = strip(n["scrut"]["e"])
            if c.get("k") == "MethodCall" and c["method"] == "read_u8":
                arms, default = {}, None
                for a in n["arms"]:
                    p = a["pat"]
                    if p.get("k") == "Lit" and p["e"].get("lit") == "int":
                        arms[p["e"]["v"]] = a["body"]
                    else:
                        default = a["body"]
                return n, arms, default
    return None, {}, None


def is_err(e):
    e = L.strip_try(e)
    return e.get("k") == "Call" and (declared(e) or "").endswith("::Err")


def _simplify(P):
    """reader paths -> set of (tokens, kind, outcome, guarded) with symbols replaced by token positions"""
    out = []
    for st, v in P.done:
        pos = {}
        toks = []
        for i, t in enumerate(st.tokens):
            if t[0] in ("u8", "i8") or (t[0][:3] in ("u16", "i16", "u32", "i32", "u64", "i64")):
                sy = t[1]
                pos[sy] = i
                c = st.cons.get(sy)
                toks.append((t[0], ("=", c[1]) if c and c[0] == "eq" else (("!=", tuple(sorted(c[1]))) if c else None)))
            elif t[0] == "bytes":
                ln = t[1]
                toks.append(("bytes", ("len@%d" % pos[ln]) if ln in pos else "?"))
            elif t[0] == "call":
                toks.append(("call", t[1]))
            else:
                toks.append((t[0],))

        def val(x, d=0):
            if not isinstance(x, tuple) or d > 6:
                return "?"
            if x[0] == "sym":
                return "tok@%d" % pos.get(x, -1)
            if x[0] in ("ok", "some"):
                return (x[0], val(x[1], d + 1))
            if x[0] in ("none", "unit", "err"):
                return (x[0],)
            if x[0] == "callres":
                return ("result-of", x[1])
            if x[0] == "ctor":
                return ("ctor", x[1].split("::")[-1], tuple(val(y, d + 1) for y in x[2]))
            if x[0] == "utf8":
                return ("utf8", val(x[1], d + 1))
            if x[0] == "vec":
                return ("vec", val(x[1], d + 1))
            if x[0] == "okerr":
                return ("ok", val(x[1], d + 1))
            if x[0] == "payload":
                return val(x[1], d + 1)
            return "?"
        kind = "err" if v[0] == "err" else ("flow" if v[0] in ("continue", "break") else "ok")
        if v[0] == "callres":
            v = ("ok", v)       # a callee's Result returned as is: its Ok payload is the value
        out.append((tuple(toks), kind, (val(v) if kind == "ok" else (v[0],)), bool(st.guards)))
    return out


def reader_grammar(F, rep):
    import readpaths
    from props import C08
    got = {}
    for fn in ("to_utf8", "to_key", "to_val"):
        b = F.body(DE + fn)
        if b is None:
            if fn != "to_key":      # the key reader may be written inline in the map loop
                rep.ob("grammar.reader." + fn, False, DE + fn, "missing", "%s not found" % (DE + fn))
            continue
        try:
            got[fn] = _simplify(readpaths.Paths(F, b, local_prefix=DE))
        except L.Unsupported as e:
            rep.cannot("grammar.reader." + fn, DE + fn, e)
    # to_utf8: u8 length, exactly that many bytes, String::from_utf8 of exactly those bytes
    if "to_utf8" in got:
        oks = set(p for p in got["to_utf8"] if p[1] == "ok")
        errs = set(p[0] for p in got["to_utf8"] if p[1] == "err")
        want_tokens = (("u8", None), ("bytes", "len@0"))
        ok = oks == {(want_tokens, "ok", ("ok", ("utf8", ("vec", "tok@0"))), False)} and errs <= {want_tokens}
        # the bytes read are the bytes converted: nothing else may touch the buffer in between
        b = F.body(DE + "to_utf8")
        val = b["tir"]["value"]
        bufs = [x for x in tir.walk(val) if x.get("k") == "Let" and x["pat"].get("k") == "Bind" and (x["pat"].get("ty") or "").startswith("std::vec::Vec<u8")]
        touched = []
        if len(bufs) == 1:
            bufname = bufs[0]["pat"]["name"]
            rx = [x for x in tir.walk(val) if x.get("k") == "MethodCall" and x["method"] == "read_exact"]
            touched = [n for pl, n in C08.mutations(val) if pl == bufname and not (rx and n.get("k") == "AddrOf" and any(n is strip(a) or n is a for a in rx[0].get("args", [])))
                       and not (n.get("k") == "MethodCall" and n.get("method") in ("as_mut_slice", "as_mut") and rx and any(n is a or n is strip(a) for a in rx[0].get("args", [])))]
        else:
            ok = False
        rep.ob("grammar.reader.utf8", ok and not touched, DE + "to_utf8", "shape", "to_utf8 must be: u8 length, exactly that many bytes, String::from_utf8 of those bytes; paths: %s%s" % (
            sorted(oks)[:3], "; the buffer is modified between the read and the conversion" if touched else ""), sample={"paths": [str(x) for x in sorted(oks)]})
    # one key/value pair of a map: 'U'<utf8> then a value, or '}' to end the map, nothing else — whether the key is read by a
    # helper (to_key) or in the loop of read_map_ itself
    key_want = {((("u8", ("=", 0x55)), ("call", "to_utf8")), "ok", ("ok", ("some", ("result-of", "to_utf8"))), False),
                ((("u8", ("=", 0x7d)),), "ok", ("ok", ("none",)), False),
                ((("u8", ("!=", (0x55, 0x7d))),), "err", ("err",), False)}
    has_key_fn = F.body(DE + "to_key") is not None
    if "to_key" in got:
        have = set(got["to_key"])
        markers = sorted(hex(t[1][1]) for p in have for t in p[0][:1] if t[0] == "u8" and t[1] and t[1][0] == "=" and p[1] == "ok")
        rep.ob("grammar.reader.key", have == key_want, DE + "to_key", "markers", "to_key must accept exactly 'U'<utf8> (key) and '}' (end of map) and reject every other byte; accepted first bytes %s, paths differing: %s" % (
            markers, sorted(str(x) for x in have ^ key_want)[:3]), sample={"key_markers": markers})
    mb = F.body(DE + "read_map_") or F.body(DE + "read_map")
    if mb is not None:
        try:
            it = _simplify(readpaths.Paths(F, mb, local_prefix=DE, loop_iteration=True))
            shapes = set()
            for toks, kind, v, guarded in it:
                # expand a to_key call into the key grammar established above
                if toks[:1] == (("call", "to_key"),):
                    if len(toks) > 1:
                        shapes.add(((("u8", ("=", 0x55)), ("call", "to_utf8")) + toks[1:], kind, v[0] if kind != "ok" else "ok"))
                    else:
                        shapes.add(((("u8", ("=", 0x7d)),), kind, v[0] if kind != "ok" else "ok"))
                else:
                    shapes.add((toks, kind, v[0] if kind != "ok" else "ok"))
            want_iter = {((("u8", ("=", 0x55)), ("call", "to_utf8"), ("call", "to_val")), "flow", "continue")}
            ends = {s_ for s_ in shapes if s_[0] == (("u8", ("=", 0x7d)),)}
            others = shapes - want_iter - ends
            ok = want_iter <= shapes and len(ends) == 1 and all(e[1] in ("flow", "ok") and e[2] in ("break", "ok") for e in ends)
            if not has_key_fn:
                ok = ok and others == {((("u8", ("!=", (0x55, 0x7d))),), "err", "err")}
            else:
                ok = ok and not others
            rep.ob("grammar.reader.pair", ok, mb["path"], "iteration", "each iteration of the map loop must read 'U'<utf8> then one value, or '}' to finish, and reject every other byte; iteration paths: %s" % sorted(str(x) for x in shapes)[:5],
                   sample={"iteration": [str(x) for x in sorted(shapes, key=str)]})
        except L.Unsupported as e:
            rep.cannot("grammar.reader.pair", mb["path"], e)
    if "to_val" in got:
        have = set(got["to_val"])
        oks = set(p for p in have if p[1] == "ok")
        markers = sorted(set(hex(p[0][0][1][1]) for p in oks if p[0] and len(p[0][0]) > 1 and p[0][0][0] == "u8" and isinstance(p[0][0][1], tuple) and p[0][0][1][0] == "="))
        rep.ob("grammar.reader.value-markers", markers == ["0x53", "0x6c", "0x7b"] and ((("u8", ("!=", (0x53, 0x6c, 0x7b))),), "err", ("err",), False) in have, DE + "to_val", "markers",
               "to_val must accept exactly 'S', 'l', '{' and reject every other byte; found %s" % markers, sample={"value_markers": markers})
        s_ok = {p for p in oks if p[0][:1] == (("u8", ("=", 0x53)),)}
        s_all = {p for p in have if p[0][:1] == (("u8", ("=", 0x53)),)}
        want_s = {((("u8", ("=", 0x53)), ("u8", ("=", 0x55)), ("call", "to_utf8")), "ok", ("ok", ("ctor", "String", (("result-of", "to_utf8"),))), False),
                  ((("u8", ("=", 0x53)), ("u8", ("!=", (0x55,)))), "err", ("err",), False)}
        rep.ob("grammar.reader.string", s_all == want_s, DE + "to_val", "S", "string value must be 'S' 'U' <utf8> and nothing else; paths: %s" % sorted(str(x) for x in s_all ^ want_s)[:3])
        l_all = {p for p in have if p[0][:1] == (("u8", ("=", 0x6c)),)}
        want_l = {((("u8", ("=", 0x6c)), ("i32be", None)), "ok", ("ok", ("ctor", "Number", ("tok@1",))), False)}
        rep.ob("grammar.reader.int", l_all == want_l, DE + "to_val", "l", "integer value must be 'l' + i32 big-endian stored unchanged; paths: %s" % sorted(str(x) for x in l_all ^ want_l)[:3])
        m_all = {p for p in have if p[0][:1] == (("u8", ("=", 0x7b)),)}
        m_ok = {p for p in m_all if p[1] == "ok"}
        ok = (len(m_ok) == 1 and all(p[0][1:] in ((("call", "read_map_"),), (("call", "read_map"),)) and p[2][1][:2] == ("ctor", "Object") and p[2][1][2] in ((("result-of", "read_map_"),), (("result-of", "read_map"),)) for p in m_ok)
              and all(p[1] == "err" and p[0] == (("u8", ("=", 0x7b)),) and p[3] for p in m_all - m_ok))
        rep.ob("grammar.reader.map", ok, DE + "to_val", "{", "map value must recurse into read_map after '{' (a depth guard may refuse); paths: %s" % sorted(str(x) for x in m_all)[:3])
    # read_map_: loop { key or end; value; insert in read order }
    b = F.body(DE + "read_map_") or F.body(DE + "read_map")
    ok = False
    if b:
        env = tir.LetEnv(b["tir"]["value"])
        ins = [x for x in tir.walk(b["tir"]["value"]) if x.get("k") == "MethodCall" and (declared(x) or "") == "serde_json::Map::<std::string::String, serde_json::Value>::insert"]
        if len(ins) == 1:
            v = env.resolve(ins[0]["args"][1], peel=True)
            keyed = strip(ins[0]["args"][0]).get("k") == "Path" and strip(ins[0]["args"][0]).get("res") == "local"
            ok = keyed and v.get("k") == "Call" and (declared(v) or "") == DE + "to_val"
    rep.ob("order.reader-insert", ok, DE + "read_map_", "insert", "the reader must insert each (key, value) pair into the map in read order, once")


def writer_grammar(F, rep):
    b = F.body(SER + "write_utf8")
    toks = write_tokens(F, b["tir"]["value"]) if b else []
    sname = b["tir"]["params"][1].get("name") if b else None
    import linear
    len_ok = False
    if len(toks) > 1 and len(toks[1]) > 2:
        try:
            # the length byte is s.len() through value-preserving conversions (lossless on the property's domain: <= 255 bytes)
            f = linear.lin(tir.LetEnv(b["tir"]["value"]).resolve(toks[1][2]))
            len_ok = {k: v for k, v in f.items() if v} == {"%s.len()" % sname: 1}
        except linear.NonLinear:
            len_ok = False
    ok = (len(toks) == 3 and toks[0] == ("byte", 0x55) and toks[1][0] == "u8" and len_ok
          and toks[2] == ("text", sname, "display", True))
    rep.ob("grammar.writer.utf8", ok, SER + "write_utf8", "tokens", "write_utf8 must emit 'U', u8 length of s, the bytes of s; got %s" % (toks,), sample={"tokens": [str(t) for t in toks]})
    b = F.body(SER + "write_map")
    ok_loop = False
    arms = {}
    if b:
        mapname = b["tir"]["params"][1].get("name")
        it = None        # (pair pattern, body)
        for n in tir.walk(b["tir"]["value"]):
            if n.get("k") == "For" and it is None:
                src = strip(n["iter"])
                if src.get("k") == "MethodCall" and src["method"] in ("iter", "into_iter") and not src.get("args"):
                    src = strip(src["recv"])
                ok_loop = tir.place(src) == mapname
                it = (n["pat"], n["body"])
            if n.get("k") == "MethodCall" and n["method"] in ("try_for_each", "for_each") and it is None and len(n["args"]) == 1 and strip(n["args"][0]).get("k") == "Closure":
                src = strip(n["recv"])
                if src.get("k") == "MethodCall" and src["method"] in ("iter", "into_iter") and not src.get("args"):
                    src = strip(src["recv"])
                cl = strip(n["args"][0])
                ok_loop = tir.place(src) == mapname and len(cl["params"]) == 1
                it = (cl["params"][0], cl["body"])
        if it is not None:
            pat, body = it
            bb = L.strip_try(body)
            stmts = [x for x in (bb.get("stmts", []) + [bb.get("tail")]) if x is not None] if bb.get("k") == "Block" else [bb]
            first = write_tokens(F, stmts[0]) if stmts else []
            kname = (pat["pats"][0].get("name") if pat.get("k") == "Tuple" else None)
            vname = (pat["pats"][1].get("name") if pat.get("k") == "Tuple" and len(pat["pats"]) > 1 else None)
            rep.ob("grammar.writer.key", first == [("call", "write_utf8", [kname])], SER + "write_map", "key", "each pair must start with write_utf8(key); got %s" % first)
            for m in tir.walk(body):
                if m.get("k") == "Match" and L.local_name(m["scrut"]) == vname:
                    for a in m["arms"]:
                        p = a["pat"]
                        while p.get("k") == "Ref":
                            p = p["pat"]
                        nm = (p.get("path") or "_").split("::")[-1] if p.get("k") == "TupleStruct" else "_"
                        arms[nm] = (write_tokens(F, a["body"]), a)
                    break
    rep.ob("order.writer-iter", ok_loop, SER + "write_map", "iteration", "the writer must iterate the map itself (insertion order), not a sorted or collected copy")
    s = arms.get("String", ([], None))[0]
    rep.ob("grammar.writer.string", len(s) == 2 and s[0] == ("byte", 0x53) and s[1][:2] == ("call", "write_utf8"), SER + "write_map", "String", "string values must be emitted as 'S' + write_utf8; got %s" % s)
    i = arms.get("Number", ([], None))[0]
    rep.ob("grammar.writer.int", len(i) == 2 and i[0] == ("byte", 0x6c) and i[1][0] == "i32be", SER + "write_map", "Number", "integers must be emitted as 'l' + i32 big-endian; got %s" % i)
    o = arms.get("Object", ([], None))[0]
    rep.ob("grammar.writer.map", len(o) == 3 and o[0] == ("byte", 0x7b) and o[1][:2] == ("call", "write_map") and o[2] == ("byte", 0x7d), SER + "write_map", "Object",
           "nested maps must be emitted as '{' + write_map + '}' by the same function; got %s" % o)
    # informational: writer panics outside the statement's domain
    rep.note("writer sites outside the statement's domain (strings > 255 bytes, non-i32 numbers, arrays/bools/null): try_into().unwrap() in write_utf8/write_map and unimplemented!() in write_map")


def stored_unmodified_rule(F, rep, rule="toplevel.reader-stored"):
    """the metadata slot holds the map read_map returned, itself: parse_metadata binds `ubjson::read_map(..)?` and stores that
    binding as `Some(..)`, with no mutable use of it in between (`get_mut`, `insert`, `remove`, `&mut`, index assignment) — a value
    patched on the way (from the frames parsed so far, the options, ..) differs between a full and a skip-frames read and from the file"""
    b = F.body("io::slippi::de::parse_metadata")
    if b is None:
        rep.ob(rule, False, "io::slippi::de::parse_metadata", "missing", "parse_metadata not found")
        return
    root = b["tir"]["value"]
    env = tir.LetEnv(root)
    src = None
    for n in tir.walk(root):
        if n.get("k") == "Let" and n["pat"].get("k") == "Bind" and n.get("init") is not None:
            i = L.strip_try(n["init"])
            if i.get("k") == "Call" and (declared(i) or "").endswith("ubjson::de::read_map") or (i.get("k") == "Call" and (declared(i) or "").endswith("ubjson::read_map")):
                src = n["pat"]
    stores = [n for n in tir.walk(root) if n.get("k") == "Assign" and (tir.place(n["l"]) or "").endswith("game.metadata")]
    ok = False
    why = "no `let m = ubjson::read_map(..)?` / single store found"
    if src is not None and len(stores) == 1:
        r = strip(stores[0]["r"])
        direct = r.get("k") == "Call" and (declared(r) or "").endswith("Some") and len(r.get("args", [])) == 1 and strip(r["args"][0]).get("k") == "Path" and strip(r["args"][0]).get("id") == src.get("id")
        muts = []
        for x in tir.walk(root):
            if x.get("k") == "MethodCall" and strip(x["recv"]).get("id") == src.get("id") and (x["recv"].get("aty") or "").startswith("&mut"):
                muts.append(x["method"])
            if x.get("k") == "AddrOf" and x.get("mut") and strip(x["e"]).get("id") == src.get("id"):
                muts.append("&mut")
            if x.get("k") in ("Assign", "AssignOp") and any(y.get("k") == "Path" and y.get("id") == src.get("id") for y in tir.walk(x["l"])):
                muts.append("assignment")
        ok = direct and not muts
        why = "stored as %s; mutable uses of the map before it is stored: %s" % (tir.pretty(r)[:60], muts)
    elif src is None and len(stores) == 1:
        # `state.game.metadata = Some(ubjson::read_map(..)?)` without a binding
        r = strip(stores[0]["r"])
        inner = L.strip_try(r["args"][0]) if r.get("k") == "Call" and (declared(r) or "").endswith("Some") and len(r.get("args", [])) == 1 else {}
        ok = inner.get("k") == "Call" and (declared(inner) or "").endswith("read_map")
        why = "stored as %s" % tir.pretty(r)[:60]
    rep.ob(rule, ok, "io::slippi::de::parse_metadata", "stored", "the metadata slot must hold the map read from the stream, unmodified (%s)" % why)


def toplevel_rule(F, rep):
    stored_unmodified_rule(F, rep)
    import model
    ev = model.load_spec("events.json")
    key = ev["metadata_key"]
    # reader: parse_metadata expects key minus the leading 'U'
    b = F.body("io::slippi::de::parse_metadata")
    got = None
    for n in tir.walk(b["tir"]["value"]):
        if n.get("k") == "Call" and (declared(n) or "") == "io::expect_bytes":
            got = F.bytes_of(n["args"][1])
    rep.ob("toplevel.reader-key", got == key[1:], "io::slippi::de::parse_metadata", "key", "parse_metadata must expect %s after the 'U', got %s" % (key[1:], got))
    import slpterm
    try:
        ok, detail = slpterm.check(F)
        rep.ob("toplevel.reader-terminator", bool(ok), "io::slippi::de::read", "terminator",
               "after the raw element read() must accept 'U'+metadata+'}' or a bare '}' (no metadata) and nothing else; " + detail)
    except L.Unsupported as e:
        rep.cannot("toplevel.reader-terminator", "io::slippi::de::read", e)
    # writer
    wb = F.body("io::slippi::ser::write")
    seq = []
    for g, c in flow.ordered_calls(wb["tir"]["value"], lambda n: (callee(n) or "").endswith("Write::write_all") or (callee(n) or "") == SER + "write_map"
                                   or ((declared(n) or "") == "byteorder::WriteBytesExt::write_u8" and tir.lit_int(n["args"][0]) is not None and strip(n["args"][0]).get("k") == "Lit")):
        if (callee(c) or "") == SER + "write_map":
            seq.append(("write_map", tuple(x[1] for x in g)))
        elif (declared(c) or "") == "byteorder::WriteBytesExt::write_u8":
            seq.append(((tir.lit_int(c["args"][0]),), tuple(x[1] for x in g)))      # write_u8(b) is write_all(&[b])
        else:
            bs = F.bytes_of(c["args"][0])
            if bs is not None:
                seq.append((tuple(bs), tuple(x[1] for x in g)))
    tail = seq[-4:]
    guard = "std::prelude::v1::Some(metadata) = game.metadata"
    ok = (len(tail) == 4 and tail[0] == (tuple(key), (guard,)) and tail[1] == ("write_map", (guard,)) and tail[2] == ((0x7d,), (guard,)) and tail[3] == ((0x7d,), ()))
    rep.ob("toplevel.writer", ok, "io::slippi::ser::write", "metadata-element", "the writer must emit U\\x08metadata{ + map + } exactly when metadata is Some, then the top-level }; got %s" % (tail,),
           sample={"tail": [str(t) for t in tail]})


def order_rule(F, rep):
    ext = F.items["ext_adts"]
    m = [e for e in ext if e["path"] == "serde_json::Map"]
    ok = bool(m) and any("indexmap::map::IndexMap" in f["ty"] for f in m[0]["fields"])
    rep.ob("order.indexmap", ok, "serde_json::Map", "representation", "serde_json::Map is not IndexMap-backed in the type-checked program (preserve_order feature off): key order would be lost",
           sample={"map_repr": m[0]["fields"][0]["ty"] if m else None})
    G = reach.Graph(F)
    R = G.reachable(["io::slippi::de::parse_metadata", "io::ubjson::ser::write_map", "io::peppi::de::read_peppi_metadata"])
    ext_calls = G.external_calls(R)
    bad = sorted(c for c in ext_calls if "BTreeMap" in c or "HashMap" in c or c.endswith("::sort") or "sort_" in c.split("::")[-1])
    rep.ob("order.no-resort", not bad, "metadata path", "containers", "metadata passes through an order-destroying container/sort: %s" % bad[:3])


def absence_rule(F, rep):
    # .slpp: writer serialises the Option itself, reader maps null -> None, object -> Some
    b = F.body("io::peppi::de::read_peppi_metadata")
    arms = {}
    for n in tir.walk(b["tir"]["value"]):
        if n.get("k") == "Match":
            for a in n["arms"]:
                p = a["pat"]
                nm = (p.get("path") or (p.get("e") or {}).get("path") or "_").split("::")[-1]
                body = tir.pretty(L.strip_try(a["body"]))
                arms[nm] = body
    ok = "Some(map)" in arms.get("Object", "").replace("std::prelude::v1::", "") and "Ok(" in arms.get("Object", "").replace("std::prelude::v1::", "") and "None" in arms.get("Null", "") and "Ok(" in arms.get("Null", "").replace("std::prelude::v1::", "")
    rep.ob("absence.slpp", ok, "io::peppi::de::read_peppi_metadata", "null", "the .slpp reader must map JSON null to no metadata and an object to Some(map); arms: %s" % sorted(arms))
    # writer side: the Option itself is serialised, so absence is stored as JSON null (not as an empty object)
    ents = {e["name"]: e for e in peppifmt.writer_entries(F)}
    src = peppifmt.payload_source(F, ents["metadata.json"]) if "metadata.json" in ents else None
    rep.ob("absence.slpp-writer", src == ("json", "game.metadata") and not ents["metadata.json"]["guards"], peppifmt.WRITE, "metadata.json",
           "metadata.json must be serde_json::to_vec(&game.metadata) — the Option itself, unconditionally — so that a game without metadata is stored as null; got %s" % (src,))
    arms2, m, loop = peppifmt.reader_arms(F)
    a = arms2.get("metadata.json")
    ok = False
    if a is not None:
        st = L.strip_try(a["body"])
        while st.get("k") == "Block" and not st.get("tail") and len(st.get("stmts", [])) == 1:
            st = L.strip_try(st["stmts"][0].get("e") or {})
        if st.get("k") == "Assign":
            r = L.strip_try(st["r"])
            ok = r.get("k") == "Call" and (declared(r) or "") == "io::peppi::de::read_peppi_metadata" and strip(st["l"]).get("k") == "Path"
    rep.ob("absence.slot", ok, peppifmt.READ, "metadata.json", "the metadata slot must take read_peppi_metadata's Option unchanged")


# ------------------------------------------------------------------------------------------------ writer acceptance
# The reader produces only: strings of <= 255 bytes (u8 length), integers that were an i32, nested maps. The writer must
# accept all of them: every operation in the writer that can reject (Option/Result narrowing consumed by `?`/unwrap, a
# diverging branch) is enumerated and must be domain-exact, i.e. provably succeed on that domain.

STD_CONSTS = {"i32::MAX": 2**31 - 1, "i32::MIN": -2**31, "u8::MAX": 255, "u8::MIN": 0, "i8::MAX": 127, "i8::MIN": -128, "i16::MAX": 2**15 - 1, "i16::MIN": -2**15,
              "u16::MAX": 2**16 - 1, "u32::MAX": 2**32 - 1, "i64::MAX": 2**63 - 1, "i64::MIN": -2**63, "u64::MAX": 2**64 - 1, "usize::MAX": 2**64 - 1}
INT_RANGE = {"i8": (-128, 127), "i16": (-2**15, 2**15 - 1), "i32": (-2**31, 2**31 - 1), "i64": (-2**63, 2**63 - 1), "u8": (0, 255), "u16": (0, 2**16 - 1),
             "u32": (0, 2**32 - 1), "u64": (0, 2**64 - 1), "usize": (0, 2**64 - 1), "isize": (-2**63, 2**63 - 1)}
DOMAIN = {"i64": (-2**31, 2**31 - 1, "metadata integers were read as i32"), "i32": (-2**31, 2**31 - 1, "metadata integers were read as i32"),
          "usize": (0, 255, "string lengths were read from a u8"), "u8": (0, 255, "string lengths were read from a u8")}

import order


class DomainEval(order.Evaluator):
    """E5 evaluator + integer constants (std MIN/MAX, negation, widening casts) and range `contains`"""

    def eval(self, n, env):
        n0 = strip(n)
        k = n0.get("k")
        if k == "Path" and n0.get("res") == "def":
            tail = "::".join((n0.get("path") or "").split("::")[-2:])
            for nm, v in STD_CONSTS.items():
                if (n0.get("path") or "").endswith(nm) or tail.replace("<impl ", "").replace(">", "") == nm:
                    self.consts_seen.add(v)
                    return v
        if k == "Unary" and n0.get("op") == "Neg":
            v = self.eval(n0["e"], env)
            if isinstance(v, int) and not isinstance(v, bool):
                self.consts_seen.add(-v)
                return -v
            raise L.Unsupported(n0, "negation of a non-integer")
        if k == "Unary" and n0.get("op") == "Deref":
            return self.eval(n0["e"], env)
        if k == "AddrOf":
            return self.eval(n0["e"], env)
        if k == "Cast":
            v = self.eval(n0["e"], env)
            r = INT_RANGE.get(n0.get("ty"))
            if isinstance(v, int) and not isinstance(v, bool) and r and r[0] <= v <= r[1]:
                return v   # value-preserving cast
            raise L.Unsupported(n0, "cast that may change the value")
        if k == "MethodCall" and n0["method"] == "len" and not n0.get("args") and ("len:" + tir.place(n0["recv"])) in env:
            return env["len:" + tir.place(n0["recv"])]
        if k == "MethodCall" and n0["method"] == "contains" and (declared(n0) or "").startswith("std::ops::Range"):
            r = strip(n0["recv"])
            x = self.eval(n0["args"][0], env)
            d = declared(r) or r.get("path") or ""
            if r.get("k") == "Call" and d.endswith("RangeInclusive::<Idx>::new"):
                lo, hi = self.eval(r["args"][0], env), self.eval(r["args"][1], env)
                return lo <= x <= hi
            if r.get("k") == "Struct" and (r.get("path") or "").endswith("ops::Range"):
                f = {y["name"]: self.eval(y["e"], env) for y in r["fields"]}
                return f["start"] <= x < f["end"]
            raise L.Unsupported(n0, "contains on a range that is not a literal range expression")
        if k == "Binary" and n0.get("op") in ("Add", "Sub") and not n0.get("overloaded"):
            a, b = self.eval(n0["l"], env), self.eval(n0["r"], env)
            # arithmetic between constants only (bounds such as i32::MIN as i64 - 0); variables would leave the ordering fragment
            if not _mentions_local(n0):
                v = a + b if n0["op"] == "Add" else a - b
                self.consts_seen.add(v)
                return v
        return super().eval(n, env)


def _mentions_local(n):
    return any(x.get("k") == "Path" and x.get("res") == "local" for x in tir.walk(n))


def predicate_holds_on_domain(F, param, body, what):
    """(ok, detail): the closure/condition `body` over one integer local `param` is true on the whole reader domain"""
    ty = (param.get("ty") or "").lstrip("&")
    if ty not in DOMAIN:
        raise L.Unsupported(param, "predicate over a %s (no reader domain known for that type)" % ty)
    lo, hi, why = DOMAIN[ty]
    ev = DomainEval(F)
    ev.eval(body, {param["name"]: lo})     # dry run: collects constants, raises Unsupported outside the fragment
    pts = set()
    for c in list(ev.consts_seen) + [lo, hi, 0]:
        if isinstance(c, int):
            for d in (-1, 0, 1):
                if lo <= c + d <= hi:
                    pts.add(c + d)
    bad = [v for v in sorted(pts) if not ev.eval(body, {param["name"]: v})]
    return (not bad), "%s: predicate evaluated on %d order-type representatives of [%d, %d] (%s)%s" % (
        what, len(pts), lo, hi, why, "; false at %s" % bad[:3] if bad else "")


EMIT_PREFIX = ("byteorder::WriteBytesExt::write_", "std::io::Write::write_", "std::io::Write::flush", SER)
PURE = ("core::str::<impl str>::len", "std::string::String::len", "std::string::String::as_str", "core::str::<impl str>::as_bytes", "std::string::String::as_bytes",
        "std::ops::Deref::deref", "std::clone::Clone::clone", "std::iter::IntoIterator::into_iter", "serde_json::Map::<K, V>::iter", "serde_json::Map::<std::string::String, serde_json::Value>::iter",
        "std::convert::AsRef::as_ref", "std::borrow::Borrow::borrow", "std::prelude::v1::Ok", "std::prelude::v1::Some", "serde_json::Map::<std::string::String, serde_json::Value>::len",
        "std::convert::From::from", "std::convert::Into::into", "std::hint::must_use", "std::iter::Iterator::try_for_each", "std::iter::Iterator::for_each",
        "serde_json::Map::<std::string::String, serde_json::Value>::iter", "serde_json::map::Map::<std::string::String, serde_json::Value>::iter")
ERR_ADAPT = ("ok_or", "ok_or_else", "map_err", "unwrap_or_else", "or_else")
CONSUME = ("unwrap", "expect")


def narrowing_class(c):
    """classify a call by what it can reject: None = cannot reject; ('exact', why) = rejects only outside the reader domain; ('pred', closure); ('unknown', name)"""
    d = declared(c) or ""
    ga = c.get("gargs") or []
    if c.get("k") == "MethodCall" and c["method"] in CONSUME + ERR_ADAPT and ("Option" in d or "Result" in d):
        return None
    if any(d.startswith(p) for p in EMIT_PREFIX) or d in PURE or d.startswith("std::fmt::Arguments") or d.startswith("core::fmt::rt::"):
        return None
    if d == "serde_json::Number::as_i64":
        return ("exact", "Number::as_i64 is None only for numbers that are not an i64; the reader builds numbers from an i32")
    if d in ("std::convert::TryInto::try_into", "std::convert::TryFrom::try_from") and len(ga) >= 2:
        src, dst = (ga[0], ga[1]) if d.endswith("try_into") else (ga[1], ga[0])
        if src in DOMAIN and dst in INT_RANGE and INT_RANGE[dst][0] <= DOMAIN[src][0] and DOMAIN[src][1] <= INT_RANGE[dst][1]:
            return ("exact", "%s -> %s fails only outside [%d, %d]; %s" % (src, dst, INT_RANGE[dst][0], INT_RANGE[dst][1], DOMAIN[src][2]))
        return ("reject", "conversion %s -> %s fails inside the reader domain [%s, %s]" % (src, dst, DOMAIN.get(src, ("?", "?"))[0], DOMAIN.get(src, ("?", "?"))[1]))
    if c.get("k") == "MethodCall" and c["method"] in ("filter", "take_if") and "Option" in d:
        a = strip(c["args"][0])
        if a.get("k") == "Closure" and len(a["params"]) == 1 and a["params"][0].get("k") == "Bind":
            return ("pred", a)
        return ("unknown", d + " with a non-closure predicate")
    if d.startswith("core::panicking::") or d.startswith("std::rt::begin_panic"):
        return ("panic", d)
    if d.endswith("::Err"):
        return ("err", d)
    return ("unknown", d)


def writer_domain_rule(F, rep):
    n_exact = n_pred = 0
    for fn in (SER + "write_utf8", SER + "write_map"):
        b = F.body(fn)
        if b is None:
            continue
        root = b["tir"]["value"]
        par = safety_parents(root)
        skip = set()
        for n in tir.walk(root):
            # the closures that only build the error value of an adaptor, and format_args plumbing, cannot change acceptance
            if n.get("k") == "MethodCall" and n["method"] in ERR_ADAPT:
                for a in n.get("args", []):
                    for x in tir.walk(a):
                        skip.add(id(x))
            # the error value handed to Err(..), and the body of a predicate closure (evaluated as a whole below)
            if n.get("k") == "Call" and (declared(n) or "").endswith("::Err"):
                for a in n.get("args", []):
                    for x in tir.walk(a):
                        skip.add(id(x))
            if n.get("k") == "MethodCall" and (narrowing_class(n) or ("",))[0] == "pred":
                for x in tir.walk(strip(n["args"][0])["body"]):
                    skip.add(id(x))
        for n in tir.walk(root):
            if id(n) in skip:
                continue
            k = n.get("k")
            if k in ("Call", "MethodCall"):
                if tir.in_macro(n, "write", "format", "format_args") and not (n.get("k") == "MethodCall" and n["method"] == "write_fmt"):
                    continue
                cls = narrowing_class(n)
                if cls is None:
                    continue
                kind, info = cls
                if kind == "exact":
                    n_exact += 1
                    rep.ob("writer.accepts", True, fn, declared(n), sample={"site": tir.sp(n), "why": info})
                elif kind == "pred":
                    n_pred += 1
                    try:
                        ok, detail = predicate_holds_on_domain(F, info["params"][0], info["body"], "%s(..) at %s" % (n["method"], tir.sp(n)))
                        rep.ob("writer.accepts", ok, fn, n["method"], "the writer rejects a value the reader produces — " + detail, tir.sp(n), sample={"site": tir.sp(n), "why": detail})
                        n_exact += 1 if ok else 0
                    except L.Unsupported as e:
                        rep.cannot("writer.accepts", fn, e)
                elif kind == "reject":
                    rep.ob("writer.accepts", False, fn, declared(n), "the writer rejects a value the reader produces — " + info, tir.sp(n))
                elif kind in ("panic", "err"):
                    # a diverging construct: must sit in a match arm / branch that the reader domain never takes
                    ok, detail = diverging_site_unreachable(F, n, par)
                    n_exact += 1 if ok else 0
                    rep.ob("writer.accepts", ok, fn, kind, "the writer fails (%s) on %s" % (info, detail), tir.sp(n), sample={"site": tir.sp(n), "why": detail})
                else:
                    rep.cannot("writer.accepts", fn, L.Unsupported(n, "call in the metadata writer whose rejection behaviour is unknown: %s" % info))
    rep.floor("rejecting steps of the metadata writer decided against the reader domain", n_exact, 3)


def safety_parents(root):
    import safety
    return safety.parents(root)


def diverging_site_unreachable(F, n, par):
    """a panic/Err construct is acceptable only in a wildcard arm of the match on the value kind that has String, Number and Object arms,
    or under a branch condition that is false on the reader domain"""
    a, child = par.get(id(n)), n
    while a is not None:
        if a.get("k") == "Match" and "serde_json::Value" in (strip(a["scrut"]).get("ty") or ""):
            kinds = set()
            mine = None
            for arm in a["arms"]:
                p = arm["pat"]
                nm = (p.get("path") or "_").split("::")[-1] if p.get("k") in ("TupleStruct", "Path", "Struct") else ("_" if p.get("k") in ("Wild", "Bind") else "?")
                kinds.add(nm)
                if any(x is n for x in tir.walk(arm["body"])):
                    mine = nm
            if mine == "_" and {"String", "Number", "Object"} <= kinds:
                return True, "only for value kinds other than String/Number/Object, which the reader never builds"
            if mine in ("Null", "Bool", "Array"):
                return True, "only for %s values, which the reader never builds" % mine
            return False, "a %s value, which the reader does build" % mine
        if a.get("k") == "If":
            in_then = any(x is n for x in tir.walk(a["then"]))
            cond = a["cond"]
            locs = {}
            under_len = set()
            for x in tir.walk(cond):
                if x.get("k") == "MethodCall" and x["method"] == "len" and not x.get("args") and (declared(x) or "") in PURE:
                    locs["len:" + tir.place(x["recv"])] = {"ty": "usize"}
                    under_len.update(id(y) for y in tir.walk(x["recv"]))
            for x in tir.walk(cond):
                if x.get("k") == "Path" and x.get("res") == "local" and id(x) not in under_len:
                    locs[x["name"]] = x
            if len(locs) == 1:
                nm, node = next(iter(locs.items()))
                try:
                    neg = {"k": "Unary", "op": "Not", "ty": "bool", "e": cond} if in_then else cond
                    ok, detail = predicate_holds_on_domain(F, {"name": nm, "ty": node.get("ty")}, neg, "branch at %s" % tir.sp(a))
                    return ok, ("a branch never taken on the reader domain — " if ok else "a branch taken for reader-produced values — ") + detail
                except L.Unsupported as e:
                    return False, "a branch whose condition is outside the decidable fragment (%s)" % e
            return False, "a branch whose condition is outside the decidable fragment"
        child, a = a, par.get(id(a))
    return False, "every call (unconditional)"


def run(F, rep, tier):
    reader_grammar(F, rep)
    writer_grammar(F, rep)
    writer_domain_rule(F, rep)
    toplevel_rule(F, rep)
    # the tree is read from the stream itself: no adapter bounds (take) or extends what the UBJSON reader can see
    import streamid
    streamid.slp_rule(F, rep, 'reader.stream')
    order_rule(F, rep)
    absence_rule(F, rep)
    rep.control("token extractor sees marker bytes", write_tokens(F, F.body(SER + "write_utf8")["tir"]["value"])[0] == ("byte", 0x55))
    rep.trusted += ["serde_json::Map with preserve_order iterates in insertion order; serde_json to_vec/from_reader preserve object order with that feature",
                    "String::from_utf8 / Display for str are byte-preserving for valid UTF-8"]
    rep.not_decided.append("byte equality for all trees (recursion over data) — decided are the marker/width/endianness tables, nesting discipline and ordering containers")
    return rep.finish("other",
                      "The reader's accepted grammar (key: 'U' len:u8 bytes | '}'; value: 'S' 'U' len:u8 bytes | 'l' i32-BE | '{' map) is extracted from the literal match arms and the reads "
                      "that follow them and compared with the writer's emitted token sequences; the top-level metadata element is compared as literal byte strings on both sides and is "
                      "emitted/accepted exactly when metadata is present; serde_json::Map is IndexMap-backed in the type-checked program, the reader inserts in read order and the writer "
                      "iterates the map itself; the .slpp copy maps null to absence.",
                      "./check C16 --tier " + tier)
