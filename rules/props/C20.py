"""C20 — version comparison, parsing and display are mutually consistent and total.
E5 decides gte/lt over the ordering domain; E6 decodes Display's format template; a dataflow rule checks FromStr."""
import fmtspec
import layout as L
import order
import tir
from tir import strip, declared

VERSIONS = ["io::slippi::Version", "io::peppi::Version"]


def display_rule(F, rep, ty):
    fn = "<%s as std::fmt::Display>::fmt" % ty
    b = F.body(fn)
    if b is None:
        rep.ob("E6.display", False, fn, "missing", "no Display impl for %s" % ty)
        return None
    pieces = fmtspec.format_pieces(b["tir"]["value"])
    if pieces is None:
        rep.cannot("E6.display", fn, L.Unsupported(b["tir"]["value"], "no format_args! found"))
        return None
    env = tir.LetEnv(b["tir"]["value"])
    shape = [(k, v if k == "lit" else (env.place(v.get("expr") or {}, peel=False), v.get("trait"), fmtspec.is_default_spec(v))) for k, v in pieces]
    want = [("arg", ("self.0", "display", True)), ("lit", "."), ("arg", ("self.1", "display", True)), ("lit", "."), ("arg", ("self.2", "display", True))]
    rep.ob("E6.display", shape == want, fn, "format", "%s Display renders %s, want `{self.0}.{self.1}.{self.2}` with default specs" % (ty, shape),
           sample={"type": ty, "pieces": [str(s) for s in shape]})
    # the value must reach the formatter's write_fmt unconditionally (single expression body)
    body = L.strip_try(b["tir"]["value"])
    if body.get("k") == "Block" and body.get("tail") is not None and all(s.get("k") == "Let" and not s.get("els") and s["pat"].get("k") in ("Bind", "TupleStruct", "Struct", "Tuple")
                                                                      and tir.place(s.get("init") or {}) is not None for s in body.get("stmts", [])):
        body = L.strip_try(body["tail"])      # irrefutable destructurings of places before the write
    ok = body.get("k") == "MethodCall" and body.get("method") == "write_fmt"
    rep.ob("E6.display.uncond", ok, fn, "body", "%s Display body is not a single write!() of the three components" % ty)
    return shape


def fromstr_rule(F, rep, ty):
    fn = "<%s as std::str::FromStr>::from_str" % ty
    b = F.body(fn)
    if b is None:
        rep.ob("FromStr", False, fn, "missing", "no FromStr impl for %s" % ty)
        return
    sname = b["tir"]["params"][0].get("name")
    val = L.strip_try(b["tir"]["value"])
    stmts = val.get("stmts", []) if val.get("k") == "Block" else []
    tail = L.strip_try(val.get("tail") or {}) if val.get("k") == "Block" else val
    # let i = s.split('.')
    it = None
    for s in stmts:
        if s.get("k") == "Let" and s["pat"].get("k") == "Bind":
            i = strip(s["init"])
            if i.get("k") == "MethodCall" and i["method"] == "split" and (declared(i) or "").endswith("str::<impl str>::split") and L.local_name(i["recv"]) == sname:
                a = strip(i["args"][0])
                if a.get("k") == "Lit" and a.get("lit") == "char" and a["v"] == ord("."):
                    it = s["pat"]["name"]
                elif a.get("k") == "Lit" and a.get("lit") == "str" and a["v"] == ".":
                    it = s["pat"]["name"]
    root = b["tir"]["value"]
    env0 = tir.LetEnv(root)

    def is_split_collect(e):
        """`s.split('.').collect::<Vec<_>>()` (viewed as a slice): every piece of the input, in order"""
        e = env0.resolve(e)
        if e.get("k") == "MethodCall" and e["method"] == "collect" and not e.get("args"):
            sp_ = env0.resolve(e["recv"])
            if sp_.get("k") == "MethodCall" and sp_["method"] == "split" and (declared(sp_) or "").endswith("str::<impl str>::split") and L.local_name(sp_["recv"]) == sname:
                a = strip(sp_["args"][0])
                return (a.get("k") == "Lit" and a.get("lit") == "char" and a["v"] == ord(".")) or (a.get("k") == "Lit" and a.get("lit") == "str" and a["v"] == ".")
        return False

    def slice3(p):
        """binding ids of a slice pattern that matches exactly three elements"""
        while p.get("k") == "Ref":
            p = p["pat"]
        if p.get("k") == "Slice" and len(p.get("before", []) or []) == 3 and not p.get("mid") and not (p.get("after") or []) and all(q.get("k") == "Bind" for q in p["before"]):
            return [q["id"] for q in p["before"]]
        return None
    slice_form = None
    for x in tir.walk(root):
        if x.get("k") == "Match" and is_split_collect(x["scrut"]):
            slice_form = ("match", x)
        elif x.get("k") == "Let" and x.get("els") is not None and is_split_collect(x.get("init") or {}):
            slice_form = ("let", x)
    rep.ob("FromStr.split", it is not None or slice_form is not None, fn, "split", "%s::from_str does not split its input on '.'" % ty)
    if it is None and slice_form is None:
        return
    lets = {x["pat"]["id"]: x for x in tir.walk(root) if x.get("k") == "Let" and x["pat"].get("k") == "Bind" and x.get("init") is not None}

    def is_err(e):
        e = L.strip_try(e)
        if e.get("k") == "Ret":
            e = L.strip_try(e.get("e") or {})
        if e.get("k") == "Block" and not e.get("tail") and len(e.get("stmts", [])) == 1:
            return is_err(e["stmts"][0].get("e") or {})
        return e.get("k") == "Call" and (declared(e) or "").endswith("Err")

    def is_next_tuple(e):
        e = strip(e)
        el = e.get("elems", []) if e.get("k") == "Tup" else []
        return len(el) if el and all(strip(x).get("k") == "MethodCall" and strip(x)["method"] == "next" and L.local_name(strip(x)["recv"]) == it for x in el) else 0

    def shape(p):
        """(kinds, names) of a 4-tuple pattern of Some(bind)/None"""
        if p.get("k") != "Tuple":
            return None, None
        kinds, names = [], []
        for q in p["pats"]:
            if q.get("k") == "TupleStruct" and (q.get("path") or "").endswith("Some") and q["pats"][0].get("k") == "Bind":
                kinds.append("Some")
                names.append(q["pats"][0]["id"])
            elif (q.get("k") == "Lit" and (q["e"].get("path") or "").endswith("None")) or (q.get("k") == "Path" and (q.get("path") or "").endswith("None")):
                kinds.append("None")
            else:
                kinds.append("?")
        return kinds, names

    def is_err(e):
        e = L.strip_try(e)
        if e.get("k") == "Ret":
            e = L.strip_try(e.get("e") or {})
        if e.get("k") == "Block" and not e.get("tail") and len(e.get("stmts", [])) == 1:
            return is_err(e["stmts"][0].get("e") or {})
        return e.get("k") == "Call" and (declared(e) or "").endswith("Err")

    n_next = 0
    names = None
    accept = None          # the expression evaluated when the shape matches
    other_err = True
    rejects = []           # bodies taken when the shape does not match
    if slice_form is not None:
        kind, x = slice_form
        n_next = 4           # exactly three pieces: the same condition as (Some, Some, Some, None) on successive next() calls
        if kind == "match":
            for a in x["arms"]:
                ids = slice3(a["pat"])
                if ids and not a.get("guard"):
                    names, accept = ids, a["body"]
                else:
                    rejects.append(a["body"])
                    if not is_err(a["body"]):
                        other_err = False
        else:
            ids = slice3(x["pat"])
            if ids:
                names, accept = ids, root
            rejects.append(x["els"])
            if not is_err(x["els"]):
                other_err = False
    for x in (tir.walk(root) if slice_form is None else []):
        if x.get("k") == "Match" and is_next_tuple(x["scrut"]):
            n_next = is_next_tuple(x["scrut"])
            for a in x["arms"]:
                kinds, nm = shape(a["pat"])
                if kinds == ["Some", "Some", "Some", "None"] and not a.get("guard"):
                    names, accept = nm, a["body"]
                else:
                    rejects.append(a["body"])
                    if not is_err(a["body"]):
                        other_err = False
        elif x.get("k") == "Let" and x.get("els") is not None and is_next_tuple(x.get("init") or {}):
            n_next = is_next_tuple(x["init"])
            kinds, nm = shape(x["pat"])
            if kinds == ["Some", "Some", "Some", "None"]:
                names = nm
                accept = root        # the rest of the function
            rejects.append(x["els"])
            if not is_err(x["els"]):
                other_err = False
    if not n_next:
        rep.cannot("FromStr.shape", fn, L.Unsupported(root, "no inspection of successive next() results found"))
        return
    rep.ob("FromStr.shape", n_next == 4, fn, "scrutinee", "%s::from_str must inspect exactly four successive next() results (got %d)" % (ty, n_next))
    rep.ob("FromStr.reject", other_err, fn, "other-arms", "%s::from_str: a shape other than (Some,Some,Some,None) does not return Err" % ty)
    if accept is None:
        rep.ob("FromStr.accept", False, fn, "accept-arm", "%s::from_str has no (Some, Some, Some, None) case" % ty)
        return
    # "strings that ARE three integers in 0..255 parse": no refusal other than the shape mismatch and a component that is not a u8
    in_reject = set(id(y) for r_ in rejects for y in tir.walk(r_))
    extra = []
    for x in tir.walk(root):
        if id(x) in in_reject:
            continue
        if x.get("k") == "Ret":
            extra.append(x)
        elif x.get("k") == "Call" and (declared(x) or "").endswith("::Err"):
            extra.append(x)
        elif x.get("k") == "Try":
            y = L.strip_try(x)
            parse = (y.get("k") == "Call" and (declared(y) or "") == "io::parse_u8") or (y.get("k") == "MethodCall" and y["method"] == "parse" and (y.get("gargs") or [None])[0] == "u8")
            if not parse:
                extra.append(x)
        elif x.get("k") in ("MethodCall", "Call") and not tir.in_macro(x, "err", "format", "write") and (declared(x) or "").split("::")[-1] in ("unwrap", "expect", "panic", "unreachable"):
            extra.append(x)
    rep.ob("FromStr.no-extra-refusal", not extra, fn, "refusals", "%s::from_str can fail outside the shape test and the component parses (%s): a well-formed version string could be rejected" % (
        ty, "; ".join("%s at %s" % (x.get("k"), tir.sp(x)) for x in extra[:3])))

    def component(x, depth=0):
        """binding id of the string a Version component is parsed from (through `?` and let-bound intermediates)"""
        is_try = x.get("k") == "Try"
        y = L.strip_try(x)
        if y.get("k") == "Path" and y.get("res") == "local" and y.get("id") in lets and depth < 3:
            return component(lets[y["id"]]["init"], depth + 1)
        if is_try and y.get("k") == "Call" and (declared(y) or "") == "io::parse_u8":
            return strip(y["args"][0]).get("id")
        if is_try and y.get("k") == "MethodCall" and y["method"] == "parse" and (y.get("gargs") or [None])[0] == "u8":
            return strip(y["recv"]).get("id")
        return None

    good = False
    detail = "no Ok(%s(..)) found" % ty.split("::")[-1]
    for c in tir.walk(accept):
        if c.get("k") == "Call" and (declared(c) or "").endswith("Ok") and len(c["args"]) == 1:
            ctor = strip(c["args"][0])
            if ctor.get("k") == "Call" and ((declared(ctor) or "") == ty or (ctor.get("res") == "selfctor" and (ctor.get("ty") or "") == ty)) and len(ctor["args"]) == 3:
                comps = [component(a) for a in ctor["args"]]
                good = comps == names
                detail = "components parsed from bindings %s, pattern bindings %s" % (comps, names)
    rep.ob("FromStr.accept", good, fn, "accept-arm", "%s::from_str must build Version(parse(a)?, parse(b)?, parse(c)?) in order: %s" % (ty, detail),
           sample={"type": ty, "accept": detail})


def parse_u8_rule(F, rep):
    fn = "io::parse_u8"
    b = F.body(fn)
    if b is None:
        rep.ob("FromStr.parse_u8", False, fn, "missing", "parse_u8 not found")
        return
    body = L.strip_try(b["tir"]["value"])
    ok = False
    sname = b["tir"]["params"][0].get("name")

    def is_parse(r):
        r = strip(r)
        return r.get("k") == "MethodCall" and r["method"] == "parse" and (declared(r) or "").endswith("str::<impl str>::parse") and (r.get("gargs") or [None])[0] == "u8" and L.local_name(r["recv"]) == sname
    if body.get("k") == "MethodCall" and body["method"] in ("map_err", "or_else") and is_parse(body["recv"]):
        ok = True
    elif body.get("k") == "Match" and is_parse(body["scrut"]) and len(body["arms"]) == 2:
        good = 0
        for a in body["arms"]:
            p, e = a["pat"], L.strip_try(a["body"])
            if p.get("k") == "TupleStruct" and (p.get("path") or "").endswith("Ok") and p["pats"][0].get("k") == "Bind":
                good += e.get("k") == "Call" and (declared(e) or "").endswith("Ok") and strip(e["args"][0]).get("id") == p["pats"][0]["id"]
            elif p.get("k") == "TupleStruct" and (p.get("path") or "").endswith("Err"):
                good += e.get("k") == "Call" and (declared(e) or "").endswith("Err")
        ok = good == 2
    rep.ob("FromStr.parse_u8", ok, fn, "body", "parse_u8 must be `s.parse::<u8>()` on the unmodified component with the error mapped, got %s" % tir.pretty(body)[:160])


def totality_rule(F, rep):
    """`total`: no panic-capable site is reachable from parsing, display or comparison of either Version type."""
    import reach
    import safety
    G = reach.Graph(F)
    entries = []
    for ty in VERSIONS:
        entries += ["<%s as std::str::FromStr>::from_str" % ty, "<%s as std::fmt::Display>::fmt" % ty]
    entries += [order.GTE, order.LT]
    present = [e for e in entries if e in G.local]
    rep.floor("Version entry points with MIR", len(present), 6)
    R, _ = safety.panic_inventory(F, G, rep, present, "c20_invariants.json", rule="total")
    rep.floor("functions reachable from Version parse/display/compare", len(R), 7)
    # the inventory is expected to be empty here, so show the site recogniser is live on a body that does index
    somewhere = sum(len(G.sites(o)) for o in G.local if o.startswith("io::slippi::de::"))
    rep.control("the site recogniser sees panic-capable sites elsewhere in the crate", somewhere > 0)
    rep.control("a str/slice index call is in the panic-by-contract table", any(rx.search("std::ops::Index::index") for rx, _, _ in reach.CONTRACT))
    return G, present


def run(F, rep, tier):
    order.rule_gte(F, rep)
    G, present = totality_rule(F, rep)
    n = 0
    shapes = []
    for ty in VERSIONS:
        st = F.structs.get(ty)
        rep.ob("Version.shape", bool(st) and [f["ty"] for f in st["fields"]] == ["u8", "u8", "u8"], ty, "fields", "%s is not a (u8, u8, u8) tuple struct" % ty)
        shapes.append(display_rule(F, rep, ty))
        fromstr_rule(F, rep, ty)
        n += 1
    rep.floor("Version types", n, 2)
    parse_u8_rule(F, rep)
    rep.ob("sibling.display", shapes[0] == shapes[1], "Display", "siblings", "the two Version types render differently: %s vs %s" % (shapes[0], shapes[1]))
    # every version gate in the crate uses gte/lt with literal thresholds (monotone gates)
    gates = 0
    for b in F.fn_bodies():
        if b["path"] in (order.GTE, order.LT):
            continue
        for x in tir.walk(b["tir"]["value"]):
            if x.get("k") == "MethodCall" and (declared(x) or "") in (order.GTE, order.LT):
                gates += 1   # every gate goes through gte/lt, so it is monotone once gte is decided (thresholds need not be literals)
    rep.floor("version gates in the crate", gates, 80)
    # positive control: a strict comparison must be rejected by E5
    import common
    ev = order.Evaluator(F)
    r2 = common.Report("ctl", "quick")
    order.decide(F, r2, "ctl", order.GTE, [3, 1, 1], lambda v, M, m: (v[0], v[1]) > (M, m))
    rep.control("E5 distinguishes >= from >", bool(r2.violations))
    fake = fmtspec.decode_template([0xC0, 1, 46, 0xC8, 2, 0, 1, 46, 0xC8, 1, 0, 0])
    rep.control("E6 sees a permuted argument order", [p[1].get("index") for p in fake if p[0] == "arg"] == [0, 2, 1])
    rep.trusted += ["u8: Display and u8: FromStr are mutually inverse (std)", "str::split yields the maximal substrings between separators (std)",
                    "core::fmt template encoding as documented in library/core/src/fmt/mod.rs of the pinned nightly"]
    rep.not_decided.append("rejection of every malformed string follows from the four-next() shape + u8::from_str's own rejection (trusted)")
    return rep.finish("proof",
                      "Version::gte/lt are evaluated on representatives of every order type of (major, minor, patch, M, m) and compared with lexicographic >= and its negation "
                      "(small-model argument: the predicates use comparisons only, enforced by the evaluator's fragment). Display's lowered format template is decoded to "
                      "`{0}.{1}.{2}` with default specs on self.0/1/2; FromStr splits on '.', accepts exactly the (Some,Some,Some,None) shape of four next() calls and builds "
                      "Version(parse_u8(a)?, parse_u8(b)?, parse_u8(c)?) in order, every other arm being Err; the two Version types are compared clause by clause.",
                      "./check C20 --tier " + tier)
