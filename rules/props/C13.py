"""C13 — the per-frame row view equals the columnar data at the same index (proof): L3 identity wiring over both
transpose_one families, the hand-written containers, and the two Game::frame forwarders."""
import copy

import layout as L
import model
import tir
from tir import declared, strip

CONTAINERS = ["Data", "PortData", "Frame"]


def container_rule(F, rep, M, fams=("mutable", "immutable")):
    frame_wc = L.x_with_capacity(F.body("frame::mutable::Frame::with_capacity"))
    gates = {}
    for it in frame_wc:
        if it[0] == "gate":
            for l in L.tree_leaves(it[2]):
                gates[l["field"]] = it[1]
    n = 0
    for fam in fams:
        for c in CONTAINERS:
            fn = "frame::%s::%s::transpose_one" % (fam, c)
            b = F.body(fn)
            if b is None:
                rep.ob("L3.container", False, fn, "missing", "row view %s not found" % fn)
                continue
            n += 1
            try:
                leaves = list(L.tree_leaves(L.x_transpose(b)))
            except L.Unsupported as e:
                rep.cannot("L3.container", fn, e)
                continue
            tst = F.structs.get("frame::transpose::" + c)
            want = [f["name"] for f in tst["fields"]]
            rep.ob("L3.fields", sorted(l["field"] for l in leaves) == sorted(want), fn, "fields", "%s initialises %s, row struct has %s" % (fn, [l["field"] for l in leaves], want))
            for l in leaves:
                f = l["field"]
                srcf = (l.get("src") or "").split(".")
                want_src = {"items": "item"}.get(f, f)
                ok = len(srcf) == 2 and srcf[0] == "self" and srcf[1] == want_src
                rep.ob("L3.identity", ok, fn, f, "%s: row field `%s` is wired to `%s`" % (fn, f, l.get("src")), l.get("sp", ""), sample={"fn": fn, "field": f, "src": l.get("src")})
                if l["kind"] == "items":
                    rep.ob("L3.items", l.get("exact") and l.get("offsets") == "self.item_offset", fn, "items",
                           "%s: items must be (start..end) of self.item_offset.start_end(i) mapped through self.item.transpose_one(j, version)" % fn, l.get("sp", ""))
                if c == "Frame" and f in ("start", "end", "items"):
                    colf = {"items": "item"}.get(f, f)
                    g = l.get("gate")
                    wg = gates.get(colf)
                    same = g is not None and wg is not None and all(L.feval(g, v) == L.feval(wg, v) for v in M.classes)
                    rep.ob("L3.gate", same, fn, f + ".gate", "%s: row field `%s` is present under %s but the column exists under %s" % (
                        fn, f, L.fstr(g) if g else "no gate", L.fstr(wg) if wg else "no gate"), l.get("sp", ""))
                if c == "PortData" and f == "follower":
                    rep.ob("L3.optional", bool(l.get("opt")), fn, "follower.opt", "%s: follower must be mapped through the Option" % fn)
    rep.floor("container row views", n, 3 * len(fams))


def forwarders(F, rep):
    for fn, frames, ver in (("<game::immutable::Game as game::Game>::frame", "self.frames", "self.start.slippi.version"),
                            ("<io::slippi::de::ParseState as game::Game>::frame", "self.game.frames", "self.game.start.slippi.version")):
        b = F.body(fn)
        if b is None:
            rep.ob("L3.forward", False, fn, "missing", "%s not found" % fn)
            continue
        idx = [p.get("name") for p in b["tir"]["params"] if p.get("ty") == "usize"]
        body = L.strip_try(b["tir"]["value"])
        ok = (body.get("k") == "MethodCall" and body["method"] == "transpose_one" and tir.place(body["recv"]) == frames and len(body["args"]) == 2
              and idx and L.local_name(body["args"][0]) == idx[0] and tir.place(body["args"][1]) == ver)
        rep.ob("L3.forward", ok, fn, "forward", "%s must forward (idx, start.slippi.version) unchanged to frames.transpose_one, got %s" % (fn, tir.pretty(body)[:160]),
               sample={"fn": fn, "body": tir.pretty(body)[:120]})


def run(F, rep, tier):
    M = model.Model(F, rep, want=("m_transpose", "i_transpose", "with_capacity"))
    n = len([s for s in model.GEN for k in ("m_transpose", "i_transpose") if M.has(s, k)])
    rep.floor("generated row views", n, 22)
    model.rule_L3(rep, M, sibs=("m_transpose", "i_transpose"))
    container_rule(F, rep, M)
    forwarders(F, rep)
    # optional row fields are absent exactly when the column is None: column None <=> version below its gate (with_capacity)
    model.rule_gate_consistent(rep, M, sibs=(), rule="G")
    # positive control: cross two same-typed fields in one family
    import common
    M2 = copy.copy(M)
    M2.trees = dict(M.trees)
    t = copy.deepcopy(M.trees[("Pre", "i_transpose")])
    ls = [l for l in L.tree_leaves(t)]
    a = [l for l in ls if l["field"] == "joystick"][0]
    b = [l for l in ls if l["field"] == "cstick"][0]
    a["src"], b["src"] = b["src"], a["src"]
    M2.trees[("Pre", "i_transpose")] = t
    r2 = common.Report("ctl", "quick")
    model.rule_L3(r2, M2, sibs=("i_transpose",), structs=["Pre"])
    rep.control("L3 fires when joystick/cstick are crossed in immutable Pre::transpose_one", len(r2.violations) == 2)
    rep.trusted += ["arrow2 PrimitiveArray::values()[i] / value(i) return element i", "arrow2 Offsets::start_end(i) = (offsets[i], offsets[i+1])"]
    return rep.finish("proof",
                      "For both transpose_one families (11 generated structs x {mutable, immutable} + Data/PortData/Frame x 2) every field of the row struct (field list from the "
                      "item table) is initialised from the column of the same name of self, read at the unmodified row parameter, wrapped in Option::map exactly for Option "
                      "columns; Frame's start/end/items are present under the same gates under which Frame::with_capacity creates the columns; items are (start..end) of "
                      "item_offset.start_end(i) mapped through item.transpose_one; both Game::frame implementations forward idx and the game's own version unchanged.",
                      "./check C13 --tier " + tier)
