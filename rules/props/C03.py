"""C03 — every decoded frame field equals the bytes at its spec offset for the version (proof).
Rules: H (headers), L6 (spec offsets), L7 (big-endian), read.exact, presence, L2/G (presence consistency),
E5 (the gate predicate), version/cursor plumbing in parse_event, frames.json cross-reference."""
import copy

import events
import layout as L
import model
import order
import tir


def headers_rule(F, rep, M):
    b, m, arms = events.find_dispatch(F)
    rep.floor("parse_event dispatch arms", len(arms), 10)
    spec = M.spec
    hdrs = {}
    n_frame_arms = 0
    for ev, s in events.FRAME_EVENTS.items():
        arm = arms.get(ev)
        if arm is None:
            rep.ob("H.arm", False, events.PARSE_EVENT, ev, "no dispatch arm for event %s" % ev)
            continue
        n_frame_arms += 1
        info = events.analyse_arm(ev, arm)
        fn = events.PARSE_EVENT + "#" + ev
        got = [(h["ty"], h["endian"]) for h in info["header"]]
        want = [(f["ty"], "BigEndian" if L.WIDTH[f["ty"]] > 1 else None) for f in spec[s]["header"]]
        rep.ob("H.header", got == want, fn, "header", "%s arm strips header %s before the generated reader, spec header is %s" % (ev, got, want),
               sample={"event": ev, "header": got})
        hdrs[s] = [h["ty"] for h in info["header"]]
        rep.ob("H.cursor", info["cursor"] is not None and not info["problems"], fn, "cursor",
               "%s arm: payload cursor is not `&mut &*buf` positioned at byte 0, or has stray reads: %s" % (ev, info["problems"]))
        rep.ob("H.readers", len(info["readers"]) >= 1 and all(r["struct"] == s for r in info["readers"]), fn, "reader",
               "%s arm must decode with %s::read_push, found %s" % (ev, s, [r["struct"] for r in info["readers"]]))
        for r in info["readers"]:
            rep.ob("H.reader-args", r["cursor_ok"] and r["version"] == events.VERSION_PLACE, fn, "reader-args",
                   "%s arm passes cursor_ok=%s version=%s to read_push (want the payload cursor and the file's own version %s)" % (
                       ev, r["cursor_ok"], r["version"], events.VERSION_PLACE), r["sp"])
    rep.floor("frame-event arms that read a frame id", n_frame_arms, 5)
    return hdrs


def buffer_rule(F, rep):
    """the buffer handed to the generated readers has the table-declared size and is filled by read_exact"""
    d = events.payload_buffer(F, events.PARSE_EVENT)
    rep.ob("H.buffer", d["ok"], events.PARSE_EVENT, "buffer", "payload buffer must be vec![0; payload_sizes[code]] filled by read_exact: %s" % "; ".join(d["problems"]), sample={"table": d["table"]})


def controls(rep, M, hdrs):
    """positive controls: the rules must fire on perturbed copies of the extracted trees"""
    import common
    # 1. swap two reads in Post::read_push -> L6 must fire
    M2 = copy.copy(M)
    M2.trees = dict(M.trees)
    t = copy.deepcopy(M.trees[("Post", "read_push")])
    leaves = [i for i, it in enumerate(t) if it[0] == "leaf" and it[1].get("op") == "read"]
    t[leaves[0]], t[leaves[1]] = t[leaves[1]], t[leaves[0]]
    M2.trees[("Post", "read_push")] = t
    r2 = common.Report("ctl", "quick")
    model.rule_L6(r2, M2, hdrs)
    rep.control("L6 fires when two Post fields are swapped", bool(r2.violations))
    # 2. move a gate by one minor version -> L6 must fire
    M3 = copy.copy(M)
    M3.trees = dict(M.trees)
    ths = sorted(t for t in L.tree_thresholds(M.trees[("Pre", "read_push")]) if t < (3, 16))
    target = ths[-1] if ths else None

    def bump(items):
        out = []
        for it in items:
            if it[0] == "gate":
                def bf(f):
                    if f[0] == "gte" and (f[1], f[2]) == target:
                        return ("gte", f[1], f[2] + 1, f[3])
                    if f[0] == "not":
                        return ("not", bf(f[1]))
                    if f[0] in ("and", "or"):
                        return (f[0], bf(f[1]), bf(f[2]))
                    return f
                out.append(("gate", bf(it[1]), bump(it[2]), bump(it[3])))
            else:
                out.append(it)
        return out
    M3.trees[("Pre", "read_push")] = bump(M.trees[("Pre", "read_push")])
    if target:
        M3.thresholds = set(M.thresholds) | {(target[0], target[1] + 1)}
        M3.classes = sorted(M3.thresholds)
    r3 = common.Report("ctl", "quick")
    model.rule_L6(r3, M3, hdrs)
    rep.control("L6 fires when the last Pre gate below 3.16 moves by one minor version", bool(r3.violations))
    # 3. little-endian read -> L7 must fire
    M4 = copy.copy(M)
    M4.trees = dict(M.trees)
    t = copy.deepcopy(M.trees[("Item", "read_push")])
    for l in L.tree_leaves(t):
        if l.get("op") == "read" and l["ty"] == "u16":
            l["endian"] = "LittleEndian"
            break
    M4.trees[("Item", "read_push")] = t
    r4 = common.Report("ctl", "quick")
    model.rule_L7(r4, M4)
    rep.control("L7 fires on a little-endian read", bool(r4.violations))


def writers_rule(F, rep):
    """a decoded leaf value is what the generated read_push stored: outside the generated impls (frame::mutable) nothing takes
    a mutable borrow of, or assigns to, a column of an event struct (Pre/Post/Start/End/Item and their sub-structs), so no
    hand-written code can overwrite, pop or re-push a decoded field after the fact. Containers (Frame, PortData, Data) are
    written by the reader itself (ids, item offsets, padding) and are covered by the bracketing/padding rules."""
    import re
    leaves = sorted(p for p in F.structs if p.startswith("frame::mutable::") and p.rsplit("::", 1)[1] not in ("Frame", "PortData", "Data"))
    rx = re.compile(r"^(&(mut )?)*(%s)(<.*>)?$" % "|".join(re.escape(p) for p in leaves))
    n = 0
    for b in F.fn_bodies():
        if b["path"].startswith(("frame::mutable::", "<frame::mutable::")) or " for frame::mutable::" in b["path"]:
            continue
        for x, mut in tir.mutable_projections(b["tir"]["value"], rx):
            n += 1
            rep.ob("columns.generated-writers-only", not mut, b["path"], "%s.%s" % ((x["base"].get("ty") or "").lstrip("&mut ").rsplit("::", 1)[-1], x.get("name")),
                   "hand-written code takes a mutable borrow of (or assigns to) the decoded column `%s` of %s: a decoded field could be overwritten after the generated reader stored it" % (x.get("name"), x["base"].get("ty")), tir.sp(x))
    rep.counts["leaf_column_projections_outside_generated_code"] = n
    rep.floor("event leaf structs", len(leaves), 8)
    rep.floor("leaf-column projections outside the generated impls", n, 80)


def run(F, rep, tier):
    M = model.Model(F, rep, want=("with_capacity", "push_null", "read_push"))
    rep.floor("generated structs with read_push", len([s for s in model.GEN if M.has(s, "read_push")]), 11)
    rep.floor("version classes", len(M.classes), 25)
    hdrs = headers_rule(F, rep, M)
    buffer_rule(F, rep)
    model.rule_L6(rep, M, hdrs)
    model.rule_L7(rep, M, sibs=("read_push",))
    model.rule_exact(rep, M)
    model.rule_presence(rep, M)
    model.rule_L2(rep, M)
    model.rule_gate_consistent(rep, M, sibs=("read_push", "push_null"))
    model.rule_frames_json(rep, M)
    order.rule_gte(F, rep)
    # a decoded value must sit in the row of its own event: frames are bracketed for every version class
    import reach
    from props import C04
    G_ = reach.Graph(F)
    C04.structure_rules(F, G_, rep, M)
    # .. and absent characters are padded up to the number of frames, or every later row of that character shifts
    writers_rule(F, rep)
    from props import C10
    C10.same_version_rule(F, rep)
    # "each field the library exposes": the columns are also exposed through the per-frame row view (Game::frame /
    # transpose_one); a field, or a whole character, filtered out or crossed there is exposed wrongly although the column is right
    from props import C13
    M13 = model.Model(F, rep, want=("m_transpose", "i_transpose", "with_capacity"))
    model.rule_L3(rep, M13, sibs=("m_transpose", "i_transpose"))
    C13.container_rule(F, rep, M13)
    C13.forwarders(F, rep)
    n_gated = sum(1 for s in model.EVENT_STRUCTS for f in M.spec[s]["fields"] if f.get("since"))
    rep.counts["version_classes"] = len(M.classes)
    rep.counts["spec_fields"] = sum(len(M.spec[s]["fields"]) for s in model.EVENT_STRUCTS)
    controls(rep, M, hdrs)
    rep.trusted += ["rustc name resolution/type checking (nightly) for the analysed tree",
                    "byteorder::ReadBytesExt::read_{u8,i8,u16,..}::<BigEndian> = fixed-width big-endian load via read_exact",
                    "spec/frames_spec.json transcribes the Slippi SPEC.md offset tables"]
    rep.assumptions += ["versions above 3.16 are outside the oracle; their classes are compared by sibling agreement only"]
    return rep.finish("proof",
                      "For each of Pre/Post/Start/End/Item and each of the %d version classes induced by all gate thresholds, the header stripped by parse_event "
                      "plus the flattened, sub-struct-expanded read sequence of read_push is compared offset-for-offset (offset, width, int/float kind, signedness, "
                      "destination column) with the Slippi spec table; every multi-byte read is BigEndian; the value pushed is the value read; a column is Some in "
                      "with_capacity exactly for the classes >= its introducing version and read_push/push_null touch exactly the live columns; Version::gte is "
                      "decided over the ordering domain; parse_event passes the file's own version and a cursor at payload byte 0 of a buffer of the table-declared size." % len(M.classes),
                      "./check C03 --tier " + tier)
