"""C04 — frame rows, character presence and item grouping mirror the event history (structural)."""
import bracket
import events
import layout as L
import model
import reach
import safety
import tir
from tir import strip, declared, callee

PE = events.PARSE_EVENT


def balance_rule(F, rep, M):
    model.rule_L2(rep, M)
    # Data::push_null: one validity bit, one pre null row, one post null row
    b = F.body("frame::mutable::Data::push_null")
    try:
        leaves = list(L.tree_leaves(L.x_push_null(b)))
        ops = sorted((l["op"], l.get("field") or l.get("value")) for l in leaves if l["op"] != "len_capture")
        ok = ops == sorted([("validity", False), ("sub", "pre"), ("sub", "post")]) and leaves[0]["op"] == "len_capture" and all(l.get("init_ok", True) for l in leaves)
        rep.ob("balance.Data", ok, "frame::mutable::Data::push_null", "rows", "Data::push_null must push exactly one false validity bit (bitmap created from the pre-push length), one pre null row and one post null row; got %s" % ops,
               sample={"ops": [str(o) for o in ops]})
    except L.Unsupported as e:
        rep.cannot("balance.Data", "frame::mutable::Data::push_null", e)
    lb = F.body("frame::mutable::Data::len")
    lv = L.strip_try(lb["tir"]["value"]) if lb is not None else {}
    rep.ob("balance.Data.len", lv.get("k") == "MethodCall" and lv["method"] == "len" and not lv.get("args") and tir.place(lv["recv"]) == "self.pre", "frame::mutable::Data::len", "len", "Data::len must be the pre column's length")


def arms_rule(F, rep):
    b, m, arms = events.find_dispatch(F)
    # Pre arm: exactly one validity push(true), on the same character whose pre column is read
    pre = arms.get("FramePre")
    post = arms.get("FramePost")
    if pre is None or post is None:
        rep.ob("presence.arms", False, PE, "arms", "Pre/Post arms not found")
        return arms
    pushes = [x for x in tir.walk(pre["body"]) if x.get("k") == "MethodCall" and (declared(x) or "") == "arrow2::bitmap::MutableBitmap::push"]
    ok = len(pushes) == 1 and strip(pushes[0]["args"][0]).get("v") is True
    target = None
    if ok:
        # find the enclosing `X.validity.as_mut().map(|v| v.push(true))`
        for x in tir.walk(pre["body"]):
            if x.get("k") == "MethodCall" and x["method"] in ("map", "iter_mut", "for_each") and any(y is pushes[0] for y in tir.walk(x)):
                target = tir.place(x["recv"])
            # `if let Some(v) = X.validity.as_mut() { v.push(true) }` / `match X.validity.as_mut() { Some(v) => v.push(true), None => {} }`
            if x.get("k") == "If" and strip(x["cond"]).get("k") == "LetCond" and (strip(x["cond"])["pat"].get("path") or "").endswith("Some") and any(y is pushes[0] for y in tir.walk(x["then"])):
                pb = strip(x["cond"])["pat"]["pats"][0]
                if strip(pushes[0]["recv"]).get("id") == pb.get("id") and not [y for y in tir.walk(x.get("else") or {}) if y.get("k") in ("MethodCall", "Call", "Assign")]:
                    target = tir.place(strip(x["cond"])["init"])
            if x.get("k") == "Match" and any(y is pushes[0] for y in tir.walk(x)) and target is None:
                for a in x["arms"]:
                    q = a["pat"]
                    if q.get("k") == "TupleStruct" and (q.get("path") or "").endswith("Some") and q["pats"][0].get("k") == "Bind" and strip(pushes[0]["recv"]).get("id") == q["pats"][0].get("id"):
                        target = tir.place(x["scrut"])
    readers = [x for x in tir.walk(pre["body"]) if x.get("k") == "MethodCall" and x["method"] == "read_push" and (declared(x) or "") == "frame::mutable::Pre::read_push"]
    rtargets = [tir.place(x["recv"]) for x in readers]
    same = ok and target is not None and len(rtargets) == 1 and target.rsplit(".", 1)[0] == rtargets[0].rsplit(".", 1)[0] and target.endswith(".validity") and rtargets[0].endswith(".pre")
    rep.ob("presence.pre-arm", bool(same), PE + "#FramePre", "validity", "the Pre arm must push exactly one `true` into the validity of the character whose pre row it reads (validity on %s, row on %s)" % (target, rtargets),
           sample={"validity": target, "row": rtargets})
    # .. on every path on which the row is read: the conditions enclosing the push are those enclosing the read, plus only the
    # "a bitmap exists" test on the validity itself (a push under `if is_follower` leaves the leader's bitmap short)
    if same:
        import safety
        parents = safety.parents(pre["body"])

        def conds(x):
            out = []
            y = x
            while id(y) in parents:
                p = parents[id(y)]
                if p.get("k") in ("If", "Match") and not (p.get("k") == "If" and (p.get("cond") is y)) and not (p.get("k") == "Match" and p.get("scrut") is y):
                    out.append(p)
                y = p
            return out
        extra = [c for c in conds(pushes[0]) if not any(c is d for d in conds(readers[0]))]
        own = []
        for c in extra:
            scr = strip(c["cond"]["init"]) if c.get("k") == "If" and strip(c["cond"]).get("k") == "LetCond" else (strip(c["scrut"]) if c.get("k") == "Match" else None)
            if scr is not None and (tir.place(scr) or "") == target:
                own.append(c)
        rep.ob("presence.pre-arm.unconditional", len(extra) == len(own), PE + "#FramePre", "validity.condition",
               "the validity push in the Pre arm is under a condition the row read is not under (%s): some present rows would not be marked" % "; ".join(tir.pretty(c.get("cond") or c.get("scrut"))[:60] for c in extra if not any(c is o for o in own)),
               tir.sp(pushes[0]))
    # the follower flag is the header byte tested for non-zero (a C-style bool: any non-zero value selects the follower)
    for nm, arm in (("FramePre", pre), ("FramePost", post)):
        info = events.analyse_arm(nm, arm)
        if len(info["header"]) == 3:
            fname = info["header"][2]["name"]
            ok_f = False
            for x in tir.walk(arm["body"]):
                if x.get("k") == "Let" and x["pat"].get("k") == "Bind" and x["pat"].get("name") == fname and x.get("init") is not None:
                    i = strip(x["init"])
                    if i.get("k") == "Binary" and L.strip_try(i["l"]).get("k") == "MethodCall" and L.strip_try(i["l"])["method"] == "read_u8":
                        ok_f = (i["op"] == "Ne" and tir.lit_int(i["r"]) == 0) or (i["op"] == "Gt" and tir.lit_int(i["r"]) == 0) or (i["op"] == "Ge" and tir.lit_int(i["r"]) == 1)
                    elif i.get("k") == "Unary" and i.get("op") == "Not":
                        j = strip(i["e"])
                        ok_f = j.get("k") == "Binary" and j["op"] == "Eq" and tir.lit_int(j["r"]) == 0 and L.strip_try(j["l"]).get("k") == "MethodCall"
            rep.ob("ports.follower-byte", ok_f, PE + "#" + nm, "follower", "the follower flag of the %s arm must be `header byte != 0` (any non-zero byte selects the follower)" % nm)
    vp = [x for x in tir.walk(post["body"]) if x.get("k") == "MethodCall" and (declared(x) or "") == "arrow2::bitmap::MutableBitmap::push"]
    rep.ob("presence.post-arm", not vp, PE + "#FramePost", "validity", "the Post arm must not push validity bits (one per character per frame, pushed by the Pre arm)")
    # the character is selected by the event's own (port, follower flag)
    for nm, arm in (("FramePre", pre), ("FramePost", post)):
        info = events.analyse_arm(nm, arm)
        hdr = [h["name"] for h in info["header"]]
        sel = [x for x in tir.walk(arm["body"]) if x.get("k") == "MethodCall" and (callee(x) or "") == "io::slippi::de::ParseState::data_mut"]
        ok = len(sel) == 1 and len(hdr) == 3 and [L.local_name(a) for a in sel[0]["args"]] == hdr[1:3]
        rep.ob("ports.selection", ok, PE + "#" + nm, "character", "the %s arm must select the character with the (port, follower) pair it read from the event header, in that order" % nm)
    return arms


def occupancy_shape_ok(po):
    """port_occupancy(start) == start.players.iter().map(|p| PortOccupancy { port: p.port, follower: p.character == ICE_CLIMBERS }).collect()"""
    sname = po["tir"]["params"][0].get("name")
    root = po["tir"]["value"]
    env = tir.LetEnv(root)
    tail = L.strip_try(root)
    pre = []
    while tail.get("k") == "Block":
        if tail.get("tail") is None:
            return False
        pre += tail.get("stmts", [])
        tail = L.strip_try(tail["tail"])

    def players_source(e):
        e = env.resolve(e)
        if e.get("k") == "MethodCall" and e["method"] in ("iter", "into_iter") and not e.get("args"):
            e = env.resolve(e["recv"])
        return tir.place(e) == sname + ".players"
    pid = st = None
    if tail.get("k") == "MethodCall" and tail["method"] == "collect" and not [s for s in pre if s.get("k") != "Let"]:
        m = strip(tail["recv"])
        if m.get("k") == "MethodCall" and m["method"] == "map" and len(m["args"]) == 1 and players_source(m["recv"]):
            cl = strip(m["args"][0])
            if cl.get("k") == "Closure" and len(cl["params"]) == 1 and cl["params"][0].get("k") == "Bind":
                pid = cl["params"][0]["id"]
                st = L.strip_try(cl["body"])
    elif tail.get("k") == "Path" and tail.get("res") == "local":
        # let mut v = Vec::new()/with_capacity(..); for p in players { v.push(PortOccupancy {..}) }; v
        vid = tail.get("id")
        loops = [s for s in pre if s.get("k") == "Expr" and strip(s["e"]).get("k") == "For"]
        others = [s for s in pre if s.get("k") != "Let" and s not in loops]
        uses = [x for x in tir.walk(root) if x.get("k") == "MethodCall" and strip(x["recv"]).get("id") == vid]
        if len(loops) == 1 and not others and len(uses) == 1 and uses[0]["method"] == "push":
            lp = strip(loops[0]["e"])
            if players_source(lp["iter"]) and lp["pat"].get("k") == "Bind" and any(y is uses[0] for y in tir.walk(lp["body"])):
                body = L.strip_try(lp["body"])
                only = body.get("stmts", []) + ([body["tail"]] if body.get("tail") is not None else [])
                if len(only) == 1 and L.strip_try(only[0].get("e") if only[0].get("k") == "Expr" else only[0]) is uses[0]:
                    pid = lp["pat"]["id"]
                    st = L.strip_try(uses[0]["args"][0])
    if st is None:
        return False
    while st.get("k") == "Block" and not st.get("stmts") and st.get("tail") is not None:
        st = L.strip_try(st["tail"])
    if st.get("k") != "Struct" or not (st.get("path") or "").endswith("PortOccupancy"):
        return False
    f = {x["name"]: strip(x["e"]) for x in st["fields"]}

    def pfield(e, name):
        e = strip(e)
        return e.get("k") == "Field" and e["name"] == name and strip(e["base"]).get("id") == pid
    fol = env.resolve(f.get("follower", {}))
    ok_f = fol.get("k") == "Binary" and fol.get("op") == "Eq" and (
        (pfield(fol["l"], "character") and (strip(fol["r"]).get("path") or "").endswith("ICE_CLIMBERS")) or
        (pfield(fol["r"], "character") and (strip(fol["l"]).get("path") or "").endswith("ICE_CLIMBERS")))
    if not ok_f and fol.get("k") == "Match" and pfield(fol["scrut"], "character") and len(fol["arms"]) == 2:
        # match p.character { ICE_CLIMBERS => true, _ => false }
        a0, a1 = fol["arms"]
        c0 = a0["pat"]
        is_const = (c0.get("k") in ("Lit", "Path") and ((c0.get("path") or (c0.get("e") or {}).get("path") or "").endswith("ICE_CLIMBERS")))
        t0, t1 = strip(a0["body"]), strip(a1["body"])
        ok_f = bool(is_const and not a0.get("guard") and a1["pat"].get("k") == "Wild" and t0.get("v") is True and t1.get("v") is False)
    return set(f) == {"port", "follower"} and pfield(f["port"], "port") and ok_f


def data_mut_rule(F, rep):
    fn = "io::slippi::de::ParseState::data_mut"
    b = F.body(fn)
    if b is None:
        rep.ob("ports.lookup", False, fn, "missing", "character lookup helper not found")
        return
    txt = tir.pretty(b["tir"]["value"])
    ok = "self.port_indexes.get((port as usize))" in txt and "self.game.frames.ports.get_mut(*i)" in txt
    rep.ob("ports.lookup", ok, fn, "lookup", "the character lookup must go port -> port_indexes[port] -> frames.ports[index]")
    sel = None
    flag = b["tir"]["params"][-1].get("name")
    for x in tir.walk(b["tir"]["value"]):
        bb = tir.bool_branch(x) if x.get("k") in ("Match", "If") else None
        if bb is not None and bb[2] is not None and L.local_name(bb[0]) == flag:
            def side(e):
                fs = set(y["name"] for y in tir.walk(e) if y.get("k") == "Field" and y["name"] in ("leader", "follower"))
                return "follower" if fs == {"follower"} else ("leader" if fs == {"leader"} else "?")
            sel = {True: side(bb[1]), False: side(bb[2])}
    rep.ob("ports.follower-flag", sel is not None and sel.get(True) == "follower" and (sel.get(False) == "leader" or sel.get("_") == "leader"), fn, "follower",
           "follower flag set must select the follower's data, clear the leader's; got %s" % sel)


def port_table_rule(F, rep):
    fn = "io::slippi::de::parse_start"
    b = F.body(fn)
    root = b["tir"]["value"]
    lets = {n["pat"]["id"]: n for n in tir.walk(root) if n.get("k") == "Let" and n["pat"].get("k") == "Bind"}
    wc = [n for n in tir.walk(root) if n.get("k") == "Call" and declared(n) == "frame::mutable::Frame::with_capacity"]
    ports_id = strip(wc[0]["args"][2]).get("id") if len(wc) == 1 else None
    src = lets.get(ports_id)
    rep.ob("ports.source", src is not None and tir.pretty(src["init"]).startswith("game::port_occupancy(&"), fn, "ports", "frames.ports must be built from port_occupancy(&start)")
    rep.ob("ports.columns", len(wc) == 1 and ports_id is not None, fn, "with_capacity", "frames.ports must be built by one Frame::with_capacity call from that sequence")
    ok = False
    for n in tir.walk(root):
        if n.get("k") == "For" and n["pat"].get("k") == "Tuple":
            it = strip(n["iter"])
            # <ports>.into_iter().enumerate()  /  .iter().enumerate()
            if it.get("k") == "MethodCall" and it["method"] == "enumerate":
                inner = strip(it["recv"])
                if inner.get("k") == "MethodCall" and inner["method"] in ("into_iter", "iter") and strip(inner["recv"]).get("id") == ports_id:
                    i_name, p_name = [q.get("name") for q in n["pat"]["pats"]]
                    for a in tir.walk(n["body"]):
                        if a.get("k") == "Assign":
                            l = strip(a["l"])
                            ix = strip(l["index"]) if l.get("k") == "Index" else {}
                            while ix.get("k") == "Cast" and ix.get("ty") in ("usize", "u8", "u16", "u32", "u64"):
                                ix = strip(ix["e"])          # `p.port as usize`, `(p.port as u8) as usize`: the discriminant, widened
                            if l.get("k") == "Index" and tir.place(ix) == "%s.port" % p_name and strip(l["index"]).get("k") == "Cast" and L.local_name(a["r"]) == i_name:
                                ok = True
    rep.ob("ports.index-table", ok, fn, "port_indexes", "port_indexes[p.port] must be the position of p in the same occupancy sequence (enumerate index)")
    # order preserved by Frame::with_capacity and port_occupancy
    wcf = L.x_with_capacity(F.body("frame::mutable::Frame::with_capacity"))
    each = [l for l in L.tree_leaves(wcf) if l["op"] == "each"]
    rep.ob("ports.order", len(each) == 1 and each[0]["field"] == "ports" and each[0]["over"] == "ports" and each[0]["struct"] == "PortData", "frame::mutable::Frame::with_capacity", "ports",
           "frames.ports must map the occupancy slice element-wise in order")
    po = F.body("game::port_occupancy")
    ok = occupancy_shape_ok(po)
    rep.ob("ports.occupancy", ok, "game::port_occupancy", "shape", "port_occupancy must map start.players in order to (port, follower = character == ICE_CLIMBERS)")
    cb = F.const_body("game::ICE_CLIMBERS")
    rep.ob("ports.ics-const", cb is not None and tir.lit_int(cb["tir"]["value"]) == 14, "game::ICE_CLIMBERS", "value", "ICE_CLIMBERS must be external character id 14")


def padding_rule(F, G, rep):
    fn = "io::slippi::de::ParseState::frame_close"
    b = F.body(fn)
    root = b["tir"]["value"]
    lens = [n for n in tir.walk(root) if n.get("k") == "Let" and n["pat"].get("k") == "Bind" and tir.pretty(n["init"]) == "self.game.frames.len()"]
    fors = [n for n in tir.walk(root) if n.get("k") == "For"]
    def iter_place(e):
        e = strip(e)
        while e.get("k") == "MethodCall" and e["method"] in ("iter", "iter_mut", "into_iter") and not e.get("args"):
            e = strip(e["recv"])
        return tir.place(e)
    lens = [n for n in tir.walk(root) if n.get("k") == "Let" and n["pat"].get("k") == "Bind" and strip(n["init"]).get("k") == "MethodCall" and strip(n["init"])["method"] == "len"
            and tir.place(strip(n["init"])["recv"]) == "self.game.frames"]
    outer = [f for f in fors if iter_place(f["iter"]) == "self.game.frames.ports"]
    inner_fors = [f for f in fors if f not in outer]
    fors = outer + inner_fors
    ok = len(lens) == 1 and len(outer) == 1 and all(any(x is f for x in tir.walk(outer[0]["body"])) for f in inner_fors)
    rep.ob("padding.all-ports", ok, fn, "loop", "frame_close must iterate every port of frames.ports with the frame count captured once")
    # .. and that count is the number of frames opened so far: mutable::Frame::len() is the id column's length
    lb = F.body("frame::mutable::Frame::len")
    lv = L.strip_try(lb["tir"]["value"]) if lb is not None else {}
    rep.ob("padding.bound", lv.get("k") == "MethodCall" and lv["method"] == "len" and not lv.get("args") and tir.place(lv["recv"]) == "self.id", "frame::mutable::Frame::len", "len",
           "the padding bound frames.len() must be the length of the id column (one entry per opened frame); got %s" % tir.pretty(lv)[:100])
    # padding is unconditional: no early return, and the loop is not nested under a condition
    par = safety.parents(root)
    rets = [n for n in tir.walk(root) if n.get("k") == "Ret"]
    nested = False
    for f in fors[:1]:
        y = f
        while id(y) in par:
            y = par[id(y)]
            if y.get("k") in ("If", "Match", "Closure"):
                nested = True
    rep.ob("padding.unconditional", not rets and not nested, fn, "guard", "frame_close must pad unconditionally: an early return or an enclosing condition (%d returns, nested=%s) leaves absent characters without their null rows for some games" % (len(rets), nested))
    if ok:
        bound = lens[0]["pat"]["name"]
        pvar = fors[0]["pat"].get("name")
        whiles = [n for n in tir.walk(fors[0]["body"]) if n.get("k") == "Loop"]
        targets = []
        good = True
        for w in whiles:
            good = good and safety.monotone_counter(F, w, None)
            c = strip(L.strip_try(w["body"]).get("tail", {}).get("cond") if L.strip_try(w["body"]).get("k") == "Block" else {})
            inner = L.strip_try(w["body"])
            inner = L.strip_try(inner.get("tail") or {}) if inner.get("k") == "Block" else inner
            c = strip(inner.get("cond") or {})
            if c.get("k") == "Binary":
                t0 = tir.place(strip(c["l"])["recv"])
                good = good and L.local_name(c["r"]) == bound
                # `for data in once(&mut p.leader).chain(p.follower.as_mut()) { while data.len() < n { .. } }`: both are padded
                expanded = None
                for f2 in inner_fors:
                    if f2["pat"].get("k") == "Bind" and f2["pat"].get("name") == t0 and any(x is w for x in tir.walk(f2["body"])):
                        it = strip(f2["iter"])
                        if it.get("k") == "MethodCall" and it["method"] == "chain" and len(it["args"]) == 1:
                            first = strip(it["recv"])
                            if first.get("k") == "Call" and (declared(first) or "").endswith("iter::once") and len(first["args"]) == 1:
                                expanded = [tir.place(first["args"][0]), tir.place(it["args"][0])]
                        elif it.get("k") == "Array":
                            expanded = [tir.place(e) for e in it["elems"]]
                targets += expanded if expanded else [t0]
        # follower alias: `if let Some(f) = &mut p.follower`
        alias = {}
        for n in tir.walk(fors[0]["body"]):
            if n.get("k") == "If" and strip(n["cond"]).get("k") == "LetCond":
                lc = strip(n["cond"])
                if (lc["pat"].get("path") or "").endswith("Some"):
                    alias[lc["pat"]["pats"][0].get("name")] = tir.place(lc["init"])
        targets = sorted(alias.get(t, t) for t in targets)
        rep.ob("padding.leader-follower", good and targets == sorted(["%s.leader" % pvar, "%s.follower" % pvar]), fn, "targets",
               "frame_close must pad both the leader and (when present) the follower of each port up to the frame count; pads %s" % targets, sample={"padded": targets, "bound": bound})


def bracketing_rule(F, G, rep, M, pid_rule="bracketing"):
    b, m, arms = events.find_dispatch(F)
    op, cl = bracket.openers_closers(F, G)
    n_op_fns = len(op)          # functions pushing onto frames.id: a helper, or parse_event itself when the push is written in the arms
    op.discard(PE)
    cl.discard(PE)
    rep.floor("frame openers", n_op_fns, 1)
    rep.floor("frame closers", len(cl), 1)
    n_sites = 0
    for nm, arm in sorted(arms.items()):
        bad = {}
        for v in M.classes:
            w = bracket.Walker(F, v, op, cl)
            out = w.run(arm["body"], frozenset([False]))
            n_sites = max(n_sites, 0)
            rep.obligations += 1
            if w.problems:
                for p in w.problems:
                    bad.setdefault(tir.sp(p), []).append(v)
            else:
                rep.discharged += 1
            if nm == "FrameEnd" and v >= (3, 0):
                rep.ob(pid_rule + ".end-closes", out == frozenset([True]), PE + "#FrameEnd", "frame_close", "the Frame End arm must close the frame on every path (class %s)" % M.class_name(v))
        for site, vs in bad.items():
            rep.violation(pid_rule + ".open-without-close", PE + "#" + nm, "frame_open",
                          "%s arm opens a new frame at %s while the previous one may still be open for versions %s..%s (no Frame End event exists before 3.0, and no frame_close precedes on this path): "
                          "absent characters are padded in the wrong rows" % (nm, site, model.vstr(vs[0]), model.vstr(vs[-1])), site)
    # a Frame Start event begins exactly one frame and stores exactly one start row, whatever the frame id is
    fs = arms.get("FrameStart")
    if fs is not None:
        def start_row(n):
            return n.get("k") == "MethodCall" and n["method"] == "read_push" and (callee(n) or declared(n) or "").startswith("frame::mutable::Start")
        for v in M.classes:
            if v < (2, 2):
                continue
            out = bracket.Counter(F, v, op, start_row).run(fs["body"], frozenset([(0, 0)]))
            rep.ob(pid_rule + ".start-opens", out == frozenset([(1, 1)]), PE + "#FrameStart", "frame_open",
                   "every Frame Start event must open exactly one frame and push exactly one start row (class %s); (frames opened, start rows) over the paths: %s — a frame occurrence "
                   "without its own row shifts every later row" % (M.class_name(v), sorted(out)))
    rep.counts[pid_rule + ".arm_x_class"] = len(arms) * len(M.classes)
    # call sites of openers inside the dispatch
    n_open = sum(1 for a in arms.values() for x in tir.walk(a["body"]) if x.get("k") in ("Call", "MethodCall") and (
        reach.owner_of(callee(x) or "") in op or (x.get("k") == "MethodCall" and x["method"] == "push" and (tir.place(x["recv"]) or "").endswith("frames.id"))))
    rep.floor("frame_open call sites in the dispatch", n_open, 2)
    # read(): a dangling pre-3.0 frame is closed before the game is built
    rb = F.body("io::slippi::de::read")
    for v in M.classes:
        if v >= (3, 0):
            continue
        w = bracket.Walker(F, v, set(), cl)
        out = w.run(rb["tir"]["value"], frozenset([False]))
        rep.ob(pid_rule + ".dangling", out == frozenset([True]), "io::slippi::de::read", "frame_close", "read() must close the dangling last frame for version class %s before building the game" % M.class_name(v))


def items_rule(F, G, rep):
    b, m, arms = events.find_dispatch(F)
    fe = arms.get("FrameEnd")
    root = fe["body"]
    txt = tir.pretty(root)
    alias = {}
    for n in tir.walk(root):
        if n.get("k") == "Let" and n["pat"].get("k") == "Bind" and n.get("init") is not None and tir.place(n["init"]):
            alias[n["pat"]["name"]] = tir.place(n["init"])
    # let-else destructuring of (item_offset, item, end)
    for n in tir.walk(root):
        if n.get("k") == "Let" and n["pat"].get("k") == "Tuple" and strip(n["init"]).get("k") == "Tup":
            for q, e in zip(n["pat"]["pats"], strip(n["init"])["elems"]):
                if q.get("k") == "TupleStruct" and q["pats"] and q["pats"][0].get("k") == "Bind":
                    alias[q["pats"][0]["name"]] = tir.place(e)

    def res(p):
        if p is None:
            return None
        head, _, rest = p.partition(".")
        base = alias.get(head, head)
        bh, _, br = base.partition(".")
        if bh in alias and bh != head:
            base = alias[bh] + ("." + br if br else "")
        return base + ("." + rest if rest else "")
    old = new = pushed = None
    lets = {n["pat"]["id"]: n for n in tir.walk(root) if n.get("k") == "Let" and n["pat"].get("k") == "Bind"}
    for n in tir.walk(root):
        if n.get("k") == "MethodCall" and n["method"] == "try_push" and "arrow2::offset::Offsets" in (declared(n) or ""):
            arg = strip(n["args"][0])
            pushed = (res(tir.place(n["recv"])), arg.get("id"))
            nl = lets.get(arg.get("id"))
            if nl is not None:
                lens = [x for x in tir.walk(nl["init"]) if x.get("k") == "MethodCall" and x["method"] == "len"]
                subs = [x for x in tir.walk(nl["init"]) if x.get("k") == "MethodCall" and x["method"] == "checked_sub"] + [x for x in tir.walk(nl["init"]) if x.get("k") == "Binary" and x.get("op") == "Sub"]
                if len(lens) == 1 and len(subs) == 1:
                    new = res(tir.place(lens[0]["recv"]))
                    sub_arg = strip(subs[0]["args"][0]) if subs[0].get("k") == "MethodCall" else strip(subs[0]["r"])
                    ol = lets.get(sub_arg.get("id"))
                    if ol is not None:
                        i = strip(ol["init"])
                        while i.get("k") == "Unary":
                            i = strip(i["e"])
                        if i.get("k") == "MethodCall" and i["method"] == "last":
                            old = res(tir.place(i["recv"]))
    ok = (old or "").endswith("frames.item_offset") and (new or "").startswith("state.game.frames.item.") and pushed is not None and (pushed[0] or "").endswith("frames.item_offset")
    rep.ob("items.offset", bool(ok), PE + "#FrameEnd", "item_offset", "the Frame End arm must push (item column length - last offset) onto item_offset; old=%s new=%s pushed=%s" % (old, new, pushed),
           sample={"old": old, "new": new})
    ilen = F.body("frame::mutable::Item::len")
    rep.ob("items.len-column", ilen is not None and (new or "").split(".")[-1] in tir.pretty(ilen["tir"]["value"]) or (new or "").endswith(".type"), "frame::mutable::Item", "len", "the item count must be the length of an always-present item column")
    # who may call the top-level event readers
    want = {"Start": "FrameStart", "End": "FrameEnd", "Item": "Item", "Pre": "FramePre", "Post": "FramePost"}
    for s, ev in want.items():
        callers = []
        for fb in F.fn_bodies():
            for x in tir.walk(fb["tir"]["value"]):
                if x.get("k") == "MethodCall" and (declared(x) or "") == "frame::mutable::%s::read_push" % s:
                    callers.append(fb["path"])
        in_arm = [x for x in tir.walk(arms[ev]["body"]) if x.get("k") == "MethodCall" and (declared(x) or "") == "frame::mutable::%s::read_push" % s]
        ok = len(in_arm) == 1 and callers == [PE]
        if len(in_arm) == 1:
            # .. on every path through the arm: the only condition it may sit under is the presence of its own column
            import safety
            import canon
            parents = safety.parents(arms[ev]["body"])
            recv_ids = set(x.get("id") for x in tir.walk(in_arm[0]["recv"]) if x.get("k") == "Path" and x.get("res") == "local")
            bad = []
            y = in_arm[0]
            while id(y) in parents:
                p = parents[id(y)]
                pats = None
                if p.get("k") == "If" and p.get("cond") is not y:
                    c = strip(p["cond"])
                    pats = [c["pat"]] if c.get("k") == "LetCond" else []
                elif p.get("k") == "Match" and p.get("scrut") is not y:
                    pats = [arm_["pat"] for arm_ in p["arms"] if any(z is y for z in tir.walk(arm_["body"]))]
                if pats is not None:
                    binds = []
                    for q in pats:
                        canon.binding_pats(q, binds)
                    if not any(bp.get("id") in recv_ids for bp in binds):
                        bad.append(p)
                y = p
            rep.ob("rows.unconditional", not bad, PE + "#" + ev, s + ".condition",
                   "%s::read_push in the %s arm is under a condition other than the presence of its own column (%s): some events of that kind would store no row" % (
                       s, ev, "; ".join(tir.pretty(x.get("cond") or x.get("scrut"))[:50] for x in bad)), tir.sp(in_arm[0]))
        rep.ob("rows.one-per-event", ok, PE + "#" + ev, s, "%s::read_push must be called exactly once, from the %s arm only (callers: %s, in arm: %d)" % (s, ev, callers, len(in_arm)))
    # both row views slice items by start_end(i): C13's rule, counted here as a reference
    for fam in ("mutable", "immutable"):
        fb = F.body("frame::%s::Frame::transpose_one" % fam)
        leaves = [l for l in L.tree_leaves(L.x_transpose(fb)) if l.get("kind") == "items"]
        rep.ob("items.slice", len(leaves) == 1 and leaves[0].get("exact") and leaves[0].get("offsets") == "self.item_offset", "frame::%s::Frame::transpose_one" % fam, "items", "items of a row must be the slice delimited by item_offset.start_end(i)")


def column_gates_rule(F, rep, M):
    """the start / end / item columns exist exactly for the versions whose files carry Frame Start / Frame End / Item events
    (spec: 2.2 / 3.0 / 3.0): a column allocated for a version that never feeds it stays empty while the rows grow, one missing
    where events arrive loses them"""
    import layout as L
    b = F.body("frame::mutable::Frame::with_capacity")
    if b is None:
        rep.ob("columns.event-gates", False, "frame::mutable::Frame::with_capacity", "missing", "Frame::with_capacity not found")
        return
    try:
        items = L.x_with_capacity(b)
    except L.Unsupported as e:
        rep.cannot("columns.event-gates", "frame::mutable::Frame::with_capacity", e)
        return
    gates = {}
    for it in items:
        if it[0] == "gate":
            for l in L.tree_leaves(it[2]):
                gates[l["field"]] = it[1]
    n = 0
    for col, ev in (("start", "Start"), ("end", "End"), ("item", "Item")):
        since = model.parse_ver(M.spec[ev].get("since") or "0.1")
        g = gates.get(col)
        ok = g is not None and all(L.feval(g, v) == (v >= since) for v in M.classes)
        n += 1
        rep.ob("columns.event-gates", ok, "frame::mutable::Frame::with_capacity", col,
               "the `%s` column must exist exactly for versions >= %s (the versions with %s events); it exists under %s" % (col, model.vstr(since), ev, L.fstr(g) if g else "no version gate"))
    rep.floor("event-gated frame columns", n, 3)


def structure_rules(F, G, rep, M):
    """the reader's frame structure as a whole: one row per frame in every column, each value in the row and character of its
    own event. Every property whose statement depends on rows being where their events put them runs this set."""
    balance_rule(F, rep, M)
    arms_rule(F, rep)
    data_mut_rule(F, rep)
    port_table_rule(F, rep)
    padding_rule(F, G, rep)
    bracketing_rule(F, G, rep, M)
    items_rule(F, G, rep)
    column_gates_rule(F, rep, M)
    # the walkers above resolve `version.gte(M, m)` / `version.lt(M, m)` by their specification: that is what the functions
    # compute (E5), or every "simulate Frame End below 3.0" gate means something else
    if not any(k.startswith("E5.gte") for k in rep.counts):
        import order
        order.rule_gte(F, rep)


def run(F, rep, tier):
    G = reach.Graph(F)
    M = model.Model(F, rep, want=("with_capacity", "push_null", "read_push"))
    structure_rules(F, G, rep, M)
    # the game handed out is the finished representation: every column built row by row reaches it through the
    # `From<mutable::X> for X` conversions, field for field and unfiltered (a validity bitmap turned into None, a column
    # dropped, loses the rows it carried)
    Mf = model.Model(F, rep, want=("from",))
    model.rule_L3(rep, Mf, sibs=("from",))
    # positive control: the bracketing walker must flag an opener that is not preceded by a closer below 3.0
    b, m, arms = events.find_dispatch(F)
    op, cl = bracket.openers_closers(F, G)
    w = bracket.Walker(F, (1, 0), op - {PE}, set())
    w.run(arms["FramePre"]["body"], frozenset([False]))
    rep.control("bracketing fires when frame_close is not recognised as a closer", bool(w.problems))
    rep.trusted += ["arrow2 MutablePrimitiveArray::push / MutableBitmap::push / Offsets::try_push append exactly one element"]
    rep.not_decided.append("that rows appear in file order, once per occurrence, for every history: the dynamic behaviour of the parse_event state machine over unbounded event sequences")
    return rep.finish("other",
                      "Column balance (L2) holds for every struct and version class and Data::push_null pads one validity bit + one pre + one post row; the Pre arm pushes exactly one `true` into the "
                      "validity of the character it reads; characters are selected through port_indexes built from the same port_occupancy(start) sequence, in order, that constructs frames.ports, "
                      "with the follower chosen by the event's flag; frame_close pads leader and follower of every port up to the frame count; at every frame_open site, for every version class, "
                      "either Frame End exists (>= 3.0) or a frame_close precedes on every path, the Frame End arm always closes, and read() closes a dangling pre-3.0 frame; item offsets are "
                      "(item length - last offset) pushed by the Frame End arm and each top-level event reader is called exactly once from its own arm.",
                      "./check C04 --tier " + tier)
