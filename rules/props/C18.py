"""C18 — .slpp is a tar starting with peppi.json whose entries agree with each other (structural)."""
import layout as L
import order
import peppifmt
import reach
import safety
import tir
from tir import strip, declared, callee

ORDER = ["peppi.json", "metadata.json", "start.json", "start.raw", "end.json", "end.raw", "gecko_codes.raw", "frames.arrow"]
GUARD = {"end.json": "game.end", "end.raw": "game.end", "gecko_codes.raw": "game.gecko_codes", "frames.arrow": "game.frames.id.len()"}
NONDET = ("std::time::", "std::env::", "rand::", "std::collections::HashMap", "std::collections::hash_map", "std::process::id", "std::thread::current", "getrandom")
# state that outlives one call (thread-locals, statics with interior mutability): output would depend on earlier calls
AMBIENT = ("std::thread::LocalKey", "std::thread::local_impl", "std::sync::atomic::", "std::sync::Mutex", "std::sync::RwLock", "std::sync::OnceLock", "std::sync::LazyLock", "std::sync::Once::",
           "std::cell::OnceCell", "std::cell::LazyCell")


def ambient_state(F, G, R):
    """uses of call-outliving state in the local fns R: calls into thread-local / lock / atomic / once APIs, and mentions of
    `static` items (a `static` of a type without interior mutability is a constant and is not reported)"""
    out = []
    ext = G.external_calls(R)
    for c in sorted(ext):
        if any(x in c for x in AMBIENT):
            o, t = ext[c][0]
            out.append((o, c, reach.spstr(t.get("sp"))))
    for b in F.fn_bodies():
        if reach.owner_of(b["path"]) not in R:
            continue
        for n in tir.walk(b["tir"]["value"]):
            if n.get("k") == "Path" and n.get("res") == "def" and (n.get("dk") or "").startswith("Static"):
                ty = n.get("ty") or ""
                if "mutability: Mut" in (n.get("dk") or "") or any(x in ty for x in ("Cell<", "Mutex<", "RwLock<", "Atomic", "OnceLock<", "LazyLock<", "LocalKey<")):
                    out.append((b["path"], "static %s: %s" % (n.get("path"), ty[:60]), tir.sp(n)))
    return out


def order_rule(F, rep):
    ents = peppifmt.writer_entries(F)
    rep.floor("tar_append call sites", len(ents), 8)
    names = [e["name"] for e in ents]
    rep.ob("order.sequence", names == ORDER, peppifmt.WRITE, "entries", "the writer appends %s, documented order is %s" % (names, ORDER), sample={"entries": names})
    for e in ents:
        want = GUARD.get(e["name"])
        gs = [g[1] for g in e["guards"]]
        if want is None:
            rep.ob("order.unconditional", not gs, peppifmt.WRITE, str(e["name"]), "entry %s must be written unconditionally but is under %s" % (e["name"], gs))
        else:
            ok = len(gs) == 1 and want in gs[0] and e["guards"][0][2] is True
            rep.ob("order.guard", ok, peppifmt.WRITE, str(e["name"]), "entry %s must be written exactly when %s is present; guards: %s" % (e["name"], want, gs),
                   sample={"entry": e["name"], "guard": gs})
    # nothing after frames.arrow but into_inner().flush()
    b = F.body(peppifmt.WRITE)
    val = L.strip_try(b["tir"]["value"])
    stmts = val.get("stmts", [])
    helpers = peppifmt.append_helpers(F)
    last_append = max((i for i, s in enumerate(stmts) if any((x.get("path") or "") in helpers for x in tir.walk(s) if x.get("k") == "Call")), default=None)
    after = []
    if last_append is not None:
        for s in stmts[last_append + 1:]:
            for x in tir.walk(s):
                if x.get("k") in ("Call", "MethodCall"):
                    after.append(callee(x) or "")
    ok = all(c.endswith("Builder::<W>::into_inner") or c.endswith("Write::flush") or c.endswith("::flush") for c in after)
    rep.ob("order.tail", ok, peppifmt.WRITE, "tail", "after the last entry the writer may only finish the archive (into_inner, flush); found %s" % after)


def signature_rule(F, rep):
    ev = order.Evaluator(F)
    b = F.const_body("io::peppi::FILE_SIGNATURE")
    sig = None
    if b and b.get("tir"):
        bs = F.bytes_of(b["tir"]["value"])
        if bs is not None:
            sig = bytes(bs)
    rep.ob("signature", sig == b"peppi.json", "io::peppi::FILE_SIGNATURE", "bytes", "FILE_SIGNATURE is %r, the first entry name is peppi.json" % (sig,), sample={"signature": sig.decode() if sig else None})


def consistency_rule(F, rep):
    ents = {e["name"]: e for e in peppifmt.writer_entries(F)}
    def payload(nm):
        e = ents.get(nm)
        return peppifmt.payload_source(F, e) if e else None
    sj, sr = payload("start.json"), payload("start.raw")
    rep.ob("consistent.start", sj == ("json", "game.start") and sr == ("raw", "game.start.bytes.0"), peppifmt.WRITE, "start",
           "start.json / start.raw must both be rendered from game.start: %s / %s" % (sj, sr))
    ej, er = payload("end.json"), payload("end.raw")
    # the end value is bound by `if let Some(end) = &game.end` / `match &game.end { Some(end) => .. }`
    ok = bool(ej and er and ej[0] == "json" and er[0] == "raw" and ej[1] and er[1] == ej[1] + ".bytes.0")
    if ok:
        guards = [g for g in (ents.get("end.json") or {}).get("guards", []) if "game.end" in g[1]]
        ok = bool(guards) and ej[1].split(".")[0] != "game"
    rep.ob("consistent.end", ok, peppifmt.WRITE, "end", "end.json / end.raw must both be rendered from the same end value bound from game.end: %s / %s" % (ej, er))
    rep.ob("consistent.metadata", payload("metadata.json") == ("json", "game.metadata"), peppifmt.WRITE, "metadata", "metadata.json must be the JSON rendering of game.metadata; got %s" % (payload("metadata.json"),))
    # the reader rebuilds start/end through the same decoders the .slp reader uses
    G = reach.Graph(F)
    Rr = G.reachable([peppifmt.READ])
    for dec in ("io::slippi::de::game_start", "io::slippi::de::game_end"):
        rep.ob("consistent.decoder", dec in Rr, peppifmt.READ, dec.split("::")[-1], "the .slpp reader must rebuild the raw block through %s" % dec)
    # .. from the whole raw entry: what start.json / end.json render is what the reader reconstructs
    from props import C02
    C02.raw_decoder_rule(F, rep, "consistent.whole-entry")


def determinism_rule(F, rep):
    G = reach.Graph(F)
    R = G.reachable([peppifmt.WRITE])
    ext = G.external_calls(R)
    bad = sorted(c for c in ext if any(x in c for x in NONDET))
    rep.ob("deterministic", not bad, peppifmt.WRITE, "nondeterminism", "the writer's reachable set calls %s" % bad[:4])
    amb = ambient_state(F, G, R)
    rep.ob("deterministic.no-ambient-state", not amb, peppifmt.WRITE, "ambient-state",
           "the writer's reachable set keeps state across calls (%s): the bytes written for a game would depend on what was written before" % "; ".join("%s in %s @ %s" % (c, reach.short(o), sp) for o, c, sp in amb[:3]))
    rep.counts["writer_reachable_fns"] = len(R)
    # the tar header is built from constant/derived values only
    helpers = peppifmt.append_helpers(F)
    b = F.body(sorted(helpers)[0]) if helpers else None
    rep.ob("deterministic.helper", b is not None, peppifmt.WRITE, "append-helper", "no function appending tar entries was found")
    if b is None:
        return
    hdr = sorted(set((callee(n) or "").split("::")[-1] for n in tir.walk(b["tir"]["value"]) if n.get("k") in ("Call", "MethodCall") and "tar::Header" in (callee(n) or "")))
    rep.ob("deterministic.header", set(hdr) <= {"new_gnu", "set_size", "set_path", "set_mode", "set_cksum"}, b["path"], "header", "tar header built with %s" % hdr,
           sample={"header_calls": hdr})


NARROWING = ("unwrap", "expect", "ok_or", "ok_or_else", "unwrap_unchecked")


def name_total_rule(F, rep, m, loop):
    """an entry whose name cannot be extracted (no final component, not UTF-8) is an unknown entry: the derivation of the
    dispatch value from the entry path must be total — no `?`, unwrap or error conversion applied to the name option"""
    if m is None or loop is None:
        rep.ob("reader.name-total", False, peppifmt.READ, "dispatch", "no dispatch on the entry name inside the entry loop")
        return
    lets = {}
    for x in tir.walk(loop["body"]):
        if x.get("k") == "Let" and x["pat"].get("k") == "Bind" and x.get("init"):
            lets[x["pat"].get("id")] = x
    root = m["scrut"]
    seen = 0
    while strip(root).get("k") == "Path" and strip(root).get("res") == "local" and strip(root).get("id") in lets and seen < 4:
        let = lets[strip(root)["id"]]
        if let.get("else"):
            rep.ob("reader.name-total", False, peppifmt.READ, "let-else", "the dispatch value is bound with let-else: entries without a usable name take the else branch instead of being ignored")
            return
        root = let["init"]
        seen += 1
    # the name is the entry's *resolved* path (tar::Entry::path follows GNU long-name and pax records); the raw 100-byte name
    # field of the header (Header::path / path_bytes) is a truncation that can alias a known entry name
    env = tir.LetEnv(loop["body"])
    srcs = []
    work = [root]
    seen_ids = set()
    while work:
        e = work.pop()
        for x in tir.walk(e):
            if x.get("k") == "MethodCall" and x["method"] in ("path", "path_bytes", "path_lossy", "link_name") and (declared(x) or "").startswith("tar::"):
                srcs.append(x)
            if x.get("k") == "Path" and x.get("res") == "local" and x.get("id") in env.lets and x.get("id") not in seen_ids:
                seen_ids.add(x["id"])
                work.append(env.lets[x["id"]])
    ok_src = len(srcs) == 1 and srcs[0]["method"] == "path" and (declared(srcs[0]) or "").startswith("tar::Entry") and not any(
        y.get("k") == "MethodCall" and y["method"] == "header" for y in tir.walk(srcs[0]["recv"]))
    rep.ob("reader.name-source", ok_src, peppifmt.READ, "entry-path", "the dispatch name must come from tar::Entry::path() of the entry (got %s): the header's raw name field is truncated to 100 bytes" % [
        (declared(x) or x["method"]) for x in srcs][:3], sample={"source": [declared(x) for x in srcs]})
    # every entry of the archive is visited: the loop runs over Archive::entries() itself — an adaptor that bounds, skips or
    # filters the sequence (take, skip, step_by, filter, take_while ..) lets unknown entries push known ones out of reach
    it = loop["iter"]
    chain = []
    env_it = tir.LetEnv(F.body(peppifmt.READ)["tir"]["value"])
    x = L.strip_try(strip(it))
    if x.get("k") == "Path" and x.get("res") == "local":
        x = L.strip_try(env_it.resolve(x))
    while x.get("k") == "MethodCall" and not (x["method"] == "entries" and (declared(x) or "").startswith("tar::Archive")):
        chain.append(x["method"])
        x = L.strip_try(strip(x["recv"]))
    is_entries = x.get("k") == "MethodCall" and x["method"] == "entries" and (declared(x) or "").startswith("tar::Archive")
    bad_ad = [m_ for m_ in chain if m_ not in ("into_iter", "by_ref", "peekable", "fuse")]
    rep.ob("reader.all-entries", is_entries and not bad_ad, peppifmt.READ, "entries", "the entry loop must run over tar::Archive::entries() itself; adaptors applied: %s" % (bad_ad or chain), tir.sp(it))
    par = safety.parents(root)
    names = [x for x in tir.walk(root) if x.get("k") == "MethodCall" and x["method"] in ("file_name", "to_str", "to_string_lossy", "file_stem")]
    bad = []
    for x in names:
        a = par.get(id(x))
        while a is not None:
            if a.get("k") == "Try" or (a.get("k") == "MethodCall" and a["method"] in NARROWING):
                bad.append("%s above %s() at %s" % (a.get("method") or "?", x["method"], tir.sp(a)))
            a = par.get(id(a))
    rep.ob("reader.name-total", bool(names) and not bad, peppifmt.READ, "name-derivation",
           "the entry name feeding the dispatch is narrowed by %s: an entry without a usable name is rejected instead of ignored" % (bad[:2] or "nothing recognisable (no file_name/to_str call found)"),
           sample={"derivation": tir.pretty(root)[:160]})


def reader_rule(F, rep):
    arms, m, loop = peppifmt.reader_arms(F)
    rep.floor("reader dispatch arms", len(arms), 7)
    ents = [e["name"] for e in peppifmt.writer_entries(F)]
    for nm in ("peppi.json", "start.raw", "end.raw", "metadata.json", "gecko_codes.raw", "frames.arrow"):
        rep.ob("reader.arm", nm in arms, peppifmt.READ, nm, "the reader has no arm for entry %s" % nm)
        rep.ob("reader.written", nm in ents, peppifmt.WRITE, nm, "the reader expects entry %s which the writer never emits" % nm)
    w = arms.get("_")
    ok = False
    if w is not None:
        bad = [x for x in tir.walk(w["body"]) if x.get("k") in ("Ret", "Break", "Try") or (x.get("k") == "Call" and (declared(x) or "").endswith("::Err"))]
        ok = not bad
    rep.ob("reader.ignore-unknown", ok, peppifmt.READ, "wildcard", "the wildcard arm must ignore unknown entries (no error, break or return)")
    # an entry whose name is not dispatched on reaches only the code of the loop body *outside* the named arms: nothing there
    # may refuse the archive (the `?` on the tar iterator / Entry::path() are I/O errors of the archive itself)
    if loop is not None:
        named = [a["body"] for k_, a in arms.items() if k_ != "_"]
        inside = set()
        for nb in named:
            for x in tir.walk(nb):
                inside.add(id(x))
        bad = []
        for x in tir.walk(loop["body"]):
            if id(x) in inside:
                continue
            if (x.get("k") in ("Call", "Struct") and "Error::InvalidData" in (x.get("path") or declared(x) or "")) or \
                    (x.get("k") == "Ret" and x.get("e") is not None) or \
                    (x.get("k") == "Call" and (declared(x) or "").endswith("::Err")):
                bad.append(tir.sp(x))
        rep.ob("reader.unknown-not-refused", not bad, peppifmt.READ, "loop", "the entry loop refuses an archive outside the arms of the entries it knows (%s): an unknown entry can make the reader fail instead of being ignored" % bad[:3],
               sample={"sites": bad})
    # .. and the archive is opened over the caller's stream itself, which nothing has read before: a check on the raw bytes ahead of
    # the tar parser (`expect_bytes(&mut r, SIGNATURE)` + `chain`) turns "peppi.json is first" from a promise of the writer into
    # a demand of the reader, and an unknown entry in front is refused
    rb_ = F.body(peppifmt.READ)
    if rb_ is not None:
        prm = [p for p in rb_["tir"]["params"] if p.get("k") == "Bind"]
        sid = prm[0].get("id") if prm else None
        opens = [x for x in tir.walk(rb_["tir"]["value"]) if x.get("k") == "Call" and "tar::Archive" in (declared(x) or "") and (declared(x) or "").endswith("::new")]
        uses = [x for x in tir.walk(rb_["tir"]["value"]) if x.get("k") == "Path" and x.get("res") == "local" and x.get("id") == sid]
        ok_open = len(opens) == 1 and len(opens[0].get("args", [])) == 1 and strip(opens[0]["args"][0]).get("k") == "Path" and strip(opens[0]["args"][0]).get("id") == sid
        rep.ob("reader.archive-stream", ok_open and len(uses) == 1, peppifmt.READ, "archive",
               "tar::Archive::new must be given the caller's stream itself and be its only use (%d uses, %d Archive::new calls): reading or wrapping the stream before the tar parser makes the reader depend on what the first entry is" % (len(uses), len(opens)))
    name_total_rule(F, rep, m, loop)
    fa = arms.get("frames.arrow")
    ok = fa is not None and any(x.get("k") == "Break" for x in tir.walk(fa["body"]))
    rep.ob("reader.stop", ok, peppifmt.READ, "frames.arrow", "the reader must stop at frames.arrow (it is the last entry)")
    # version check dominates acceptance of peppi.json
    pa = arms.get("peppi.json")
    ok = False
    if pa is not None:
        body = L.strip_try(pa["body"])
        stmts = body.get("stmts", []) + ([body["tail"]] if body.get("tail") else [])
        i_chk = i_set = None
        for i, s in enumerate(stmts):
            for x in tir.walk(s):
                if x.get("k") == "Call" and declared(x) == "io::peppi::assert_current_version":
                    par = safety.parents(s)
                    if (par.get(id(x)) or {}).get("k") == "Try" and tir.place(x["args"][0]) == "p.version":
                        i_chk = i
                if x.get("k") == "Assign" and tir.place(x["l"]) == "peppi":
                    i_set = i
        ok = i_chk is not None and i_set is not None and i_chk < i_set
    rep.ob("reader.version-first", ok, peppifmt.READ, "peppi.json", "assert_current_version(p.version)? must precede acceptance of peppi.json")
    game = peppifmt.final_game(F)
    b = F.body(peppifmt.READ)
    req = any(n.get("k") == "Try" and strip(n["e"]).get("k") == "MethodCall" and strip(n["e"])["method"] in ("ok_or", "ok_or_else") and tir.place(strip(n["e"])["recv"]) == "peppi" for n in tir.walk(b["tir"]["value"]))
    rep.ob("reader.requires-peppi", req, peppifmt.READ, "peppi", "Ok must require the peppi.json slot")


def run(F, rep, tier):
    order_rule(F, rep)
    signature_rule(F, rep)
    consistency_rule(F, rep)
    determinism_rule(F, rep)
    reader_rule(F, rep)
    # metadata.json must be readable back by the crate's own reader: what the .slp reader admits (nesting depth) stays within
    # what serde_json's reader of metadata.json accepts (shared with C02)
    from props import C02 as _C02
    _C02.depth_rule(F, rep)
    mn = order.rule_min_version(F, rep)
    import common
    r2 = common.Report("ctl", "quick")
    order.decide(F, r2, "ctl", "io::peppi::assert_current_version", [3], lambda v: ("Err",) if v > mn else ("Ok",))
    rep.control("E5 distinguishes < MIN from > MIN", bool(r2.violations))
    rep.trusted += ["tar::Builder::append writes header + data + padding in call order; serde_json::to_vec is deterministic for IndexMap-backed maps and derived Serialize",
                    "tar::Header::new_gnu zero-initialises the header (mtime 0)"]
    rep.not_decided.append("that each JSON entry is valid JSON equal to the re-rendering of the reconstructed value (serde's output, trusted)")
    return rep.finish("other",
                      "Along the writer's body the tar_append name literals occur exactly in the documented order with end.* / gecko_codes.raw / frames.arrow under their presence guards and "
                      "nothing but into_inner/flush after; FILE_SIGNATURE equals the first entry name; start/end JSON and raw entries are rendered from the same values and decoded by the "
                      "same functions the .slp reader uses; no clock/RNG/env/HashMap is reachable from the writer; the reader ignores unknown entries, stops at frames.arrow, checks the "
                      "format version (E5: Err exactly for versions below MIN_VERSION) before accepting peppi.json, and requires it for Ok.",
                      "./check C18 --tier " + tier)
