"""C17 — serialising any accepted game gives a self-consistent file and a fixed point (structural)."""
import emission
import events
import layout as L
import model
import reach
import tir
from tir import strip, declared
from props import C08


def _stream_writes(b):
    import flow
    wname = b["tir"]["params"][0].get("name")
    return [c for g, c in flow.ordered_calls(b["tir"]["value"], lambda n: n.get("k") == "MethodCall" and n["method"].startswith("write_") and L.local_name(n["recv"]) == wname)], wname


def header_ok(F, b):
    """the first two writes are the file signature and raw_size(game) as a u32"""
    ws, _ = _stream_writes(b)
    if len(ws) < 2:
        return False
    sig = F.const_body("io::slippi::FILE_SIGNATURE")
    sigbytes = F.bytes_of(sig["tir"]["value"]) if sig else None
    a0 = strip(ws[0]["args"][0])
    first = ws[0]["method"] == "write_all" and (a0.get("path") == "io::slippi::FILE_SIGNATURE" or (sigbytes is not None and F.bytes_of(a0) == sigbytes))
    env = tir.LetEnv(b["tir"]["value"])
    a1 = env.resolve(ws[1]["args"][0])
    gname = b["tir"]["params"][1].get("name")
    second = ws[1]["method"] == "write_u32" and a1.get("k") == "MethodCall" and a1["method"] == "raw_size" and "PayloadSizes" in (strip(a1["recv"]).get("ty") or "") and L.local_name(a1["args"][0]) == gname
    return bool(first and second)


def payloads_shape_ok(F, b):
    """0x35, the byte 3n+1, then for each table entry its code (u8) and size (u16), n = number of entries"""
    import linear
    ws, wname = _stream_writes(b)
    # the count byte
    cnt = False
    for w in ws:
        if w["method"] == "write_u8":
            try:
                f = linear.lin(w["args"][0])
            except linear.NonLinear:
                continue
            syms = [k for k, v in f.items() if k and v]
            if len(syms) == 1 and f[syms[0]] == 3 and f.get("", 0) == 1 and syms[0].replace("&", "").endswith(".sizes.len()"):
                cnt = True
    loop = False
    for n in tir.walk(b["tir"]["value"]):
        if n.get("k") == "For":
            src = strip(n["iter"])
            while src.get("k") == "MethodCall" and src["method"] in ("iter", "into_iter") and not src.get("args"):
                src = strip(src["recv"])
            if not (tir.place(src) or "").endswith(".sizes"):
                continue
            p = n["pat"]
            while p.get("k") == "Ref":
                p = p["pat"]
            if p.get("k") != "Tuple" or len(p["pats"]) != 2 or any(q.get("k") != "Bind" for q in p["pats"]):
                continue
            ids = [q["id"] for q in p["pats"]]
            import flow
            body_ws = [c for g, c in flow.ordered_calls(n["body"], lambda x: x.get("k") == "MethodCall" and x["method"].startswith("write_") and L.local_name(x["recv"]) == wname)]
            loop = [w["method"] for w in body_ws] == ["write_u8", "write_u16"] and [strip(w["args"][0]).get("id") for w in body_ws] == ids
    return cnt and loop


def payloads_reader_ok(rp):
    """size byte s with s % 3 == 1 enforced; then per entry a u8 code and a big-endian u16 size stored at sizes[code]"""
    import flow
    root = rp["tir"]["value"]
    env = tir.LetEnv(root)
    rem = False
    for n in tir.walk(root):
        if n.get("k") == "If" and n["cond"].get("k") != "LetCond":
            c = strip(n["cond"])
            if c.get("k") == "Binary" and c.get("op") in ("Ne", "Eq"):
                for a, b in ((c["l"], c["r"]), (c["r"], c["l"])):
                    a0 = strip(a)
                    if a0.get("k") == "Binary" and a0.get("op") == "Rem" and tir.lit_int(a0["r"]) == 3 and tir.lit_int(b) == 1:
                        branch = n["then"] if c["op"] == "Ne" else n.get("else")
                        rem = rem or (branch is not None and any(x.get("k") == "Ret" and (declared(strip(x.get("e") or {})) or "").endswith("::Err") for x in tir.walk(branch)))
    loops = [n for n in tir.walk(root) if n.get("k") == "For"]
    ok_loop = False
    for lp in loops:
        reads = [c for g, c in flow.ordered_calls(lp["body"], lambda x: x.get("k") == "MethodCall" and (declared(x) or "").startswith("byteorder::ReadBytesExt::read_"))]
        if not reads:
            # `for entry in buf.chunks_exact(3) { code = entry[0]; size = u16::from_be_bytes([entry[1], entry[2]]); sizes[code] = .. }`
            src = strip(lp["iter"])
            if src.get("k") == "MethodCall" and src["method"] == "chunks_exact" and tir.lit_int(src["args"][0]) == 3 and lp["pat"].get("k") == "Bind":
                eid = lp["pat"]["id"]
                benv = tir.LetEnv(lp["body"])

                def elem(e):
                    e = strip(e)
                    return tir.lit_int(e["index"]) if e.get("k") == "Index" and strip(e["base"]).get("id") == eid else None
                be = [x for x in tir.walk(lp["body"]) if x.get("k") == "Call" and (declared(x) or "").endswith("from_be_bytes") and (x.get("ty") == "u16")]
                size_ok = len(be) == 1 and strip(be[0]["args"][0]).get("k") == "Array" and [elem(y) for y in strip(be[0]["args"][0])["elems"]] == [1, 2]
                for a in tir.walk(lp["body"]):
                    if a.get("k") == "Assign" and strip(a["l"]).get("k") == "Index":
                        ix = strip(strip(a["l"])["index"])
                        while ix.get("k") == "Cast":
                            ix = strip(ix["e"])
                        if elem(benv.resolve(ix, peel=True)) == 0 and size_ok:
                            ok_loop = True
            continue
        if [r["method"] for r in reads] != ["read_u8", "read_u16"] or L.endian_of(reads[1]) != "BigEndian":
            continue
        benv = tir.LetEnv(lp["body"])
        for a in tir.walk(lp["body"]):
            if a.get("k") == "Assign" and strip(a["l"]).get("k") == "Index":
                ix = strip(strip(a["l"])["index"])
                while ix.get("k") == "Cast":
                    ix = strip(ix["e"])
                src = benv.resolve(ix, peel=True)
                ok_loop = ok_loop or src is reads[0] or (src.get("k") == "MethodCall" and src.get("method") == "read_u8")
    return bool(rem and ok_loop)


def run(F, rep, tier):
    M = model.Model(F, rep, want=("read_push", "write", "size"))
    rep.floor("version classes", len(M.classes), 25)
    # 1 + 2 + 3: declared length = emitted length, canonical emission order, reader accepts what the writer emits
    emission.rule_emission(F, rep, M)
    model.rule_L1(rep, M)
    # the second read must reproduce the frame data: columns stay balanced and frames bracketed
    M2 = model.Model(F, rep, want=("with_capacity", "push_null", "read_push"))
    model.rule_L2(rep, M2)
    from props import C04
    C04.structure_rules(F, reach.Graph(F), rep, M2)
    # the reader consumes exactly the raw element: the event loop's own bound (a replay without Game End ends by it)
    from props import C07 as _C07
    _C07.loop_bound_rule(F, rep, "read.loop-bound")
    # the declared length written into the header is raw_size's value, computed before anything is written
    b = F.body("io::slippi::ser::write")
    txt = tir.pretty(b["tir"]["value"])
    rep.ob("declared.header", header_ok(F, b), "io::slippi::ser::write", "header",
           "the header must be the file signature followed by raw_size(game) as a big-endian u32")
    calls = [x for x in tir.walk(b["tir"]["value"]) if x.get("k") == "MethodCall" and x["method"] == "write_u32"]
    rep.ob("declared.big-endian", len(calls) == 1 and L.endian_of(calls[0]) == "BigEndian", "io::slippi::ser::write", "endianness", "the raw length must be written big-endian")
    sig = F.const_body("io::slippi::FILE_SIGNATURE")
    spec = model.load_spec("events.json")
    got = [tir.lit_int(e) for e in tir.strip(sig["tir"]["value"]).get("elems", [])] if sig else None
    rep.ob("declared.signature", got == spec["slp_signature"], "io::slippi::FILE_SIGNATURE", "bytes", "the .slp signature is %s, spec says %s" % (got, spec["slp_signature"]))
    # the payloads event itself: size byte = 3*n+1, one (u8 code, u16 size) triple per entry
    ok = payloads_shape_ok(F, b)
    rep.ob("payloads.shape", ok, "io::slippi::ser::write", "payloads", "the Event Payloads event must be 0x35, the byte 3n+1, then n (code, u16 size) triples")
    rp = F.body("io::slippi::de::parse_payloads")
    rep.ob("payloads.reader", payloads_reader_ok(rp), "io::slippi::de::parse_payloads", "payloads", "the reader must parse the same triple layout")
    # 4: dropped content stays dropped consistently — the unknown path stores nothing in the game (C08 clause 2)
    C08.unknown_path_rule(F, rep)
    # junk after Game End inside the raw element is consumed but never stored: the only game fields read() itself writes
    # are the doubled-end quirk and the hash
    rd = F.body("io::slippi::de::read")
    stored = sorted(set(p for p, n in C08.mutations(rd["tir"]["value"]) if p and p.startswith("state.game.") and n.get("k") in ("Assign", "AssignOp", "MethodCall")))
    rep.ob("junk.not-stored", all(p.startswith("state.game.quirks") or p == "state.game.hash" for p in stored), "io::slippi::de::read", "junk",
           "read() stores data into the game outside the event handlers: %s (trailing bytes after Game End must be discarded; only the doubled-end quirk and the hash are recorded)" % stored,
           sample={"game_fields_written_by_read": stored})
    # "can be read again ... same metadata": the metadata element the writer emits is in the language the reader accepts,
    # with byte-counted lengths on both sides (C16's grammar agreement), placed after the raw element under the same keys
    from props import C16
    # End::size feeds the doubled-Game-End test of the reader and the payload table of a game without an end
    from props import C05 as _C05
    _C05.end_size_rule(F, rep)
    # the reader must accept every well-formed file: the block decoders refuse nothing the spec's value domains allow
    import model as _model
    _C05.end_rule(F, rep, _model.load_spec("start_spec.json"))
    _C05.no_extra_refusal_rule(F, rep)
    from props import C08 as _C08
    _C08.trailing_rule(F, rep)
    # "the second read yields the same Gecko codes": blocks kept whole by the reader and re-emitted with size, wrapped code and
    # final flag by the writer (C01's gecko rule)
    from props import C01 as _C01
    _C01.gecko_rule(F, rep)
    C16.reader_grammar(F, rep)
    C16.writer_grammar(F, rep)
    C16.writer_domain_rule(F, rep)
    C16.toplevel_rule(F, rep)
    # positive control: the raw_size polynomial must change when a term is dropped
    full = emission.RawSize(F).poly()
    dropped = full - emission.Poly.atom("END") * emission.Poly.atom("DOUBLE") * (emission.Poly.const(1) + emission.Poly.atom("sz[GameEnd]"))
    rep.control("polynomial comparison sees a dropped doubled-end term", emission.canon(full) != emission.canon(dropped) and ("DOUBLE", "END") in full)
    rep.trusted += ["byteorder write_* emit exactly their width; Write::write_all emits exactly the slice"]
    rep.assumptions += ["the Gecko blob holds 512*ceil(actual_size/512) bytes", "a game with Gecko codes has version >= 3.3", "item_offset spans the item column"]
    rep.not_decided.append("the fixed-point equality of two writes (value-level); decided: declared length = emitted length symbolically, canonical order, table/emission agreement, nothing dropped is stored")
    return rep.finish("other",
                      "The raw length written into the header is PayloadSizes::raw_size, whose arithmetic normalises — for every version class and every combination of end / doubled end / gecko / "
                      "follower presence — to the same polynomial as the bytes the writer emits between the header and the metadata element; events are emitted in canonical order "
                      "(Payloads, Game Start, splitter blocks, per frame Start, Pre*, Item*, Post*, End, then Game End(s)); every emitted event has a payload-table entry of exactly the emitted size "
                      "pushed under the same version gate, so the reader accepts what the writer emits; unknown events and trailing junk are never stored in the game.",
                      "./check C17 --tier " + tier)
