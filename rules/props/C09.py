"""C09 — writers refuse games newer than the supported version (proof).
E5 decides the predicate; E4 (MIR dominance) shows the guard's success edge dominates everything the writers do;
a TIR rule shows no other version-dependent refusal exists; W shows the guard cannot be bypassed through another pub fn."""
import flow
import layout as L
import model
import order
import reach
import tir
from tir import declared, strip

WRITERS = ["io::slippi::ser::write", "io::peppi::ser::write"]
GUARD = "io::slippi::assert_max_version"


def guard_rule(F, G, rep, fn):
    bodies = G.bodies.get(fn) or []
    main = [m for p, m, _ in bodies if p == fn]
    if not main:
        rep.ob("D.guard", False, fn, "missing", "writer %s not found" % fn)
        return
    mir = main[0]
    calls = flow.find_calls(mir, lambda c, t: c == GUARD)
    rep.ob("D.guard.present", len(calls) == 1, fn, "guard", "%s must call %s exactly once (found %d)" % (fn, GUARD, len(calls)))
    if len(calls) != 1:
        return
    gb, gt = calls[0]
    ok, off = flow.guard_dominates(mir, gb)
    det = "; ".join("%s %s at %s" % (o[0], reach.short((o[2] or {}).get("resolved") or (o[2] or {}).get("fn") or "?"), reach.spstr((o[2] or {}).get("sp"))) for o in off[:4])
    rep.ob("D.guard.dominates", ok, fn, "dominance", "%s: calls not dominated by the success edge of the version guard (output could be produced, or another error could pre-empt the refusal): %s" % (fn, det),
           sample={"writer": fn, "guard_block": gb, "calls_dominated": len([b for b in mir["blocks"] if b["term"].get("t") == "call" and not b.get("cleanup")]) - 1})
    # closures of the writer run only when called from the (dominated) body
    # argument: the game's own version
    b = F.body(fn)
    arg_ok = False
    for n in tir.walk(b["tir"]["value"]):
        if n.get("k") == "Call" and declared(n) == GUARD:
            gname = next((p.get("name") for p in b["tir"]["params"] if "Game" in (p.get("ty") or "")), "game")
            arg_ok = tir.LetEnv(b["tir"]["value"]).place(n["args"][0], peel=False) == gname + ".start.slippi.version"
    rep.ob("D.guard.arg", arg_ok, fn, "argument", "%s does not pass game.start.slippi.version to the guard" % fn)


def version_refusals(F, G, rep):
    """no error/panic exit control-dependent on a version comparison other than the guard, in the writers' reachable set"""
    R = G.reachable(WRITERS)
    rep.counts["writer_reachable_fns"] = len(R)
    n_gates = 0
    for fn in sorted(R):
        b = F.body(fn)
        if b is None or fn == GUARD:
            continue
        for n in tir.walk(b["tir"]["value"]):
            if n.get("k") in ("If", "Match"):
                cond = n.get("cond") or n.get("scrut")
                f = L.vcond(cond)
                if f is None and not L.mentions_version(cond):
                    continue
                n_gates += 1
                branches = [n.get("then"), n.get("else")] if n["k"] == "If" else [a["body"] for a in n["arms"]]
                bad = None
                for br in branches:
                    for x in tir.walk(br or {}):
                        if x.get("k") == "Ret":
                            # a refusal is an error exit: `return Err(..)` (or a Result that is not visibly Ok); an early
                            # `return value` of a guard clause is an ordinary result
                            rv = strip(x.get("e") or {})
                            is_ok = rv.get("k") == "Call" and (declared(rv) or "").endswith("::Ok")
                            if (rv.get("ty") or "").startswith("std::result::Result") and not is_ok:
                                bad = x
                        if x.get("k") == "Call" and (declared(x) or "").endswith("::Err") and (x.get("dk") or "").startswith("Ctor"):
                            bad = x
                        if x.get("k") == "Call" and (declared(x) or "").startswith("core::panicking"):
                            bad = x
                if tir.in_macro(n, "assert_eq", "assert", "assert_ne"):
                    continue  # handled below
                rep.ob("no-version-refusal", bad is None, fn, "gate", "%s: error/panic exit under a version condition at %s" % (fn, tir.sp(bad or n)), tir.sp(n))
    rep.counts["version_gates_in_writers"] = n_gates
    # assert!/assert_eq! whose operands mention a Version: discharge when both sides are the same place at every call site
    for fn in sorted(R):
        b = F.body(fn)
        if b is None:
            continue
        for n in tir.walk(b["tir"]["value"]):
            if n.get("k") == "Match" and tir.in_macro(n, "assert_eq", "assert_ne") and strip(n["scrut"]).get("k") == "Tup":
                ops = [strip(e) for e in strip(n["scrut"])["elems"]]
                if not any("Version" in (o.get("ty") or "") for o in ops):
                    continue
                pl = [tir.place(o) for o in ops]
                # both sides already denote the same place inside this function (through immutable lets): trivially equal
                env_ = tir.LetEnv(b["tir"]["value"])
                pe = [env_.place(o, peel=False) for o in ops]
                if pe[0] is not None and pe[0] == pe[1]:
                    rep.ob("no-version-refusal.assert", True, fn, "assert_eq", "", tir.sp(n))
                    continue
                # substitute the callee's parameters by the argument places of every call site
                sites = []
                for caller in sorted(R):
                    cb = F.body(caller)
                    if cb is None:
                        continue
                    for c in tir.walk(cb["tir"]["value"]):
                        if c.get("k") == "Call" and declared(c) == fn:
                            sites.append((caller, c))
                params = [p.get("name") for p in b["tir"]["params"]]
                ok = bool(sites) and None not in pl
                for caller, c in sites:
                    sub = {}
                    for pn, a in zip(params, c["args"]):
                        ap = tir.place(a)
                        if ap is None:
                            ok = False
                        sub[pn] = ap
                    # resolve one level of `let x = place;` in the caller
                    cbody = F.body(caller)
                    lets = {}
                    for s in tir.walk(cbody["tir"]["value"]):
                        if s.get("k") == "Let" and s["pat"].get("k") == "Bind" and s.get("init") is not None:
                            ip = tir.place(s["init"])
                            if ip:
                                lets[s["pat"]["name"]] = ip

                    def res(p):
                        head, _, rest = p.partition(".")
                        base = sub.get(head)
                        if base is None:
                            return None
                        bh, _, br = base.partition(".")
                        if bh in lets:
                            base = lets[bh] + ("." + br if br else "")
                        return base + ("." + rest if rest else "")
                    if ok:
                        a, bb = res(pl[0]), res(pl[1])
                        ok = a is not None and a == bb
                rep.ob("no-version-refusal.assert", ok, fn, "assert_eq", "%s: assertion on a version value that is not the same value on both sides at every call site (%s)" % (fn, pl), tir.sp(n),
                       sample={"fn": fn, "assert": pl, "call_sites": len(sites)})


def who_may_call(F, G, rep):
    """only the two guarded writers reach the .slp signature write / the tar builder among pub fns"""
    sinks = set()
    for fn in G.local:
        for bp, i, t in G.calls(fn):
            c = G.callee(t) or ""
            if c.startswith("tar::Builder::<W>::new"):
                sinks.add(fn)
        b = F.body(fn)
        if b is not None:
            for n in tir.walk(b["tir"]["value"]):
                if n.get("k") == "Path" and n.get("path") == "io::slippi::FILE_SIGNATURE":
                    # used as data to write (not to compare)
                    sinks.add(fn)
    sinks.discard("io::slippi::de::parse_header")   # compares the signature when reading
    rep.floor("output sinks (signature write / tar builder)", len(sinks), 2)
    rev = {}
    for fn in G.local:
        for c in G.edges(fn):
            rev.setdefault(c, set()).add(fn)
    reachers = set()
    st = list(sinks)
    while st:
        x = st.pop()
        if x in reachers:
            continue
        reachers.add(x)
        st.extend(rev.get(x, ()))
    pubs = [f for f in reachers if (F.fns.get(f) or {}).get("vis") == "Public"]
    for f in sorted(pubs):
        rep.ob("W.writers", f in WRITERS, f, "pub-sink", "public fn %s reaches a file-producing sink without being one of the guarded writers" % f)
    rep.floor("guarded writer entry points", len([f for f in pubs if f in WRITERS]), 2)


def run(F, rep, tier):
    G = reach.Graph(F)
    mx = order.rule_max_version(F, rep)
    # "supported" means: the newest version whose fields the crate knows. The bound is the newest (major, minor) of the field
    # oracle (spec/frames_spec.json, spec/start_spec.json — 3.16) with patch 0; a bound above it lets the writers serialise games
    # whose newer fields were dropped on read, which is the data loss the guard exists to prevent
    import model as _model
    newest = (0, 0)

    def _scan(fs):
        nonlocal newest
        for f_ in fs or []:
            if f_.get("since"):
                newest = max(newest, tuple(int(x) for x in f_["since"].split(".")[:2]))
            _scan(f_.get("fields"))
    for nm in ("frames_spec.json", "start_spec.json"):
        sp_ = _model.load_spec(nm)
        for v_ in sp_.values():
            if isinstance(v_, dict):
                _scan(v_.get("fields"))
                for c_ in v_.get("payload_len_classes", []) or []:
                    newest = max(newest, tuple(int(x) for x in c_["since"].split(".")[:2]))
        _scan(sp_.get("fields") if isinstance(sp_.get("fields"), list) else None)
    # .. or of the code's own field tables when they are ahead of the oracle (a genuine upgrade adds the new version's fields,
    # i.e. a `gte(M, m)` gate for it, together with the new bound)
    try:
        Mg = _model.Model(F, rep, want=("read_push",))
        code_newest = max([v for v in Mg.classes if v < (255, 255)] + [(0, 0)])
    except Exception:
        code_newest = (0, 0)
    known = max(newest, tuple(code_newest[:2]))
    rep.ob("E5.max.oracle", mx is not None and tuple(mx) == (known[0], known[1], 0), "io::slippi::MAX_SUPPORTED_VERSION", "oracle",
           "MAX_SUPPORTED_VERSION is %s but the newest version whose fields are known (field oracle %d.%d, newest gate in the field tables %d.%d) is %d.%d.0: games above that lose their newer fields on read and must be refused" % (
               ".".join(str(x) for x in (mx or ())), newest[0], newest[1], code_newest[0], code_newest[1], known[0], known[1]), sample={"oracle_newest": list(newest), "code_newest_gate": list(code_newest[:2])})
    for fn in WRITERS:
        guard_rule(F, G, rep, fn)
    version_refusals(F, G, rep)
    who_may_call(F, G, rep)
    # "for every game": the verdict is a function of the game's version alone, not of earlier calls
    from props import C18
    amb = C18.ambient_state(F, G, G.reachable([GUARD]))
    rep.ob("guard.stateless", not amb, GUARD, "ambient-state", "the version guard keeps state across calls (%s): a refusal could depend on what was checked before" % "; ".join("%s in %s @ %s" % (c, reach.short(o), sp) for o, c, sp in amb[:3]))
    # a version-dependent crash in the writers is a refusal on version grounds: L5
    M = model.Model(F, rep, want=("with_capacity", "into"))
    model.rule_L5(rep, M)
    # positive controls
    import common
    r2 = common.Report("ctl", "quick")
    order.decide(F, r2, "ctl", GUARD, [3], lambda v: ("Ok",) if v < mx else ("Err",))
    rep.control("E5 distinguishes <= MAX from < MAX", bool(r2.violations))
    # dominance control: pretend the guard is some later call in the same body; earlier calls must be reported
    mir = [m for p, m, _ in G.bodies["io::slippi::ser::write"] if p == "io::slippi::ser::write"][0]
    later = [i for i, t in flow.find_calls(mir, lambda c, t: c.endswith("game_start"))]
    if later:
        ok, off = flow.guard_dominates(mir, later[0])
        rep.control("D fires when the guard sits after the first writes", (not ok) and len(off) > 0)
    rep.trusted += ["derived PartialOrd/PartialEq on a tuple struct compare lexicographically in field order", "rustc MIR construction (CFG) at mir-opt-level=0"]
    return rep.finish("proof",
                      "assert_max_version is evaluated on representatives of every order type of (major, minor, patch) against MAX_SUPPORTED_VERSION and returns Ok exactly for "
                      "version <= MAX (derived lexicographic order). In the MIR of both writers the success edge of the guard call dominates every other call (so nothing is "
                      "written and no other error can pre-empt the refusal) and its argument is game.start.slippi.version; no other error or panic exit in the writers' "
                      "reachable set is control-dependent on a version comparison (assert_eq!(ver, s.slippi.version) compares a value with itself at its only call site); "
                      "only the two guarded writers reach the file-producing sinks among public functions.",
                      "./check C09 --tier " + tier)
