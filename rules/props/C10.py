"""C10 — skip-frames parsing returns the same start, end and metadata as a full parse (structural, weak)."""
import layout as L
import linear
import peppifmt
import reach
import safety
import tir
from tir import strip, declared, callee

READ = "io::slippi::de::read"


def skip_block(F):
    b = F.body(READ)
    for n in tir.walk(b["tir"]["value"]):
        if n.get("k") == "If" and "skip_frames" in tir.pretty(n["cond"]):
            return b, n
    return b, None


def single_tail_rule(F, rep):
    b, blk = skip_block(F)
    rep.ob("tail.skip-block", blk is not None and not blk.get("else"), READ, "skip-block", "read() must have one skip-frames block without an alternative tail")
    if blk is None:
        return None
    exits = [x for x in tir.walk(blk["then"]) if (x.get("k") == "Ret" and not (declared(strip(x.get("e") or {})) or "").endswith("::Err")) or x.get("k") == "Break"]
    rep.ob("tail.no-exit", not exits, READ, "exits", "the skip block has an Ok exit of its own: start/end/metadata would be produced by different code than in a full parse")
    # it sits at the top level of read(), before the event loop
    val = L.strip_try(b["tir"]["value"])
    pos = {("skip" if L.strip_try(s) is blk else ("loop" if L.strip_try(s).get("k") == "Loop" else None)): i for i, s in enumerate(val.get("stmts", []))}
    rep.ob("tail.order", "skip" in pos and "loop" in pos and pos["skip"] < pos["loop"], READ, "order", "the skip block must precede the common event loop at the top level of read()")
    # parse_start is called before, identically for both modes
    calls = [callee(x) for s in val.get("stmts", [])[:pos.get("skip", 0)] for x in tir.walk(s) if x.get("k") == "Call"]
    rep.ob("tail.same-start", "io::slippi::de::parse_start" in calls, READ, "parse_start", "Game Start must be parsed by the same parse_start call in both modes")
    return blk


def branch_contexts(root):
    """id(node) -> tuple of (id(branch node), arm label) for the enclosing If/Match branches below root (conditions/scrutinees belong to the outer context)"""
    out = {}

    def go(n, ctx):
        out[id(n)] = ctx
        k = n.get("k")
        if k == "If":
            go(n["cond"], ctx)
            go(n["then"], ctx + ((id(n), "then"),))
            if n.get("else"):
                go(n["else"], ctx + ((id(n), "else"),))
            return
        if k == "Match":
            go(n["scrut"], ctx)
            for i, a in enumerate(n["arms"]):
                if a.get("guard"):
                    go(a["guard"], ctx + ((id(n), i),))
                go(a["body"], ctx + ((id(n), i),))
            return
        for c in tir.children(n):
            go(c, ctx)
    go(root, ())
    return out


def checked_sub_match(i):
    """{'a', 'b', 'guard'} for `match a.checked_sub(b) { Some(d) [if guard] => d, <others diverge> }`, and for the combinator chain
    `a.checked_sub(b).filter(|_| guard).ok_or_else(..)?`: the value is a - b, refused when a < b or when the guard is false"""
    i = strip(i)
    if i.get("k") == "Try":
        c = strip(i["e"])
        guard = None
        if c.get("k") == "MethodCall" and c["method"] in ("ok_or", "ok_or_else"):
            c = strip(c["recv"])
            if c.get("k") == "MethodCall" and c["method"] == "filter" and len(c["args"]) == 1:
                cl = strip(c["args"][0])
                if cl.get("k") == "Closure" and len(cl["params"]) == 1 and cl["params"][0].get("k") == "Wild":
                    guard = cl["body"]
                    c = strip(c["recv"])
                else:
                    return None
            if c.get("k") == "MethodCall" and c["method"] == "checked_sub" and len(c["args"]) == 1:
                return {"a": c["recv"], "b": c["args"][0], "guard": guard}
        return None
    if i.get("k") != "Match":
        return None
    sc = strip(i["scrut"])
    if sc.get("k") == "Tup":
        # match (x, a.checked_sub(b)) { (0, _) | (_, None) => return Err(..), (_, Some(d)) => d }
        js = [j for j, e in enumerate(sc["elems"]) if strip(e).get("k") == "MethodCall" and strip(e)["method"] == "checked_sub" and len(strip(e)["args"]) == 1]
        if len(js) != 1:
            return None
        j = js[0]
        cs = strip(sc["elems"][j])
        out, zero_of = None, []
        for a in i["arms"]:
            alts = a["pat"]["pats"] if a["pat"].get("k") == "Or" else [a["pat"]]
            if diverges_err(a["body"]):
                for p in alts:
                    if p.get("k") != "Tuple" or len(p["pats"]) != len(sc["elems"]):
                        return None
                    for k2, q in enumerate(p["pats"]):
                        if q.get("k") == "Lit" and q["e"].get("lit") == "int" and q["e"].get("v") == 0 and k2 != j:
                            zero_of.append(sc["elems"][k2])
                continue
            if len(alts) == 1 and alts[0].get("k") == "Tuple" and len(alts[0]["pats"]) == len(sc["elems"]):
                q = alts[0]["pats"][j]
                body = L.strip_try(a["body"])
                if (q.get("k") == "TupleStruct" and (q.get("path") or "").endswith("Some") and q["pats"][0].get("k") == "Bind" and body.get("k") == "Path" and body.get("id") == q["pats"][0]["id"]
                        and all(r.get("k") == "Wild" for k2, r in enumerate(alts[0]["pats"]) if k2 != j) and not a.get("guard")):
                    out = {"a": cs["recv"], "b": cs["args"][0], "guard": None, "zero_refused": zero_of}
                    continue
            return None
        if out is not None:
            out["zero_refused"] = zero_of
        return out
    if not (sc.get("k") == "MethodCall" and sc["method"] == "checked_sub" and len(sc["args"]) == 1):
        return None
    out = None
    for a in i["arms"]:
        p = a["pat"]
        body = L.strip_try(a["body"])
        if p.get("k") == "TupleStruct" and (p.get("path") or "").endswith("Some") and p["pats"][0].get("k") == "Bind" and body.get("k") == "Path" and body.get("id") == p["pats"][0]["id"]:
            out = {"a": sc["recv"], "b": sc["args"][0], "guard": a.get("guard")}
        elif not diverges_err(a["body"]):
            return None
    return out


def diverges_err(e):
    e = L.strip_try(e)
    if e.get("k") == "Block" and not e.get("tail") and len(e.get("stmts", [])) == 1:
        e = L.strip_try(e["stmts"][0].get("e") or {})
    if e.get("k") == "Block" and e.get("tail") is not None and not e.get("stmts"):
        e = L.strip_try(e["tail"])
    return e.get("k") == "Ret" and (declared(strip(e.get("e") or {})) or "").endswith("::Err")


def uses_names(env, n):
    return n


def refusal_atoms(block):
    """conditions under which the block returns Err, as atoms ('eq0', x) / ('lt', a, b)"""
    atoms = []

    def cond_atoms(c, positive=True):
        c = strip(c)
        if c.get("k") == "Binary" and c.get("op") in ("Or", "And"):
            # refusal on (A || B) refuses on each; on (A && B) neither alone — only Or (positive) / And (negated) distribute
            if (c["op"] == "Or") == positive:
                cond_atoms(c["l"], positive)
                cond_atoms(c["r"], positive)
            return
        if c.get("k") == "Unary" and c.get("op") == "Not":
            cond_atoms(c["e"], not positive)
            return
        if c.get("k") == "Binary":
            l, r, op = tir.place(c["l"]) or L.local_name(c["l"]), tir.place(c["r"]) or L.local_name(c["r"]), c["op"]
            if not positive:
                op = {"Eq": "Ne", "Ne": "Eq", "Lt": "Ge", "Ge": "Lt", "Gt": "Le", "Le": "Gt"}.get(op, op)
            if op == "Eq" and tir.lit_int(c["r"]) == 0 and l:
                atoms.append(("eq0", l))
            if op == "Eq" and tir.lit_int(c["l"]) == 0 and r:
                atoms.append(("eq0", r))
            if op == "Lt":
                atoms.append(("lt", l or "?", r or "?", c["l"], c["r"]))
            if op == "Gt":
                atoms.append(("lt", r or "?", l or "?", c["r"], c["l"]))
    for x in tir.walk(block):
        if x.get("k") == "If" and x["cond"].get("k") != "LetCond":
            if diverges_err(x["then"]):
                cond_atoms(x["cond"], True)
            elif x.get("else") is not None and diverges_err(x["else"]):
                cond_atoms(x["cond"], False)
        cs = checked_sub_match(x) if x.get("k") in ("Match", "Try") else None
        if cs is not None:
            a, b = tir.place(cs["a"]) or L.local_name(cs["a"]), tir.place(cs["b"]) or L.local_name(cs["b"])
            atoms.append(("lt", a or "?", b or "?", cs["a"], cs["b"]))
            if cs["guard"] is not None:
                cond_atoms(cs["guard"], False)      # the Some arm is refused when its guard is false
            for z in cs.get("zero_refused") or []:
                nm = tir.place(z) or L.local_name(z)
                if nm:
                    atoms.append(("eq0", nm))
    return atoms


def lin_sat(e, env):
    """linear form of e where `a.saturating_sub(b)` counts as a - b (the block refuses the cases in which they differ, or only
    uses the result under a comparison that is unaffected by the clamp)"""
    e0 = strip(e)
    if e0.get("k") == "MethodCall" and e0["method"] == "saturating_sub" and len(e0["args"]) == 1:
        return linear.add(lin_sat(e0["recv"], env), lin_sat(e0["args"][0], env), -1)
    return linear.lin(e, env)


def advance_rule(F, rep, blk):
    env = {}
    skipname = None
    for s in tir.walk(blk["then"]):
        if s.get("k") == "Let" and s["pat"].get("k") == "Bind":
            i = strip(s["init"])
            try:
                cs = checked_sub_match(s["init"])
                if cs is not None:
                    # `match a.checked_sub(b) { Some(d) [if g] => d, _ => return Err(..) }`: the value is a - b where it exists
                    env[s["pat"]["name"]] = linear.add(lin_sat(cs["a"], env), lin_sat(cs["b"], env), -1)
                else:
                    env[s["pat"]["name"]] = lin_sat(i, env)
            except linear.NonLinear:
                env[s["pat"]["name"]] = {s["pat"]["name"]: 1, "": 0}
            if s["pat"]["name"] == "skip":
                skipname = "skip"
    # the three uses of the advance, each normalised to a linear form over the let-bound names
    uses = {"copy": None, "seek": None, "count": None}

    def form(e):
        e = strip(e)
        while e.get("k") in ("Try", "MethodCall") and (e.get("k") == "Try" or e.get("method") in ("try_into", "map_err", "into", "unwrap")):
            e = strip(e["e"] if e.get("k") == "Try" else e["recv"])
        try:
            f = linear.lin(e)
            return linear.show(f)
        except linear.NonLinear:
            return None
    for x in tir.walk(blk["then"]):
        if x.get("k") == "MethodCall" and x["method"] == "take" and (declared(x) or "").endswith("Read::take"):
            uses["copy"] = form(x["args"][0])
        if x.get("k") == "Call" and (declared(x) or "").endswith("SeekFrom::Current"):
            uses["seek"] = form(x["args"][0])
        if x.get("k") == "AssignOp" and tir.place(x["l"]) == "state.bytes_read":
            uses["count"] = form(x["r"])
    ok = uses["copy"] is not None and uses["copy"] == uses["seek"] == uses["count"]
    # every path that moves the stream also moves the counter: the counter update may not sit in a narrower branch than an advance
    ctxs = branch_contexts(blk["then"])
    adv, cnt = [], []
    for x in tir.walk(blk["then"]):
        if x.get("k") == "MethodCall" and x["method"] == "take" and (declared(x) or "").endswith("Read::take"):
            adv.append(("copy", x))
        if x.get("k") == "Call" and (declared(x) or "").endswith("SeekFrom::Current"):
            adv.append(("seek", x))
        if x.get("k") == "AssignOp" and tir.place(x["l"]) == "state.bytes_read":
            cnt.append(x)
            if form(x["r"]) != uses["count"]:
                ok = False
    for nm, a in adv:
        ca = ctxs.get(id(a), ())
        covered = [c for c in cnt if ctxs.get(id(c), ()) == ca[:len(ctxs.get(id(c), ()))]]
        rep.ob("advance.counted", len(covered) == 1, READ, nm, "the %s advance at %s is followed by %d byte-counter updates on its path (want exactly 1): bytes_read would disagree with the stream position" % (
            nm, tir.sp(a), len(covered)), tir.sp(a))
    for c in cnt:
        cc = ctxs.get(id(c), ())
        rep.ob("advance.counted", any(ctxs.get(id(a), ())[:len(cc)] == cc for _, a in adv), READ, "count", "a byte-counter update at %s is on a path without a stream advance" % tir.sp(c), tir.sp(c))
    rep.ob("advance.same-value", ok, READ, "skip", "the hashing branch, the seeking branch and the byte counter must advance by the same value: %s" % uses, sample={"uses": uses})
    want = None
    if uses["count"] in env:
        got = env[uses["count"]]
        # raw_len - state.bytes_read - (1 + table[GameEnd])
        sym_end = [k for k in got if "GameEnd" in k or "payload_sizes" in k]
        ok = got.get("raw_len") == 1 and got.get("state.bytes_read") == -1 and got.get("", 0) == -1 and len(sym_end) == 1 and got[sym_end[0]] == -1 and len([k for k, v in got.items() if v and k != ""]) == 3
        rep.ob("advance.value", ok, READ, "skip-value", "the advance must be raw_len - bytes_read - (1 + table[GameEnd]); got %s" % linear.show(got), sample={"skip": linear.show(got)})
    else:
        rep.cannot("advance.value", READ, L.Unsupported(blk, "skip value is not a let-bound linear expression"))
    # the error exit of the block is taken exactly when the jump is impossible
    atoms = refusal_atoms(blk["then"])
    # refused when raw_len == 0, and when the advance would be negative: some refusal `A < B` with A - B equal to the advance itself
    skipform = env.get(uses["count"]) if uses["count"] in env else None
    neg = False
    for a in atoms:
        if a[0] == "lt" and skipform is not None:
            try:
                d = linear.add(lin_sat(a[3], env), lin_sat(a[4], env), -1)
                neg = neg or {k: v for k, v in d.items() if v} == {k: v for k, v in skipform.items() if v}
            except linear.NonLinear:
                pass
    ok = any(a[0] == "eq0" and a[1] == "raw_len" for a in atoms) and neg
    # .. and *only* then: the full parse has no such exit, so any further refusal inside the skip block rejects a replay the
    # full parse reads (fail closed: one construction of the crate's refusal error on the pinned tree, the "Cannot skip" one)
    # not counted: `payload_sizes[GameEnd].ok_or(..)?` — parse_payloads guarantees that entry (the panic inventory's side
    # invariant `payloads_game_end`; the pinned tree unwraps it), so that refusal cannot be taken
    import safety as _safety
    dead = set()
    if _safety.chk_payloads_game_end(F, None):
        for x in tir.walk(blk["then"]):
            if x.get("k") == "MethodCall" and x["method"] in ("ok_or", "ok_or_else") and len(x.get("args", [])) == 1:
                rv = strip(x["recv"])
                if rv.get("k") == "Index" and (tir.place(rv["base"]) or "").endswith("payload_sizes") and any((y.get("path") or "").endswith("Event::GameEnd") for y in tir.walk(rv["index"])):
                    for y in tir.walk(x["args"][0]):
                        dead.add(id(y))
    refusals = [tir.sp(x) for x in tir.walk(blk["then"]) if x.get("k") in ("Call", "Struct") and "Error::InvalidData" in (x.get("path") or declared(x) or "") and id(x) not in dead]
    rep.ob("advance.no-extra-refusal", len(refusals) <= 1, READ, "refusals",
           "the skip-frames block constructs %d refusals (%s), one on the pinned tree (raw_len == 0 or fewer than a Game End's bytes remain): with skip-frames the reader can reject a replay it reads in full" % (len(refusals), ", ".join(refusals)))
    rep.floor("refusal sites in the skip-frames block", len(refusals), 1)
    rep.ob("advance.guard", ok, READ, "guard", "the block must refuse to skip when raw_len is 0 or fewer than a Game End's bytes remain; refusal conditions found: %s" % sorted(a[:3] for a in atoms))


def skip_arm_ok(F, arm_body, branch):
    """the skip branch builds Frame::with_capacity(0, <version of the start block>, &port_occupancy(<the start block>))"""
    lets = {}
    for n in tir.walk(arm_body):
        if n.get("k") == "Let" and n["pat"].get("k") == "Bind" and n.get("init") is not None:
            lets[n["pat"].get("id")] = n["init"]

    def resolve(e, depth=0):
        s = strip(e)
        while s.get("k") == "Try" or (s.get("k") == "MethodCall" and s["method"] in ("ok_or", "ok_or_else", "as_ref", "unwrap", "expect")):
            s = strip(s["e"] if s.get("k") == "Try" else s["recv"])
        if s.get("k") == "Path" and s.get("res") == "local" and s.get("id") in lets and depth < 4:
            return resolve(lets[s["id"]], depth + 1)
        return s

    for c in tir.walk(branch):
        if c.get("k") == "Call" and declared(c) == "frame::mutable::Frame::with_capacity" and len(c["args"]) == 3:
            cap, ver, ports = c["args"]
            if tir.lit_int(cap) != 0:
                return False
            v = resolve(ver)
            # version: start.slippi.version, possibly via start.as_ref().map(|s| s.slippi.version)
            start_of_version = None
            if v.get("k") == "Field" and v["name"] == "version":
                start_of_version = resolve(strip(strip(v["base"]).get("base") or {}))
            elif v.get("k") == "MethodCall" and v["method"] == "map":
                cl = strip(v["args"][0])
                if cl.get("k") == "Closure" and tir.pretty(cl["body"]).endswith(".slippi.version"):
                    start_of_version = resolve(v["recv"])
            p = strip(ports)
            start_of_ports = None
            if p.get("k") == "Call" and declared(p) == "game::port_occupancy":
                start_of_ports = resolve(p["args"][0])
            if start_of_version is None or start_of_ports is None:
                return False
            a, b = tir.place(start_of_version), tir.place(start_of_ports)
            return a is not None and a == b and a.split(".")[-1] == "start"
    return False


def same_version_rule(F, rep, rule="gate.same-version"):
    """parse_start allocates the frame columns with the parsed start's own version and port occupancy: the version that gates every
    later read_push/push_null (state.game.start.slippi.version) is the one the columns were created for"""
    b = F.body("io::slippi::de::parse_start")
    root = b["tir"]["value"]
    wc = [n for n in tir.walk(root) if n.get("k") == "Call" and declared(n) == "frame::mutable::Frame::with_capacity"]
    ok = False
    detail = "no single Frame::with_capacity call"
    if len(wc) == 1:
        env = tir.LetEnv(root)
        vplace = env.place(wc[0]["args"][1], peel=False) or ""
        pl = env.resolve(wc[0]["args"][2])
        ok = vplace.endswith("start.slippi.version") and pl.get("k") == "Call" and declared(pl) == "game::port_occupancy" and (tir.place(pl["args"][0]) or "") == vplace[:-len(".slippi.version")]
        detail = "version argument is %s" % (vplace or tir.pretty(env.resolve(wc[0]["args"][1]))[:80])
        # the same start value is stored in the game
        lits = [x for x in tir.walk(root) if x.get("k") == "Struct" and (x.get("path") or "").endswith("PartialGame")]
        for x in lits:
            for f in x["fields"]:
                if f["name"] == "start":
                    sp_ = env.place(f["e"], peel=True) or ""
                    ok = ok and sp_ == vplace[:-len(".slippi.version")]
    rep.ob(rule, ok, "io::slippi::de::parse_start", "with_capacity", "the frame columns must be allocated for the parsed start's own version (the one every later read is gated on): %s" % detail)


def zero_frames_rule(F, rep):
    b = F.body("io::slippi::de::parse_start")
    root = b["tir"]["value"]
    lets = {n["pat"]["id"]: n for n in tir.walk(root) if n.get("k") == "Let" and n["pat"].get("k") == "Bind"}
    wc = [n for n in tir.walk(root) if n.get("k") == "Call" and declared(n) == "frame::mutable::Frame::with_capacity"]
    cap_ok = ver_ok = ports_ok = False
    if len(wc) == 1:
        a = [strip(x) for x in wc[0]["args"]]
        env = tir.LetEnv(root)
        m = env.resolve(wc[0]["args"][0])
        bb = tir.bool_branch(m) if m.get("k") in ("Match", "If") else None
        if bb is not None and "skip_frames" in tir.pretty(bb[0]):
            cap_ok = tir.lit_int(L.strip_try(bb[1])) == 0
        elif m.get("k") == "MethodCall" and m["method"] == "map_or" and len(m["args"]) == 2:
            # opts.filter(|o| o.skip_frames).map_or(DEFAULT, |_| 0)
            flt = strip(m["recv"])
            cl = strip(m["args"][1])
            if (flt.get("k") == "MethodCall" and flt["method"] == "filter" and len(flt["args"]) == 1 and "skip_frames" in tir.pretty(strip(flt["args"][0]).get("body") or {})
                    and cl.get("k") == "Closure" and len(cl["params"]) == 1 and cl["params"][0].get("k") == "Wild"):
                cap_ok = tir.lit_int(L.strip_try(cl["body"])) == 0 and tir.lit_int(m["args"][0]) not in (None, 0)
        vplace = env.place(wc[0]["args"][1], peel=False) or ""
        ver_ok = vplace.endswith("start.slippi.version")
        pl = env.resolve(wc[0]["args"][2])
        ports_ok = pl.get("k") == "Call" and declared(pl) == "game::port_occupancy" and (tir.place(pl["args"][0]) or "") == vplace[:-len(".slippi.version")]
    rep.ob("zero.capacity", cap_ok, "io::slippi::de::parse_start", "capacity", "skip-frames must only change the capacity passed to Frame::with_capacity (0 instead of the default)")
    rep.ob("zero.same-triple", ver_ok and ports_ok, "io::slippi::de::parse_start", "triple", "version and ports passed to Frame::with_capacity must come from the parsed start (start.slippi.version, port_occupancy(&start))")
    arms, m, loop = peppifmt.reader_arms(F)
    fa = arms.get("frames.arrow")
    ok = False
    touches = True
    if fa is not None:
        for mm in tir.walk(fa["body"]):
            bb = tir.bool_branch(mm) if mm.get("k") in ("Match", "If") else None
            if bb is not None and "skip_frames" in tir.pretty(bb[0]):
                ok = skip_arm_ok(F, fa["body"], bb[1])
                touches = any((callee(x) or "").endswith("read_arrow_frames") for x in tir.walk(bb[1]))
    rep.ob("zero.slpp", ok and not touches, peppifmt.READ, "skip-arm", "the .slpp skip arm must build Frame::with_capacity(0, start.version, port_occupancy(start)) and leave the Arrow stream untouched")


def run(F, rep, tier):
    # the metadata of both modes is the map read from the stream itself (shared with C16): a value patched from the frames
    # parsed so far differs between a full and a skip-frames read
    from props import C16 as _C16
    _C16.stored_unmodified_rule(F, rep, "same.metadata-unmodified")
    blk = single_tail_rule(F, rep)
    if blk is not None:
        advance_rule(F, rep, blk)
    zero_frames_rule(F, rep)
    # the trusted base below ("seek(Current(n)) advances by n") is about the *caller's* stream: between read() and that stream
    # sits the hashing wrapper, whose seek must be the inner seek and whose read the inner read (C11's wrapper rules), and no
    # other function may call the short-read-sensitive Read::read directly (C07's W rule)
    import reach as _reach
    from props import C07 as _C07, C11 as _C11
    _G = _reach.Graph(F)
    _C07.exact_length_rule(F, _G, rep)
    _C11.wrapper_rule(F, _G, rep)
    _hn = _C11.encapsulation_rule(F, _G, rep)
    _C11.seek_guard_rule(F, _G, rep, _hn)
    # the skip result (no frames, no Gecko codes, possibly no end) can itself be written and re-read as .slp: table rows are emitted
    # sizes of events the writer can emit, declared length = emitted length (C17's emission clause, all presence combinations)
    import emission
    import model
    M = model.Model(F, rep, want=("read_push", "write", "size"))
    emission.rule_emission(F, rep, M)
    from props import C05 as _C05
    _C05.end_size_rule(F, rep)
    n = peppifmt.optionality_rule(F, rep, only=("frames.arrow",))
    rep.floor("conditional writer entries checked", n, 1)
    rep.control("linear normaliser distinguishes skip from skip + 1", not linear.eq({"skip": 1, "": 1}, {"skip": 1, "": 0}))
    rep.trusted += ["io::copy(take(n)) and seek(Current(n)) both advance the stream by n when n bytes are available"]
    rep.not_decided.append("that the jump lands on the Game End for every finished file (depends on the file's own raw length); that the two parses are equal as values")
    return rep.finish("other",
                      "The skip block has no Ok exit and precedes the common event loop and terminator tail, after the same parse_start call; the hashing branch, the seeking branch and the byte "
                      "counter advance by one let-bound value which normalises to raw_len - bytes_read - (1 + table[GameEnd]); skip-frames changes only the capacity argument of the same "
                      "Frame::with_capacity; the .slpp skip arm builds the same empty frame and does not touch the Arrow stream; a zero-frame game can be written out and re-read only if the "
                      "conditional frames.arrow entry is optional in the reader (known finding F3).",
                      "./check C10 --tier " + tier)
