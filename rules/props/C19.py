"""C19 — name fields decode as Shift-JIS up to the first NUL; normalisation is exact (structural)."""
import layout as L
import safety
import shiftjis
import tir
from tir import strip, declared

TRY_FROM = "<game::shift_jis::MeleeString as std::convert::TryFrom<&[u8]>>::try_from"
SPEC = [(0xFF01, 0xFF5E, 1, -0xFEE0), (0x3000, 0x3000, 0, 0x20), (0x2019, 0x2019, 0, 0x27), (0x201D, 0x201D, 0, 0x22)]


def decode_rule(F, rep):
    b = F.body(TRY_FROM)
    if b is None:
        rep.ob("decode", False, TRY_FROM, "missing", "MeleeString::try_from not found")
        return
    root = b["tir"]["value"]
    sname = b["tir"]["params"][0].get("name")
    calls = [n for n in tir.walk(root) if n.get("k") == "MethodCall" and (declared(n) or "").startswith("encoding_rs::Encoding::decode")]
    rep.ob("decode.single", len(calls) == 1, TRY_FROM, "decode-call", "expected exactly one encoding_rs decode call, found %d" % len(calls))
    # every string this function produces comes out of that decode: one MeleeString construction, inside the match on the decode result
    ctors = [n for n in tir.walk(root) if n.get("k") == "Call" and ((declared(n) or "") == "game::shift_jis::MeleeString" or (n.get("res") == "selfctor" and (n.get("ty") or "") == "game::shift_jis::MeleeString"))]
    inside = 0
    forms = result_form(root, calls[0]) if len(calls) == 1 else None
    if forms is not None:
        inside = sum(1 for c in ctors if any(x is c for x in tir.walk(forms["some"])))
    rep.ob("decode.only-path", len(ctors) == 1 and inside == 1, TRY_FROM, "result", "MeleeString::try_from builds its result on %d path(s), %d of them from the decoder's output: every field must go through the NUL truncation and the strict decoder (a fast path bypasses both)" % (len(ctors), inside))
    for c in calls:
        rep.ob("decode.no-replacement", declared(c) == "encoding_rs::Encoding::decode_without_bom_handling_and_without_replacement", TRY_FROM, "decoder",
               "decoder is %s: malformed sequences would be replaced by U+FFFD (or a BOM sniffed) instead of failing" % declared(c), tir.sp(c), sample={"decoder": declared(c)})
        enc = strip(c["recv"])
        rep.ob("decode.encoding", (enc.get("path") or "") == "encoding_rs::SHIFT_JIS", TRY_FROM, "encoding", "encoding is %s, not SHIFT_JIS" % enc.get("path"), tir.sp(c))
        arg = tir.LetEnv(root).resolve(c["args"][0])
        ok = arg.get("k") == "Index" and tir.place(arg["base"]) == sname and safety.slice_to_position(F, root, arg) is not None
        if not ok and arg.get("k") == "Match" and len(arg["arms"]) == 2:
            # match s.iter().position(..) { Some(i) => &s[0..i], None => s }
            good = 0
            for a in arg["arms"]:
                q, body = a["pat"], strip(a["body"])
                if q.get("k") == "TupleStruct" and (q.get("path") or "").endswith("Some"):
                    good += body.get("k") == "Index" and tir.place(body["base"]) == sname and safety.slice_to_position(F, root, body) is not None
                else:
                    good += body.get("k") == "Path" and body.get("name") == sname
            ok = good == 2
        if not ok and arg.get("k") == "MethodCall" and arg["method"] == "map_or" and len(arg.get("args", [])) == 2:
            # s.iter().position(..).map_or(s, |i| &s[0..i])
            d, cl = strip(arg["args"][0]), strip(arg["args"][1])
            body = strip(cl.get("body") or {}) if cl.get("k") == "Closure" else {}
            ok = (d.get("k") == "Path" and d.get("name") == sname and body.get("k") == "Index" and tir.place(body["base"]) == sname
                  and safety.slice_to_position(F, root, body) is not None)
        rep.ob("decode.truncate", ok, TRY_FROM, "slice", "decoded bytes must be s[0..k] with k = first zero byte of s (or s.len()); got %s" % tir.pretty(arg)[:100], tir.sp(arg))
        # the searched predicate is `== 0`
        pred_ok = False
        for n in tir.walk(root):
            if n.get("k") == "MethodCall" and n["method"] == "position":
                cl = strip(n["args"][0])
                if cl.get("k") == "Closure":
                    body = strip(cl["body"])
                    if body.get("k") == "Binary" and body.get("op") == "Eq" and tir.lit_int(body["r"]) == 0:
                        pred_ok = True
        rep.ob("decode.nul", pred_ok, TRY_FROM, "position", "the truncation point must be the first byte equal to 0")
        # None -> Err, Some(cow) -> Ok(MeleeString(cow.to_string()))
        fm = result_form(root, c)
        ok = fm is not None and fm["some_kind"] == "Ok" and fm["none_kind"] == "Err"
        rep.ob("decode.err", ok, TRY_FROM, "result", "a failed decode must map to Err and a successful one to Ok")


def propagate_rule(F, rep):
    """`an invalid byte sequence makes reading fail with an error`: between the decoder and the public readers no construct
    discards the Err of a Result whose callee cone reaches MeleeString::try_from"""
    import errdrop
    inv = errdrop.Inventory(F)
    sites = inv.all_sites()
    hit = 0
    for s in sites:
        cone = inv.cone(s["operand"])
        bad = TRY_FROM in cone
        hit += bad
        rep.ob("decode.propagated", not bad, s["fn"], errdrop.site_key(s).split("|", 1)[1],
               "%s discards the error of a value computed through MeleeString::try_from: an invalid Shift-JIS name would be accepted silently" % s["what"], s["sp"])
    # callers up to the readers: every fn on a call path from a reader entry to try_from returns a Result (its error can travel)
    import reach
    G = reach.Graph(F)
    R = G.reachable(["io::slippi::de::read", "io::slippi::de::parse_start", "io::peppi::de::read"])
    chain = [o for o in R if TRY_FROM in G.reachable([o]) and o != TRY_FROM]
    for o in chain:
        f = F.fns.get(o) or {}
        ret = f.get("ret") or f.get("output") or ""
        if ret:
            rep.ob("decode.propagated", "Result<" in ret, o, "return-type", "%s lies between the readers and the Shift-JIS decoder but returns %s: a decode error cannot travel through it" % (o, ret))
    rep.counts["error_drop_sites_inspected"] = len(sites)
    rep.floor("functions between the readers and MeleeString::try_from", len(chain), 3)
    # positive control: a synthetic `.ok()` on a Result is recognised as a drop site
    probe = {"k": "MethodCall", "method": "ok", "path": "std::result::Result::<T, E>::ok", "recv": {"k": "Path", "res": "local", "name": "x", "ty": "std::result::Result<u8, io::Error>"}, "args": [], "ty": "std::option::Option<u8>"}
    rep.control("errdrop recognises `.ok()` on a Result", len(errdrop.Inventory(F, G).sites({"path": "probe", "tir": {"value": probe}})) == 1)


def result_form(root, call):
    """how the decoder's Option flows into the function's Result: {'some': expr evaluated with the decoded text,
    'some_kind': Ok|?, 'none_kind': Err|?}; None when the flow is not one of the recognised total forms"""
    par = safety.parents(root)
    m = par.get(id(call))
    while m is not None and m.get("k") in ("Block",) and not m.get("stmts"):
        m = par.get(id(m))

    def kind(body):
        body = L.strip_try(body)
        if body.get("k") == "Ret":
            body = L.strip_try(body.get("e") or {})
        if body.get("k") == "Block" and not body.get("tail") and len(body.get("stmts", [])) == 1:
            return kind(body["stmts"][0].get("e") or {})
        d = declared(body) or ""
        return "Ok" if d.endswith("::Ok") else ("Err" if d.endswith("::Err") else "?")
    if m is None:
        return None
    if m.get("k") == "Match" and strip(m["scrut"]) is call:
        out = {"some": None, "some_kind": "?", "none_kind": "?"}
        for a in m["arms"]:
            p = a["pat"]
            if p.get("k") == "TupleStruct" and (p.get("path") or "").endswith("Some"):
                out["some"], out["some_kind"] = a["body"], kind(a["body"])
            else:
                out["none_kind"] = kind(a["body"])
        return out if out["some"] is not None else None
    if m.get("k") == "MethodCall" and m["method"] == "map" and strip(m["recv"]) is call and len(m["args"]) == 1 and strip(m["args"][0]).get("k") == "Closure":
        # decode(..).map(|d| MeleeString(..)).ok_or(..) / .ok_or_else(..): Some -> Ok(closure value), None -> Err(argument)
        up = par.get(id(m))
        if up is not None and up.get("k") == "MethodCall" and up["method"] in ("ok_or", "ok_or_else") and strip(up["recv"]) is m and (up.get("ty") or "").startswith("std::result::Result"):
            return {"some": strip(m["args"][0])["body"], "some_kind": "Ok", "none_kind": "Err"}
        return None
    if m.get("k") == "MethodCall" and m["method"] == "map_or_else" and strip(m["recv"]) is call and len(m["args"]) == 2:
        # decode(..).map_or_else(|| Err(..), |d| Ok(MeleeString(..)))
        dflt, some = strip(m["args"][0]), strip(m["args"][1])
        if dflt.get("k") == "Closure" and some.get("k") == "Closure" and len(some["params"]) == 1:
            return {"some": some["body"], "some_kind": kind(some["body"]), "none_kind": kind(dflt["body"])}
        return None
    if m.get("k") == "MethodCall" and m["method"] == "map_or" and strip(m["recv"]) is call and len(m["args"]) == 2:
        some = strip(m["args"][1])
        if some.get("k") == "Closure" and len(some["params"]) == 1:
            return {"some": some["body"], "some_kind": kind(some["body"]), "none_kind": kind(m["args"][0])}
        return None
    if m.get("k") in ("MethodCall",) and m["method"] in ("ok_or", "ok_or_else") and strip(m["recv"]) is call:
        # decode(..).ok_or(..)? followed by Ok(MeleeString(..))
        rest = [c for c in tir.walk(root) if c.get("k") == "Call" and (declared(c) or "").endswith("::Ok")]
        up = par.get(id(m))
        if up is not None and up.get("k") == "Try" and len(rest) == 1:
            return {"some": rest[0], "some_kind": "Ok", "none_kind": "Err"}
        return None
    if m.get("k") == "Let" and m.get("els") is not None and strip(m.get("init") or {}) is call:
        p = m["pat"]
        if p.get("k") == "TupleStruct" and (p.get("path") or "").endswith("Some"):
            rest = [c for c in tir.walk(root) if c.get("k") == "Call" and (declared(c) or "").endswith("::Ok")]
            if len(rest) == 1:
                return {"some": rest[0], "some_kind": "Ok", "none_kind": kind(m["els"])}
    return None


def field_slicing(F, rep):
    b = F.body("io::slippi::de::player")
    if b is None:
        rep.ob("fields", False, "io::slippi::de::player", "missing", "player() not found")
        return
    want = {"v1_3": 16, "name": 31, "code": 10}
    seen = {}
    for n in tir.walk(b["tir"]["value"]):
        if n.get("k") == "Call" and (declared(n) or "").endswith("TryFrom::try_from") and "MeleeString" in (n.get("ty") or ""):
            a = strip(n["args"][0])      # `&x[..]`, `x.as_slice()` and `&x` all denote the whole array
            if a.get("k") == "MethodCall" and a["method"] == "as_slice":
                a = strip(a["recv"])
            if a.get("k") == "Path" and a.get("res") == "local":
                seen[L.local_name(a)] = a.get("ty") or ""
    for nm, ln in want.items():
        # by value or behind a shared reference (`Option<&[u8; N]>` parameters): the whole N-byte field either way
        rep.ob("fields.whole", (seen.get(nm) or "").lstrip("&").strip() == "[u8; %d]" % ln, "io::slippi::de::player", nm, "name field `%s` must be passed whole ([u8; %d]) to MeleeString::try_from, got %s" % (nm, ln, seen.get(nm)),
               sample={"field": nm, "type": seen.get(nm)})
    rep.floor("MeleeString::try_from call sites in player()", len(seen), 3)
    # "every name field is decoded": a decode is conditional only on the presence of its own field (the Option of the array the
    # version provides), never on another value of the player (its type, its port, ..)
    import safety
    root = b["tir"]["value"]
    parents = safety.parents(root)
    for n in tir.walk(root):
        if not (n.get("k") == "Call" and (declared(n) or "").endswith("TryFrom::try_from") and "MeleeString" in (n.get("ty") or "")):
            continue
        a = strip(n["args"][0])
        if a.get("k") == "MethodCall" and a["method"] == "as_slice":
            a = strip(a["recv"])
        aid = a.get("id") if a.get("k") == "Path" else None
        bad = []
        y = n
        while id(y) in parents:
            p = parents[id(y)]
            cond_pats = None
            if p.get("k") == "If" and p.get("cond") is not y:
                c = strip(p["cond"])
                cond_pats = [c["pat"]] if c.get("k") == "LetCond" else []
            elif p.get("k") == "Match" and p.get("scrut") is not y:
                cond_pats = [arm["pat"] for arm in p["arms"] if any(z is y for z in tir.walk(arm["body"]))]
            if cond_pats is not None:
                binds = []
                for q in cond_pats:
                    import canon
                    canon.binding_pats(q, binds)
                if not (aid is not None and any(bp.get("id") == aid for bp in binds)):
                    bad.append(p)
            y = p
        rep.ob("fields.unconditional", not bad, "io::slippi::de::player", (a.get("name") or "?") + ".condition",
               "the decode of name field `%s` is under a condition other than the presence of that field (%s): for some players the field would not be decoded (nor an invalid sequence rejected)" % (
                   a.get("name"), "; ".join(tir.pretty(x.get("cond") or x.get("scrut"))[:50] for x in bad)), tir.sp(n))


def table_rule(F, rep):
    info = shiftjis.fix_char_shape(F)
    if info is None:
        rep.cannot("table", shiftjis.FIX, L.Unsupported({}, "fix_char is not a match over the code point"))
        return
    rep.ob("table.fragment", not info["problems"], shiftjis.FIX, "fragment", "fix_char outside the table fragment: %s" % info["problems"])
    rep.ob("table.conversions", bool(info["in_conv"]) and bool(info["out_conv"]), shiftjis.FIX, "conversions", "fix_char must convert char -> u32 -> match -> char without other arithmetic")
    rep.ob("table.default", info["default_identity"], shiftjis.FIX, "default", "fix_char's default arm must be the identity")
    rows = sorted(info["rows"])
    rep.floor("fix_char non-identity arms", len(rows), 4)
    # compare as functions: same domain partition and same images at the endpoints
    got = {}
    for lo, hi, a, b in rows:
        for c in range(lo, hi + 1):
            got[c] = a * c + b
    want = {}
    for lo, hi, a, b in SPEC:
        for c in range(lo, hi + 1):
            want[c] = a * c + b
    diff = sorted(c for c in set(got) | set(want) if got.get(c, c) != want.get(c, c))
    rep.ob("table.equal", not diff, shiftjis.FIX, "U+%04X" % diff[0] if diff else "table",
           "fix_char differs from the specified normalisation at %d code points, first U+%04X: code gives U+%04X, spec U+%04X" % (
               len(diff), diff[0] if diff else 0, got.get(diff[0], diff[0]) if diff else 0, want.get(diff[0], diff[0]) if diff else 0),
           sample={"rows": ["U+%04X..U+%04X -> %s" % (lo, hi, ("c%+d" % b) if a else "U+%04X" % b) for lo, hi, a, b in rows]})
    rep.counts["table.code_points_compared"] = len(set(got) | set(want))
    # idempotence: no image of a non-identity arm lies in a non-identity domain
    again = sorted(v for v in got.values() if v in got and got[v] != v)
    rep.ob("table.idempotent", not again, shiftjis.FIX, "idempotence", "fix_char is not idempotent: image U+%04X is mapped again" % (again[0] if again else 0))
    scalar = all(0 <= v <= 0x10FFFF and not (0xD800 <= v <= 0xDFFF) for v in got.values())
    rep.ob("table.scalar", scalar, shiftjis.FIX, "scalar", "an image of fix_char is not a Unicode scalar value (char::try_from(..).unwrap() would panic)")
    # to_normalized = chars().map(fix_char).collect::<String>()
    b = F.body("game::shift_jis::MeleeString::to_normalized")
    ok = False
    if b is not None:
        e = L.strip_try(b["tir"]["value"])
        if e.get("k") == "MethodCall" and e["method"] == "collect" and (e.get("gargs") or [None, None])[-1] == "std::string::String":
            m = strip(e["recv"])
            if m.get("k") == "MethodCall" and m["method"] == "map" and (strip(m["args"][0]).get("path") or "") == shiftjis.FIX:
                c = strip(m["recv"])
                if c.get("k") == "MethodCall" and c["method"] == "chars" and tir.place(c["recv"]) == "self.0":
                    ok = True
    rep.ob("normalise.map", ok, "game::shift_jis::MeleeString::to_normalized", "body", "to_normalized must be self.0.chars().map(fix_char).collect::<String>()")


def run(F, rep, tier):
    decode_rule(F, rep)
    field_slicing(F, rep)
    propagate_rule(F, rep)
    table_rule(F, rep)
    # positive controls on the table comparison
    rows = shiftjis.affine({"k": "Binary", "op": "Sub", "l": {"k": "Binary", "op": "Add", "l": {"k": "Path", "res": "local", "name": "c"}, "r": {"k": "Lit", "lit": "int", "v": 0x20}}, "r": {"k": "Lit", "lit": "int", "v": 0xff00}}, "c")
    rep.control("affine normalisation of `c + 0x20 - 0xff00`", rows == (1, -0xFEE0))
    rep.trusted += ["encoding_rs implements Shift-JIS and decode_without_bom_handling_and_without_replacement returns None on malformed input",
                    "Iterator::position returns the first index satisfying the predicate"]
    rep.not_decided.append("correctness of the Shift-JIS tables themselves (encoding_rs)")
    return rep.finish("other",
                      "The decoder called is the no-BOM/no-replacement variant on SHIFT_JIS with None mapped to Err; its input is s[0..k] with k the first zero byte (or len) by dataflow; "
                      "name tag / netplay name / code are the whole 16/31/10-byte per-port arrays; fix_char's match is extracted as (interval, affine map) rows and compared code point "
                      "by code point with the specified table, with idempotence and scalar-value closure decided by interval arithmetic; to_normalized maps fix_char over chars().",
                      "./check C19 --tier " + tier)
