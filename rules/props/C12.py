"""C12 — incremental parsing equals one-shot parsing for any read fragmentation (structural)."""
import layout as L
import linear
import reach
import safety
import tir
from tir import strip, declared, callee
from props import C08, C13

READ = "io::slippi::de::read"
INCR = ["io::slippi::de::parse_header", "io::slippi::de::parse_start", "io::slippi::de::parse_event", "io::slippi::de::parse_metadata"]
HR_READ = "<io::HashingReader<R> as std::io::Read>::read"
# state writers of read() outside the incremental functions (frozen; a new writer is reported)
READ_WRITERS = {"state.bytes_read": "skip-frames block advances the byte count by the bytes it skips",
                "state": "passed as &mut to parse_event / parse_metadata, and frame_close() for a dangling pre-3.0 frame",
                "state.game.quirks": "double_game_end quirk", "state.game.hash": "digest of the consumed bytes",
                "r": "the stream itself"}
WIDTH = {"read_u8": 1, "read_i8": 1, "read_u16": 2, "read_i16": 2, "read_u32": 4, "read_i32": 4, "read_f32": 4, "read_u64": 8}


def same_code_rule(F, G, rep):
    edges = G.edges(READ)
    for f in INCR:
        rep.ob("same-code.uses", f in edges, READ, f.split("::")[-1], "read() must obtain its data through the public incremental function %s" % f)
    vis = [F.fns.get(f, {}).get("vis") for f in INCR]
    rep.ob("same-code.public", all(v == "Public" for v in vis), READ, "visibility", "the incremental functions must be public: %s" % vis)
    # other local functions called directly from read() that are handed the stream or the parse state (pure helpers are fine)
    closers = set()
    import bracket
    op, closers = bracket.openers_closers(F, G)
    direct = []
    rb = F.body(READ)
    for x in tir.walk(rb["tir"]["value"]):
        if x.get("k") in ("Call", "MethodCall"):
            c = reach.owner_of(callee(x) or "")
            if c.startswith("io::slippi::de::") and c in G.local and c not in INCR and c not in closers and c != READ:
                tys = [(a.get("aty") or a.get("ty") or "") for a in tir.call_args(x)]
                if any("HashingReader" in t or "ParseState" in t or t.startswith("&mut R") or t == "R" for t in tys):
                    direct.append(c)
    direct = sorted(set(direct))
    rep.ob("same-code.no-private-path", not direct, READ, "private-readers", "read() hands the stream or the parse state to private functions the incremental API does not use: %s" % direct)
    b = F.body(READ)
    bad = []
    n = 0
    for p, node in C08.mutations(b["tir"]["value"]):
        if p is None:
            continue
        head = p.split("[")[0]
        if head.startswith("state") or head == "r":
            n += 1
            if head not in READ_WRITERS:
                bad.append((p, tir.sp(node)))
            elif head == "state" and node.get("k") == "MethodCall" and reach.owner_of(callee(node) or "") not in closers:
                bad.append((p + "." + node["method"], tir.sp(node)))
    rep.ob("same-code.writers", not bad, READ, "state-writers", "read() writes parse state outside the incremental functions: %s (allowed: %s)" % (bad[:4], sorted(READ_WRITERS)),
           sample={"writers_checked": n})
    # frame_close in read() only for < 3.0
    for x in tir.walk(b["tir"]["value"]):
        if x.get("k") == "MethodCall" and reach.owner_of(callee(x) or "") in closers:
            par = safety.parents(b["tir"]["value"])
            y = x
            f = None
            while id(y) in par:
                y = par[id(y)]
                if y.get("k") == "If":
                    f = L.vcond(y["cond"])
                    break
            rep.ob("same-code.dangling-close", f == ("not", ("gte", 3, 0, "state.game.start.slippi.version")), READ, "frame_close", "the extra frame_close in read() must be the pre-3.0 dangling-frame closure")


def fragmentation_rule(F, G, rep):
    R = G.reachable([READ] + INCR)
    raw = set(o for o in R for bp, i, t in G.calls(o) if (t.get("fn") or "") == "std::io::Read::read")
    rep.ob("W.raw-read", raw <= {HR_READ}, "std::io::Read::read", "callers", "short-read-sensitive Read::read is called from %s" % sorted(raw - {HR_READ}))
    # the incremental functions themselves never call it (they see the caller's stream directly)
    R2 = G.reachable(INCR)
    raw2 = set(o for o in R2 for bp, i, t in G.calls(o) if (t.get("fn") or "") == "std::io::Read::read")
    rep.ob("W.raw-read.incremental", not raw2, "incremental API", "callers", "the incremental API calls Read::read directly from %s" % sorted(raw2))
    rep.counts["reachable_fns"] = len(R)


def consumed(F, fn, rname=None):
    """linear form of the bytes fn consumes from its stream parameter (the first parameter) on the Ok path"""
    b = F.body(fn)
    rname = rname or b["tir"]["params"][0].get("name")
    env = {}
    bufs = {}
    total = {"": 0}
    rid = [p.get("id") for p in b["tir"]["params"] if p.get("name") == rname]
    rid = rid[0] if rid else None
    for n in tir.walk(b["tir"]["value"]):
        if n.get("k") == "Let" and n["pat"].get("k") == "Bind":
            i = n["init"]
            if tir.in_macro(i, "vec") and i is not None:
                # vec![0; E]
                rep_ = [x for x in tir.walk(i) if x.get("k") == "Call" and (declared(x) or "").endswith("from_elem")]
                if rep_:
                    try:
                        bufs[n["pat"]["name"]] = linear.lin(rep_[0]["args"][1], env)
                    except linear.NonLinear:
                        pass
        if n.get("k") == "MethodCall" and L.local_name(n["recv"]) == rname and strip(n["recv"]).get("id") == rid:
            if n["method"] in WIDTH and (declared(n) or "").startswith("byteorder::ReadBytesExt::"):
                total = linear.add(total, {"": WIDTH[n["method"]]})
            elif n["method"] == "read_exact":
                bn = L.local_name(strip(n["args"][0]))
                if bn in bufs:
                    total = linear.add(total, bufs[bn])
                else:
                    raise linear.NonLinear("read_exact into a buffer of unknown length")
            elif n["method"] in ("by_ref",):
                pass
            else:
                raise linear.NonLinear("stream used through %s" % n["method"])
    return total


def accounting_rule(F, rep):
    # parse_event: state.bytes_read += <expr>
    fn = "io::slippi::de::parse_event"
    try:
        c = consumed(F, fn)
        b = F.body(fn)
        acc = None
        for n in tir.walk(b["tir"]["value"]):
            if n.get("k") == "AssignOp" and n.get("op") in ("AddAssign", "Add") and tir.place(n["l"]) == "state.bytes_read":
                acc = linear.lin(n["r"])
        rep.ob("accounting.event", acc is not None and linear.eq(c, acc), fn, "bytes_read", "parse_event consumes %s bytes but adds %s to bytes_read" % (linear.show(c), linear.show(acc or {})),
               sample={"fn": fn, "consumed": linear.show(c), "accounted": linear.show(acc or {})})
    except linear.NonLinear as e:
        rep.cannot("accounting.event", fn, L.Unsupported({}, str(e)))
    # parse_payloads: returns (1 + size, sizes)
    fn = "io::slippi::de::parse_payloads"
    try:
        c = consumed(F, fn)
        b = F.body(fn)
        tail = L.strip_try(L.strip_try(b["tir"]["value"]).get("tail") or {})
        acc = None
        if tail.get("k") == "Call" and (declared(tail) or "").endswith("::Ok"):
            t = strip(tail["args"][0])
            if t.get("k") == "Tup":
                acc = linear.lin(t["elems"][0])
        rep.ob("accounting.payloads", acc is not None and linear.eq(c, acc), fn, "return", "parse_payloads consumes %s bytes but reports %s" % (linear.show(c), linear.show(acc or {})),
               sample={"fn": fn, "consumed": linear.show(c), "accounted": linear.show(acc or {})})
    except linear.NonLinear as e:
        rep.cannot("accounting.payloads", fn, L.Unsupported({}, str(e)))
    # parse_game_start: returns (bytes_read + size + 1, start)
    fn = "io::slippi::de::parse_game_start"
    try:
        c = consumed(F, fn)
        b = F.body(fn)
        acc = None
        for n in tir.walk(b["tir"]["value"]):
            if n.get("k") == "Call" and (declared(n) or "").endswith("::Ok"):
                t = strip(n["args"][0])
                if t.get("k") == "Tup" and len(t["elems"]) == 2:
                    carried = [q.get("name") for q in b["tir"]["params"] if q.get("ty") == "usize"]
                    acc = linear.add(linear.lin(t["elems"][0]), {carried[0] if carried else "bytes_read": 1}, -1)
        rep.ob("accounting.start", acc is not None and linear.eq(c, acc), fn, "return", "parse_game_start consumes %s bytes but adds %s" % (linear.show(c), linear.show(acc or {})),
               sample={"fn": fn, "consumed": linear.show(c), "accounted": linear.show(acc or {})})
    except linear.NonLinear as e:
        rep.cannot("accounting.start", fn, L.Unsupported({}, str(e)))
    # parse_start threads the two counts: parse_payloads' count is passed to parse_game_start, whose count becomes ParseState.bytes_read
    b = F.body("io::slippi::de::parse_start")
    root = b["tir"]["value"]
    first = second = None
    for n in tir.walk(root):
        if n.get("k") == "Let" and n["pat"].get("k") == "Tuple" and n.get("init") is not None and n["init"].get("k") == "Try":
            c = strip(n["init"]["e"])
            if c.get("k") == "Call" and declared(c) == "io::slippi::de::parse_payloads":
                first = n["pat"]["pats"][0].get("id")
            if c.get("k") == "Call" and declared(c) == "io::slippi::de::parse_game_start":
                passed = [strip(a).get("id") for a in c["args"] if strip(a).get("k") == "Path" and strip(a).get("ty") == "usize"]
                second = (n["pat"]["pats"][0].get("id"), passed)
    stored = None
    for n in tir.walk(root):
        if n.get("k") == "Struct" and (n.get("path") or "") == "io::slippi::de::ParseState":
            for f in n["fields"]:
                if f["name"] == "bytes_read":
                    stored = strip(f["e"]).get("id")
    ok = first is not None and second is not None and first in second[1] and stored == second[0]
    rep.ob("accounting.thread", ok, "io::slippi::de::parse_start", "thread", "parse_start must pass parse_payloads' count into parse_game_start and store the result as ParseState.bytes_read")
    g = F.body("io::slippi::de::ParseState::bytes_read")
    rep.ob("accounting.getter", g is not None and tir.place(L.strip_try(g["tir"]["value"])) == "self.bytes_read", "io::slippi::de::ParseState::bytes_read", "getter", "bytes_read() must report the counter unchanged")


def monotone_frames_rule(F, G, rep):
    """frames.id is only ever pushed to"""
    muts = []
    for b in F.fn_bodies():
        for x in tir.walk(b["tir"]["value"]):
            if x.get("k") == "MethodCall" and "MutablePrimitiveArray<i32>" in (x["recv"].get("ty") or "") + (x["recv"].get("aty") or ""):
                p = tir.place(x["recv"]) or ""
                if p.endswith("frames.id") or p == "self.id":
                    if (x["recv"].get("aty") or "").startswith("&mut"):
                        muts.append((b["path"], x["method"], tir.sp(x)))
        for p, node in C08.mutations(b["tir"]["value"]):
            if p and (p.endswith("frames.id") or (p == "self.id" and "frame::mutable::Frame" in b["path"])) and node.get("k") in ("Assign", "AssignOp"):
                muts.append((b["path"], "assign", tir.sp(node)))
    bad = [m for m in muts if m[1] not in ("push",)]
    rep.ob("monotone.frames", not bad and len(muts) >= 1, "frames.id", "mutators", "the frame-id column is mutated other than by push: %s" % bad[:3], sample={"mutators": muts})
    # the frame count both APIs report is the number of rows, not something derived from frame ids (ids repeat on rollbacks)
    for fn, want in (("<io::slippi::de::ParseState as game::Game>::len", "self.game.frames.len()"), ("<game::immutable::Game as game::Game>::len", "self.frames.id.len()")):
        b = F.body(fn)
        got = None
        if b:
            v = L.strip_try(b["tir"]["value"])
            got = tir.pretty(v)
            if v.get("k") == "MethodCall" and v["method"] == "len" and not v.get("args"):
                got = (tir.place(v["recv"]) or "?") + ".len()"      # `&x`, `x.as_ref()` etc. are the same place
        rep.ob("monotone.count", got in (want, "self.game.frames.id.len()", "self.frames.len()"), fn, "len", "%s must report the number of frame rows (%s), got %s" % (fn, want, got))
    lb = F.body("frame::mutable::Frame::len")
    lv = L.strip_try(lb["tir"]["value"]) if lb is not None else {}
    rep.ob("monotone.len", lv.get("k") == "MethodCall" and lv["method"] == "len" and not lv.get("args") and tir.place(lv["recv"]) == "self.id", "frame::mutable::Frame::len", "len", "the frame count must be the length of the id column")


def dispatch_refusals_rule(F, rep):
    """read() stops handing events to parse_event at the first Game End and tolerates what follows; a caller of the incremental
    API keeps calling parse_event until the declared length is reached. The two agree only if parse_event's dispatch refuses
    no event history read() tolerates: the arms that return an error outright are those of the two events the reader itself
    consumes before the dispatch exists (Payloads, Game Start), unguarded; no other arm, and no guarded arm, is a refusal."""
    import errdrop
    import events
    b, m, arms = events.find_dispatch(F)
    if m is None:
        rep.ob("dispatch.refusals", False, events.PARSE_EVENT, "dispatch", "event dispatch not found")
        return
    n = 0
    for a in m["arms"]:
        names = []
        for p in (a["pat"]["pats"] if a["pat"].get("k") == "Or" else [a["pat"]]):
            q = p
            while q.get("k") == "Ref":
                q = q["pat"]
            if q.get("k") == "TupleStruct" and len(q.get("pats", [])) == 1:
                q = q["pats"][0]
            nm = (q.get("path") or (q.get("e") or {}).get("path") or "_").split("::")[-1]
            names.append(nm)
        n += 1
        refuses = errdrop.error_valued(a["body"])
        ok = not refuses or (set(names) <= {"Payloads", "GameStart"} and a.get("guard") is None)
        rep.ob("dispatch.refusals", ok, events.PARSE_EVENT, "+".join(names) + (".guarded" if a.get("guard") is not None else ""),
               "the %s arm of parse_event%s refuses the event outright: read() never hands parse_event what follows the first Game End, so the incremental API would fail on a file the one-shot reader accepts" % (
                   "/".join(names), " (guarded)" if a.get("guard") is not None else ""), tir.sp(a["body"]))
    rep.floor("dispatch arms inspected for outright refusals", n, 8)


def run(F, rep, tier):
    G = reach.Graph(F)
    same_code_rule(F, G, rep)
    dispatch_refusals_rule(F, rep)
    fragmentation_rule(F, G, rep)
    # every parser reads from the caller's stream itself: a buffering adapter would consume more of the stream than bytes_read accounts for
    import streamid
    streamid.slp_rule(F, rep, 'fragmentation.stream')
    accounting_rule(F, rep)
    monotone_frames_rule(F, G, rep)
    # a frame is completed by the event stream itself (Frame End, or below 3.0 the next frame's first event): read() owns only
    # the closure of the very last pre-3.0 frame. A frame left open until that final close is right in the one-shot game and
    # unpadded in every intermediate incremental state
    from props import C04
    import model as _model
    C04.bracketing_rule(F, G, rep, _model.Model(F, rep, want=("with_capacity", "push_null", "read_push")), "completion")
    C13.forwarders(F, rep)
    # "the frames completed so far equal the corresponding prefix of the final game" is observed through the in-progress row
    # view: the mutable transpose_one family reads each row field from the same-named column at the row index, and a frame's
    # items are exactly item_offset.start_end(i)
    import model
    M13 = model.Model(F, rep, want=("m_transpose", "with_capacity"))
    model.rule_L3(rep, M13, sibs=("m_transpose",))
    C13.container_rule(F, rep, M13, fams=("mutable",))
    rep.control("linear normaliser: 1 + 1 + (size - 1) == 1 + size", linear.eq(linear.add({"": 2}, linear.add({"size": 1}, {"": 1}, -1)), {"": 1, "size": 1}))
    rep.trusted += ["byteorder read_* / read_exact consume exactly their width / buffer length on success, independent of how the stream fragments reads"]
    rep.not_decided.append("equality of two runs over all fragmentations as such; decided: shared code, absence of short-read-sensitive calls, byte accounting, monotone frame count, row-view wiring")
    return rep.finish("other",
                      "read() obtains header, start, every event and metadata exclusively through the four public incremental functions, and the parse-state writers of read() outside them are "
                      "the frozen set {bytes_read (skip), frame_close for pre-3.0, double_game_end, hash}; no function reachable from either API calls Read::read directly except the hashing "
                      "wrapper; on the Ok path the bytes each of parse_payloads / parse_game_start / parse_event consumes equal, as linear expressions, what it adds to the byte count; the "
                      "frame-id column is only pushed to; the in-progress row view forwards index and version unchanged.",
                      "./check C12 --tier " + tier)
