"""C05 — Game Start / Game End fields equal the spec-offset values of the raw blocks (proof for offsets; structural for JSON)."""
import cursor
import flow
import layout as L
import model
import order
import tir
from tir import strip, declared, callee

GS = "io::slippi::de::game_start"
GE = "io::slippi::de::game_end"
PL = "io::slippi::de::player"
TYMAP = {"u8!=0": "u8"}


def start_roles(F):
    """let-local name -> role: a Start field (through the struct literal) or `player#i` (slice n is argument i of player())"""
    b = F.body(GS)
    roles = {}
    for x in tir.walk(b["tir"]["value"]):
        if x.get("k") == "Struct" and (x.get("path") or "") == "game::Start":
            for f in x["fields"]:
                ln = L.local_name(f["e"])
                if ln:
                    roles[ln] = f["name"].replace("r#", "")
        if x.get("k") == "Call" and declared(x) == PL:
            for i, a in enumerate(x["args"]):
                a = strip(a)
                # &X[n]  |  X.map(|p| p[n])  |  X.map(|p| p.K[n])
                if a.get("k") == "Index" and L.local_name(a["base"]):
                    roles[L.local_name(a["base"])] = "player#%d" % i
                elif a.get("k") == "MethodCall" and a["method"] == "map" and L.local_name(peel_view(a["recv"])):
                    a = dict(a)
                    a["recv"] = peel_view(a["recv"])
                    cl = strip(a["args"][0])
                    if cl.get("k") == "Closure":
                        body = strip(cl["body"])
                        if body.get("k") == "Index":
                            base = strip(body["base"])
                            if base.get("k") == "Field" and L.local_name(base["base"]) == cl["params"][0].get("name"):
                                roles[L.local_name(a["recv"]) + "." + base["name"]] = "player#%d" % i
                            elif L.local_name(base) == cl["params"][0].get("name"):
                                roles[L.local_name(a["recv"])] = "player#%d" % i
                            elif cl["params"][0].get("k") == "Tuple":
                                # `|(names, _)| names[n]` is `|p| p.0[n]`
                                for j, q in enumerate(cl["params"][0].get("pats", [])):
                                    if q.get("k") == "Bind" and L.local_name(base) == q.get("name"):
                                        roles[L.local_name(a["recv"]) + "." + str(j)] = "player#%d" % i
                elif L.local_name(a):
                    roles.setdefault(L.local_name(a), roles.get(L.local_name(a)))
    return roles


def peel_view(e):
    """`x.as_ref()` / `x.as_deref()` / `x.clone()` / `x.copied()` view the same value as `x`"""
    e = strip(e)
    while e.get("k") == "MethodCall" and e["method"] in ("as_ref", "as_deref", "clone", "copied", "cloned") and not e.get("args"):
        e = strip(e["recv"])
    return e


def apply_roles(segs, roles):
    out = []
    for s in segs:
        s = dict(s)
        t = s["tag"]
        if t:
            parts = t.split(".")
            for k in (2, 1):
                key = ".".join(parts[:k])
                if key in roles and roles[key]:
                    t = ".".join([roles[key]] + parts[k:])
                    break
            s["tag"] = t
        out.append(s)
    return out


def compare_layout(rep, fn, segs, fields, start_off, rule):
    """every spec field sits at its offset with its width/type and destination; the gaps are exactly the unmapped reads"""
    by_off = {s["off"]: s for s in segs}
    for f in fields:
        s = by_off.get(f["off"])
        want_ty = TYMAP.get(f["ty"], f["ty"]).replace(" ", "")
        ok = s is not None and s["ty"].replace(" ", "") == want_ty and (s["tag"] or None) == (f["dest"] or None)
        rep.ob(rule + ".field", ok, fn, str(f["dest"] or f.get("name")), "%s: spec field %s (%s at 0x%X) is decoded as %s" % (
            fn, f["dest"] or f.get("name"), f["ty"], f["off"], ("%s -> %s at 0x%X" % (s["ty"], s["tag"], s["off"])) if s else "nothing at that offset"),
            s["sp"] if s else "", sample={"off": "0x%X" % f["off"], "ty": f["ty"], "dest": f["dest"]})
    spec_offs = set(f["off"] for f in fields)
    for s in segs:
        if s["tag"] is not None and s["tag"] != "" and s["off"] not in spec_offs:
            rep.ob(rule + ".extra", False, fn, s["tag"], "%s decodes %s from offset 0x%X, which the spec does not map to that field" % (fn, s["tag"], s["off"]), s["sp"])
    # contiguity
    off = start_off
    contiguous = True
    for s in segs:
        contiguous = contiguous and s["off"] == off
        off += s["len"]
    rep.ob(rule + ".contiguous", contiguous, fn, "cursor", "the reads of %s do not tile the block contiguously" % fn)


def tails_rule(rep, fn, segs, spec_fields, len_classes, rule):
    """optional tails appear in spec order, each produced by if_more, and the cumulative lengths are the spec's length classes"""
    tails = sorted(set(s["tail"] for s in segs))
    lens = []
    total = 0
    for t in tails:
        total += sum(s["len"] for s in segs if s["tail"] == t)
        lens.append(total)
    want = [c["len"] for c in len_classes]
    rep.ob(rule + ".length-classes", lens == want, fn, "lengths", "%s accepts block lengths %s, the spec's per-version lengths are %s" % (fn, lens, want), sample={"length_classes": lens})
    # each tail holds exactly the fields the spec introduced together
    since_of = {}
    for f in spec_fields:
        since_of[f["off"]] = f.get("since") or "0.1"
    groups = {}
    for s in segs:
        if s["off"] in since_of:
            groups.setdefault(s["tail"], set()).add(since_of[s["off"]])
    ok = all(len(v) == 1 for v in groups.values())
    order_ok = [sorted(v)[0] for k, v in sorted(groups.items())] == sorted(set(since_of.values()), key=model.parse_ver)
    rep.ob(rule + ".tails", ok and order_ok, fn, "tails", "optional tails of %s do not follow the spec's introduction order: %s" % (fn, {k: sorted(v) for k, v in groups.items()}))


def start_struct_rule(F, rep):
    b = F.body(GS)
    lits = [x for x in tir.walk(b["tir"]["value"]) if x.get("k") == "Struct" and (x.get("path") or "") == "game::Start"]
    rep.ob("start.literal", len(lits) == 1, GS, "Start", "game_start must build exactly one game::Start")
    if len(lits) != 1:
        return
    st = F.structs["game::Start"]
    for f in lits[0]["fields"]:
        rep.ob("start.wiring", L.local_name(f["e"]) is not None, GS, f["name"], "Start.%s is initialised from `%s`, not directly from a decoded value" % (f["name"], tir.pretty(f["e"])[:40]))
    rep.ob("start.all-fields", sorted(f["name"] for f in lits[0]["fields"]) == sorted(x["name"] for x in st["fields"]), GS, "fields", "not every field of game::Start is initialised explicitly")
    # booleans are `byte != 0`
    roles = start_roles(F)
    inv = {v: k for k, v in roles.items() if v}
    for nm in ("is_raining_bombs", "is_teams"):
        ok = False
        for n in tir.walk(b["tir"]["value"]):
            if n.get("k") == "Let" and n["pat"].get("name") == inv.get(nm):
                i = strip(n["init"])
                ok = i.get("k") == "Binary" and i["op"] == "Ne" and tir.lit_int(i["r"]) == 0
        rep.ob("start.bool", ok, GS, nm, "%s must be `byte != 0`" % nm)
    # players: ports 0..NUM_PORTS in order, each from its own slices
    ok = False
    why = "no `players` construction found"
    calls = [x for x in tir.walk(b["tir"]["value"]) if x.get("k") == "Call" and declared(x) == PL]
    if len(calls) == 1:
        par = None
        import safety
        parents = safety.parents(b["tir"]["value"])
        y = calls[0]
        closure = None
        while id(y) in parents:
            y = parents[id(y)]
            if y.get("k") == "Closure":
                closure = y
                break
        why = "player() is not called from a closure over the ports"
        loop = None
        if closure is None:
            y = calls[0]
            while id(y) in parents:
                y = parents[id(y)]
                if y.get("k") == "For":
                    loop = y
                    break
        if loop is not None and loop["pat"].get("k") == "Bind":
            # `for n in 0..NUM_PORTS { if let Some(p) = player(.., n ..)? { players.push(p) } }` (the result may pass through a let)
            nname = loop["pat"].get("name")
            rng = safety.const_range(F, loop["iter"])
            a = calls[0]["args"]

            def idx_ok(e):
                e = strip(e)
                if e.get("k") == "Index":
                    return L.local_name(e["index"]) == nname or (strip(e["index"]).get("k") == "Cast" and L.local_name(strip(e["index"])["e"]) == nname)
                if e.get("k") == "MethodCall" and e["method"] == "map":
                    cl = strip(e["args"][0])
                    return cl.get("k") == "Closure" and idx_ok(cl["body"])
                return False
            a0 = strip(a[0])
            port_ok = a0.get("k") == "MethodCall" and a0["method"] == "unwrap" and "game::Port" in (a0.get("ty") or "") and nname in [x.get("name") for x in tir.walk(a0) if x.get("k") == "Path"]
            arrays_ok = len(a) == 8 and all(idx_ok(a[i]) for i in (1, 3, 4, 5, 6, 7))
            teams_ok = roles.get(L.local_name(a[2]) or "") == "is_teams"
            tried = (parents.get(id(calls[0])) or {}).get("k") == "Try"
            benv = tir.LetEnv(loop["body"])
            pushes = [x for x in tir.walk(b["tir"]["value"]) if x.get("k") == "MethodCall" and x["method"] == "push" and (x["recv"].get("ty") or "").replace("&mut ", "") == "std::vec::Vec<game::Player>"]
            flow_ok = False
            if len(pushes) == 1 and any(x is pushes[0] for x in tir.walk(loop["body"])):
                parg = strip(pushes[0]["args"][0])
                for x in tir.walk(loop["body"]):
                    conds = []
                    if x.get("k") == "If" and x["cond"].get("k") == "LetCond" and not x.get("else"):
                        conds.append((x["cond"]["pat"], x["cond"]["init"], x["then"]))
                    if x.get("k") == "Match" and len(x["arms"]) == 2:
                        for arm in x["arms"]:
                            conds.append((arm["pat"], x["scrut"], arm["body"]))
                    for p, init, body in conds:
                        if p.get("k") == "TupleStruct" and (p.get("path") or "").endswith("::Some") and len(p.get("pats", [])) == 1 and p["pats"][0].get("k") == "Bind" \
                                and parg.get("k") == "Path" and parg.get("id") == p["pats"][0].get("id") and any(z is pushes[0] for z in tir.walk(body)):
                            src = strip(init)
                            if src.get("k") == "Path" and src.get("res") == "local":
                                src = strip(benv.resolve(src) or src)
                            flow_ok = src.get("k") == "Try" and strip(src["e"]) is calls[0]
            vec_new = False
            if pushes:
                vid = strip(pushes[0]["recv"]).get("id")
                for x in tir.walk(b["tir"]["value"]):
                    if x.get("k") == "Let" and x["pat"].get("k") == "Bind" and x["pat"].get("id") == vid:
                        i = strip(x.get("init") or {})
                        vec_new = i.get("k") == "Call" and (i.get("path") or "").endswith(("Vec::new", "Vec::<T>::new", "Vec::with_capacity", "Vec::<T>::with_capacity")) or "Vec" in (i.get("path") or "") and (i.get("path") or "").endswith(("::new", "::with_capacity"))
            ok = port_ok and arrays_ok and teams_ok and tried and rng == (0, 4) and flow_ok and vec_new
            why = "loop form: port_ok=%s arrays_ok=%s teams_ok=%s propagated=%s range=%s some-pushed=%s fresh-vec=%s" % (port_ok, arrays_ok, teams_ok, tried, rng, flow_ok, vec_new)
        if closure is not None and len(closure["params"]) == 1:
            nname = closure["params"][0].get("name")
            method, recv = safety.closure_application(b["tir"]["value"], closure)
            rng = safety.const_range(F, recv) if recv is not None else None
            a = calls[0]["args"]

            def idx_ok(e):
                e = strip(e)
                if e.get("k") == "Index":
                    return L.local_name(e["index"]) == nname or (strip(e["index"]).get("k") == "Cast" and L.local_name(strip(e["index"])["e"]) == nname)
                if e.get("k") == "MethodCall" and e["method"] == "map":
                    cl = strip(e["args"][0])
                    return cl.get("k") == "Closure" and idx_ok(cl["body"])
                return False
            a0 = strip(a[0])
            port_ok = a0.get("k") == "MethodCall" and a0["method"] == "unwrap" and "game::Port" in (a0.get("ty") or "") and nname in [x.get("name") for x in tir.walk(a0) if x.get("k") == "Path"]
            arrays_ok = all(idx_ok(a[i]) for i in (1, 3, 4, 5, 6, 7)) and len(a) == 8
            teams_ok = roles.get(L.local_name(a[2]) or "") == "is_teams"
            chain = tir.pretty(parents.get(id(calls[0])) or {})
            collected = False
            y = closure
            meths = []
            while id(y) in parents:
                y = parents[id(y)]
                if y.get("k") == "MethodCall":
                    meths.append(y["method"])
            ok = port_ok and arrays_ok and teams_ok and method == "filter_map" and rng == (0, 4) and "collect" in meths
            why = "port_ok=%s arrays_ok=%s teams_ok=%s adaptor=%s range=%s" % (port_ok, arrays_ok, teams_ok, method, rng)
    rep.ob("start.players", ok, GS, "players", "players must be built for n in 0..NUM_PORTS in order, each from slice n of every per-port array, dropping ports whose player() is None (%s)" % why)
    ev = order.Evaluator(F)
    rep.ob("start.num-ports", ev.const_value("game::NUM_PORTS") == 4 and ev.const_value("game::MAX_PLAYERS") == 6, "game::NUM_PORTS", "consts", "NUM_PORTS must be 4 and MAX_PLAYERS 6")


def player_roles(F):
    """let-local of player() -> Player field (through the Player / Team literals)"""
    b = F.body(PL)
    roles = {}
    for x in tir.walk(b["tir"]["value"]):
        if x.get("k") == "Struct" and (x.get("path") or "") == "game::Player":
            for f in x["fields"]:
                ln = L.local_name(f["e"])
                if ln:
                    roles[ln] = f["name"].replace("r#", "")
        if x.get("k") == "Struct" and (x.get("path") or "") == "game::Team":
            for f in x["fields"]:
                ln = L.local_name(f["e"])
                if ln:
                    roles[ln] = "team." + f["name"]
    # a field local computed from exactly one other scalar local (`let cpu_level = is_cpu.then_some(raw_level)`): the value read
    # into that local is the field's
    pids = set(p.get("id") for p in b["tir"]["params"])
    for x in tir.walk(b["tir"]["value"]):
        if x.get("k") == "Let" and x["pat"].get("k") == "Bind" and x["pat"].get("name") in roles and x.get("init") is not None:
            srcs = {}
            for y in tir.walk(x["init"]):
                if y.get("k") == "Path" and y.get("res") == "local" and y.get("id") not in pids and y.get("name") not in roles and y.get("ty") in ("u8", "i8", "u16", "u32", "f32"):
                    srcs[y.get("id")] = y.get("name")
            inner_lets = [z for z in tir.walk(x["init"]) if z.get("k") == "Let"]
            if len(srcs) == 1 and not inner_lets:
                roles.setdefault(next(iter(srcs.values())), roles[x["pat"]["name"]])
    return roles


def player_rule(F, rep, spec):
    b = F.body(PL)
    root = b["tir"]["value"]
    pnames = [q.get("name") for q in b["tir"]["params"]]
    roles = player_roles(F)
    by_off = {}
    try:
        p = cursor.Prog(F, PL)
        raw = p.run(0, p.cursor_over(pnames[1]))
        segs = []
        for sg in raw:
            sg = dict(sg)
            if sg["tag"]:
                rootname = sg["tag"].split(".")[0]
                by_off[sg["off"]] = rootname
                sg["tag"] = roles.get(rootname, rootname)
            segs.append(sg)
        compare_layout(rep, PL, segs, spec["player_block"]["fields"], 0, "player")
        rep.ob("player.block-length", sum(x["len"] for x in segs) == spec["player_block"]["len"], PL, "length", "the player block reads %d bytes, spec says %d" % (sum(x["len"] for x in segs), spec["player_block"]["len"]))
        ucf_local = None
        for x in tir.walk(root):
            if x.get("k") == "Match" and L.local_name(x["scrut"]) == pnames[3]:
                for a in x["arms"]:
                    if a["pat"].get("k") == "TupleStruct" and a["pat"]["pats"][0].get("k") == "Bind":
                        ucf_local = a["pat"]["pats"][0]["name"]
        p2 = cursor.Prog(F, PL)
        segs2 = p2.run(0, p2.cursor_over(ucf_local or pnames[3]))
        compare_layout(rep, PL + "#ucf", segs2, spec["ucf_block"]["fields"], 0, "ucf")
    except L.Unsupported as e:
        rep.cannot("player.layout", PL, e)
    en = F.enums.get("game::PlayerType")
    rep.ob("player.types", en is not None and sorted(v["discr"] for v in en["variants"]) == [0, 1, 2], "game::PlayerType", "discriminants", "PlayerType must be exactly {0: human, 1: CPU, 2: demo}")
    # kept <=> the type byte is a PlayerType: type := PlayerType::try_from(byte@1).ok(); result := Ok(type.map(|t| Player {..}))
    tname = by_off.get(1)
    t_ok = False
    for x in tir.walk(root):
        if x.get("k") == "Let" and x["pat"].get("name") == tname:
            i = strip(x["init"])
            t_ok = i.get("k") == "MethodCall" and i["method"] == "ok" and "game::PlayerType" in (i.get("ty") or "")
    tail = L.strip_try(L.strip_try(root).get("tail") or {})
    keep_ok = False
    if tail.get("k") == "Call" and (declared(tail) or "").endswith("::Ok"):
        m = strip(tail["args"][0])
        keep_ok = m.get("k") == "MethodCall" and m["method"] == "map" and L.local_name(m["recv"]) == tname and any(y.get("k") == "Struct" and (y.get("path") or "") == "game::Player" for y in tir.walk(m))
    rep.ob("player.type-filter", t_ok and keep_ok, PL, "kept", "a player is listed exactly when its type byte is a PlayerType (try_from(..).ok() mapped into the Player)")
    # team <=> is_teams (parameter 2)
    team_ok = False
    for x in tir.walk(root):
        bb = tir.bool_branch(x) if x.get("k") in ("Match", "If") else None
        if bb is not None and bb[2] is not None and L.local_name(bb[0]) == pnames[2]:
            def cls(body):
                body = L.strip_try(body)
                if (declared(body) or "").endswith("Some") and any(y.get("k") == "Struct" and (y.get("path") or "") == "game::Team" for y in tir.walk(body)):
                    return "some-team"
                return "none" if (body.get("path") or "").endswith("None") else "?"
            team_ok = cls(bb[1]) == "some-team" and cls(bb[2]) == "none"
        elif x.get("k") == "MethodCall" and x["method"] in ("then", "then_some") and L.local_name(x["recv"]) == pnames[2] and any(y.get("k") == "Struct" and (y.get("path") or "") == "game::Team" for y in tir.walk(x)):
            team_ok = True
    rep.ob("player.team", team_ok, PL, "team", "team must be Some(Team{color, shade}) exactly when is_teams")
    # cpu_level <=> type == Cpu
    cpu_ok = False
    lvl = by_off.get(0xF)
    for x in tir.walk(root):
        if x.get("k") == "Match" and L.local_name(x["scrut"]) == tname:
            res = {}
            n_arms = 0
            for a in x["arms"]:
                pt = a["pat"]
                n_arms += 1
                exact_cpu = (pt.get("k") == "TupleStruct" and (pt.get("path") or "").endswith("Some") and len(pt["pats"]) == 1 and pt["pats"][0].get("k") == "Lit"
                             and (pt["pats"][0]["e"].get("path") or "").endswith("PlayerType::Cpu"))
                mentions_cpu = "PlayerType::Cpu" in tir.pat(pt) or pt.get("k") == "Or"
                body = L.strip_try(a["body"])
                kind = "cpu" if exact_cpu else ("mixed" if mentions_cpu else "other")
                res[kind] = "some" if (declared(body) or "").endswith("Some") else ("none" if (body.get("path") or "").endswith("None") else "?")
            cpu_ok = cpu_ok or (res == {"cpu": "some", "other": "none"} and n_arms == 2)
        # Some(<level byte>).filter(|_| type == Some(PlayerType::Cpu))  /  (type == Some(Cpu)).then_some(<level byte>)
        if x.get("k") == "MethodCall" and x["method"] == "filter" and len(x["args"]) == 1 and (declared(strip(x["recv"])) or "").endswith("::Some"):
            cl = strip(x["args"][0])
            c = strip(cl["body"]) if cl.get("k") == "Closure" and len(cl["params"]) == 1 and cl["params"][0].get("k") == "Wild" else {}
            cpu_ok = cpu_ok or is_cpu_test(c, tname)
        if x.get("k") == "MethodCall" and x["method"] in ("then_some", "then") and is_cpu_test(strip(x["recv"]), tname):
            cpu_ok = True
        if x.get("k") == "MethodCall" and x["method"] in ("then_some", "then"):
            # matches!(type, Some(PlayerType::Cpu)) expands to `match type { Some(PlayerType::Cpu) => true, _ => false }`
            mm = strip(x["recv"])
            if mm.get("k") == "Match" and L.local_name(mm["scrut"]) == tname and len(mm["arms"]) == 2:
                a0, a1 = mm["arms"]
                pt = a0["pat"]
                exact_cpu = (pt.get("k") == "TupleStruct" and (pt.get("path") or "").endswith("Some") and len(pt["pats"]) == 1 and pt["pats"][0].get("k") == "Lit"
                             and (pt["pats"][0]["e"].get("path") or "").endswith("PlayerType::Cpu"))
                if exact_cpu and not a0.get("guard") and strip(a0["body"]).get("v") is True and a1["pat"].get("k") == "Wild" and strip(a1["body"]).get("v") is False:
                    cpu_ok = True
    rep.ob("player.cpu-level", cpu_ok, PL, "cpu_level", "cpu_level must be present exactly for CPU players")
    ucf = F.structs.get("game::Ucf")
    utys = {f["name"]: f["ty"] for f in ucf["fields"]} if ucf else {}
    zero_none = 0
    for x in tir.walk(root):
        if x.get("k") == "Match" and x["scrut"].get("k") == "Try" and strip(x["scrut"]["e"]).get("method") == "read_u32":
            arms = {tir.pat(a["pat"]): L.strip_try(a["body"]) for a in x["arms"]}
            if (arms.get("0") or {}).get("path", "").endswith("None") and any((declared(v) or "").endswith("Some") for k, v in arms.items() if k != "0"):
                zero_none += 1
    rep.ob("player.ucf-zero", zero_none == 2 and utys == {"dash_back": "std::option::Option<game::DashBack>", "shield_drop": "std::option::Option<game::ShieldDrop>"}, PL, "ucf", "UCF toggles: 0 means none, other values decode through DashBack/ShieldDrop")
    lits = [x for x in tir.walk(root) if x.get("k") == "Struct" and (x.get("path") or "") == "game::Player"]
    st = F.structs.get("game::Player")
    rep.ob("player.wiring", len(lits) == 1 and sorted(f["name"] for f in lits[0]["fields"]) == sorted(f["name"] for f in st["fields"]) and all(L.local_name(f["e"]) for f in lits[0]["fields"]), PL, "Player",
           "player() must build exactly one game::Player with every field initialised from a decoded local")
    # an optional Player field is present exactly when its own version tier's block is: its Option derives from that tier's
    # parameter(s) alone (a field zipped with a later tier's Option would vanish for the versions in between)
    if len(lits) == 1 and len(b["tir"]["params"]) == 8:
        pn = [p.get("name") for p in b["tir"]["params"]]
        pid = {p.get("id"): p.get("name") for p in b["tir"]["params"]}
        env_ = tir.LetEnv(root)

        def sources(e, depth=0):
            e = strip(e)
            if depth > 12:
                return {"?"}
            k = e.get("k")
            if k == "Try":
                return sources(e["e"], depth + 1)
            if k == "Path" and e.get("res") == "local":
                if e.get("id") in pid:
                    return {pid[e["id"]]}
                if e.get("id") in env_.lets:
                    return sources(env_.lets[e["id"]], depth + 1)
                return {"?" + str(e.get("name"))}
            if k == "MethodCall" and e["method"] in ("map", "transpose", "as_ref", "as_mut", "copied", "cloned", "ok_or", "ok_or_else", "as_deref"):
                return sources(e["recv"], depth + 1)
            if k == "MethodCall" and e["method"] == "zip" and len(e.get("args", [])) == 1:
                return sources(e["recv"], depth + 1) | sources(e["args"][0], depth + 1)
            if k == "Match" and (e["scrut"].get("ty") or "").lstrip("&").startswith("std::option::Option<") and len(e["arms"]) == 2:
                kinds = set()
                for a in e["arms"]:
                    body = L.strip_try(a["body"])
                    while body.get("k") == "Block" and body.get("tail") is not None:
                        body = L.strip_try(body["tail"])
                    kinds.add("some" if (declared(body) or "").endswith("::Some") else ("none" if (body.get("path") or "").endswith("::None") else "?"))
                if kinds == {"some", "none"}:
                    return sources(e["scrut"], depth + 1)
            if k == "If" and e["cond"].get("k") == "LetCond" and e.get("else") is not None:
                t_, f_ = L.strip_try(e["then"]), L.strip_try(e["else"])
                while t_.get("k") == "Block" and t_.get("tail") is not None:
                    t_ = L.strip_try(t_["tail"])
                if (declared(t_) or "").endswith("::Some") and (f_.get("path") or "").endswith("::None"):
                    return sources(e["cond"]["init"], depth + 1)
            return {"?"}
        want_src = {"ucf": {pn[3]}, "name_tag": {pn[4]}, "netplay": {pn[5], pn[6]}}
        for f_ in lits[0]["fields"]:
            nm = f_["name"].replace("r#", "")
            if nm in want_src:
                got = sources(f_["e"])
                rep.ob("player.optional-presence", got == want_src[nm], PL, nm + ".presence",
                       "Player.%s must be present exactly when its own tier's block is (parameters %s); its Option derives from %s" % (nm, sorted(want_src[nm]), sorted(got)), tir.sp(f_["e"]),
                       sample={"field": nm, "sources": sorted(got)})
    # name tag / netplay name / code decoded from their whole per-port arrays (parameters 4, 5, 6)
    whole = {}
    for x in tir.walk(root):
        if x.get("k") == "Call" and (declared(x) or "").endswith("TryFrom::try_from") and "MeleeString" in (x.get("ty") or ""):
            a = strip(x["args"][0])      # `&x[..]`, `x.as_slice()`, `&x`: the whole array
            if a.get("k") == "MethodCall" and a["method"] == "as_slice":
                a = strip(a["recv"])
            if a.get("k") == "Path" and a.get("res") == "local":
                whole[(a.get("ty") or "").lstrip("&")] = True
    rep.ob("player.names", all(t in whole for t in ("[u8; 16]", "[u8; 31]", "[u8; 10]")), PL, "names", "name tag / netplay name / code must be decoded from their whole 16/31/10-byte per-port arrays")


def strings_rule(F, rep):
    """Slippi UID (29 bytes) and match id (51 bytes) are NUL-terminated: the value is the bytes before the first NUL, and the
    reserved last byte never belongs to it (fallback bound = len - 1)"""
    import safety
    for fn, base, ln in ((PL, "uid", 29), (GS, "match id", 51)):
        b = F.body(fn)
        root = b["tir"]["value"]
        found = False
        for n in tir.walk(root):
            if n.get("k") == "Index" and tir.place(n["base"]) and (strip(n["base"]).get("ty") or "").replace(" ", "").lstrip("&") in ("[u8;%d]" % ln,):
                why = safety.slice_to_position(F, root, n)
                idx = strip(n["index"])
                if why and ("unwrap_or(%d)" % (ln - 1)) in why:
                    # the slice feeds from_utf8
                    par = safety.parents(root)
                    y = n
                    utf8 = False
                    for _ in range(4):
                        y = par.get(id(y)) or {}
                        if y.get("k") == "Call" and (declared(y) or "").endswith("str::from_utf8"):
                            utf8 = True
                    found = utf8
        rep.ob("strings.terminated", found, fn, base, "%s: the %d-byte NUL-terminated %s field must be decoded as from_utf8(&buf[0..k]) with k = first NUL, or %d when there is none (the reserved terminator byte is never part of the value)" % (
            fn, ln, base, ln - 1), sample={"fn": fn, "field": base, "max_len": ln - 1})


def is_cpu_test(c, tname):
    """`type == Some(PlayerType::Cpu)` (either order) on the player's type local"""
    if c.get("k") != "Binary" or c.get("op") != "Eq":
        return False
    for a, b_ in ((c["l"], c["r"]), (c["r"], c["l"])):
        v = strip(b_)
        if L.local_name(a) == tname and v.get("k") == "Call" and (declared(v) or "").endswith("::Some") and len(v["args"]) == 1 and (strip(v["args"][0]).get("path") or "").endswith("PlayerType::Cpu"):
            return True
    return False


def placements_ok(b):
    """(0..NUM_PORTS).filter_map(|n| player_end(Port::try_from(n as u8).unwrap(), placements[n]).transpose())"""
    for fm in tir.walk(b["tir"]["value"]):
        if fm.get("k") == "MethodCall" and fm["method"] == "filter_map" and len(fm["args"]) == 1:
            rg = strip(fm["recv"])
            cl = strip(fm["args"][0])
            if not (rg.get("k") == "Struct" and (rg.get("path") or "").endswith("ops::Range") and cl.get("k") == "Closure" and len(cl["params"]) == 1):
                continue
            f = {x["name"]: strip(x["e"]) for x in rg["fields"]}
            if tir.lit_int(f.get("start") or {}) != 0 or not (f.get("end", {}).get("path") or "").endswith("NUM_PORTS"):
                continue
            nid = cl["params"][0].get("id")
            body = L.strip_try(cl["body"])
            if not (body.get("k") == "MethodCall" and body["method"] == "transpose"):
                continue
            pe = strip(body["recv"])
            if not (pe.get("k") == "Call" and (declared(pe) or "") == "io::slippi::de::player_end" and len(pe["args"]) == 2):
                continue
            a0, a1 = pe["args"]
            port_from_n = any(x.get("k") == "Call" and (declared(x) or "").endswith("TryFrom::try_from") and any(y.get("k") == "Path" and y.get("id") == nid for y in tir.walk(x)) for x in tir.walk(a0)) and "Port" in (a0.get("ty") or "")
            ix = strip(a1)
            idx = strip(ix.get("index") or {})
            if idx.get("k") == "Cast":
                idx = strip(idx["e"])
            plc = ix.get("k") == "Index" and (tir.place(ix["base"]) or "").endswith("placements") and idx.get("id") == nid
            return bool(port_from_n and plc)
    # placements.into_iter().enumerate().filter_map(|(n, placement)| player_end(Port::try_from(n as u8).unwrap(), placement).transpose())
    for fm in tir.walk(b["tir"]["value"]):
        if fm.get("k") == "MethodCall" and fm["method"] in ("filter_map", "map") and len(fm["args"]) == 1:
            it = strip(fm["recv"])
            cl = strip(fm["args"][0])
            if not (it.get("k") == "MethodCall" and it["method"] == "enumerate" and cl.get("k") == "Closure" and len(cl["params"]) == 1 and cl["params"][0].get("k") == "Tuple" and len(cl["params"][0]["pats"]) == 2):
                continue
            src = strip(it["recv"])
            while src.get("k") == "MethodCall" and src["method"] in ("iter", "into_iter", "copied") and not src.get("args"):
                src = strip(src["recv"])
            if not (tir.place(src) or "").endswith("placements") or "[i8; 4]" not in (src.get("ty") or ""):
                continue
            q0, q1 = cl["params"][0]["pats"]
            while q1.get("k") == "Ref":
                q1 = q1["pat"]
            if q0.get("k") != "Bind" or q1.get("k") != "Bind":
                continue
            nid, xid = q0["id"], q1["id"]
            for pe in tir.walk(cl["body"]):
                if pe.get("k") == "Call" and (declared(pe) or "") == "io::slippi::de::player_end" and len(pe["args"]) == 2:
                    a0, a1 = pe["args"]
                    port_from_n = any(x.get("k") == "Call" and (declared(x) or "").endswith("TryFrom::try_from") and any(y.get("k") == "Path" and y.get("id") == nid for y in tir.walk(x)) for x in tir.walk(a0)) and "Port" in (a0.get("ty") or "")
                    v = strip(a1)
                    return bool(port_from_n and v.get("id") == xid)
    # for (n, placement) in placements.into_iter().enumerate() { .. player_end(Port::try_from(n as u8).unwrap(), placement)? .. }
    for lp in tir.walk(b["tir"]["value"]):
        if lp.get("k") == "For" and lp["pat"].get("k") == "Tuple" and len(lp["pat"]["pats"]) == 2 and all(q.get("k") == "Bind" for q in lp["pat"]["pats"]):
            it = strip(lp["iter"])
            if not (it.get("k") == "MethodCall" and it["method"] == "enumerate"):
                continue
            src = strip(it["recv"])
            while src.get("k") == "MethodCall" and src["method"] in ("iter", "into_iter", "copied") and not src.get("args"):
                src = strip(src["recv"])
            if not (tir.place(src) or "").endswith("placements") or "[i8; 4]" not in (src.get("ty") or ""):
                continue
            nid, xid = lp["pat"]["pats"][0]["id"], lp["pat"]["pats"][1]["id"]
            for pe in tir.walk(lp["body"]):
                if pe.get("k") == "Call" and (declared(pe) or "") == "io::slippi::de::player_end" and len(pe["args"]) == 2:
                    a0, a1 = pe["args"]
                    port_from_n = any(x.get("k") == "Call" and (declared(x) or "").endswith("TryFrom::try_from") and any(y.get("k") == "Path" and y.get("id") == nid for y in tir.walk(x)) for x in tir.walk(a0)) and "Port" in (a0.get("ty") or "")
                    v = strip(a1)
                    while v.get("k") == "Unary" and v.get("op") == "Deref":
                        v = strip(v["e"])
                    return bool(port_from_n and v.get("id") == xid)
    # for n in 0..NUM_PORTS { .. player_end(Port::try_from(n as u8).unwrap(), placements[n])? .. }
    for lp in tir.walk(b["tir"]["value"]):
        if lp.get("k") == "For" and lp["pat"].get("k") == "Bind":
            rg = strip(lp["iter"])
            if not (rg.get("k") == "Struct" and (rg.get("path") or "").endswith("ops::Range")):
                continue
            f = {x["name"]: strip(x["e"]) for x in rg["fields"]}
            if tir.lit_int(f.get("start") or {}) != 0 or not (f.get("end", {}).get("path") or "").endswith("NUM_PORTS"):
                continue
            nid = lp["pat"]["id"]
            env = tir.LetEnv(lp["body"])
            for pe in tir.walk(lp["body"]):
                if pe.get("k") == "Call" and (declared(pe) or "") == "io::slippi::de::player_end" and len(pe["args"]) == 2:
                    a0 = env.resolve(pe["args"][0])
                    a1 = env.resolve(pe["args"][1])
                    port_from_n = any(x.get("k") == "Call" and (declared(x) or "").endswith("TryFrom::try_from") and any(y.get("k") == "Path" and y.get("id") == nid for y in tir.walk(x)) for x in tir.walk(a0)) and "Port" in (pe["args"][0].get("ty") or "")
                    ix = strip(a1)
                    idx = strip(ix.get("index") or {})
                    while idx.get("k") == "Cast":
                        idx = strip(idx["e"])
                    plc = ix.get("k") == "Index" and (tir.place(ix["base"]) or "").endswith("placements") and idx.get("id") == nid
                    return bool(port_from_n and plc)
    return False


def no_extra_refusal_rule(F, rep):
    """the decoders reject a block only through the conversions the spec's value domains call for (enum try_from, string decoding,
    the per-port placement table) and through `?` on reads of the block itself: an explicit Err(..) / early return / panic in
    game_start, player or game_end is a refusal of some byte combination the spec allows"""
    for fn in (GS, PL, GE):
        b = F.body(fn)
        if b is None:
            continue
        root = b["tir"]["value"]
        errs = [x for x in tir.walk(root) if x.get("k") == "Call" and (declared(x) or "").endswith("::Err") and (x.get("dk") or "").startswith("Ctor")]
        rets = [x for x in tir.walk(root) if x.get("k") == "Ret"]
        pan = [x for x in tir.walk(root) if x.get("k") == "Call" and (declared(x) or "").startswith("core::panicking") and not tir.in_macro(x, "debug_assert", "debug_assert_eq")]
        bad = errs + rets + pan
        rep.ob("decode.no-extra-refusal", not bad, fn, "refusal", "%s rejects a block outside the spec's value domains at %s: every byte combination of the fields it decodes must be accepted" % (
            fn, [tir.sp(x) for x in bad[:3]]), tir.sp(bad[0]) if bad else "")


def end_rule(F, rep, spec):
    try:
        segs = cursor.Prog(F, GE).run(1)
        compare_layout(rep, GE, segs, spec["end"]["fields"], 1, "end")
        tails_rule(rep, GE, segs, spec["end"]["fields"], spec["end"]["payload_len_classes"], "end")
    except L.Unsupported as e:
        rep.cannot("end.layout", GE, e)
    b = F.body(GE)
    txt = tir.pretty(b["tir"]["value"])
    rep.ob("end.method", "let method = std::convert::TryFrom::try_from(r.read_u8()?).map_err(io::slippi::de::invalid_data)?" in txt, GE, "method", "method must be EndMethod::try_from(byte 0)")
    rep.ob("end.lras", "match r.read_u8()? {255 => std::prelude::v1::None; x => std::prelude::v1::Some(std::convert::TryFrom::try_from(x).map_err(io::slippi::de::invalid_data)?)}" in txt, GE, "lras", "LRAS initiator: 255 means none, otherwise Port::try_from")
    rep.ob("end.placements", placements_ok(b), GE, "placements",
           "placements must pair index n with port n for n in 0..NUM_PORTS")
    import valeval

    def pe_spec(v):
        if v == -1:
            return ("Ok", ("None",))
        if 0 <= v <= 3:
            return ("Ok", ("Some", ("struct", "game::PlayerEnd", (("placement", v), ("port", ("sym", "port"))))))
        return ("Err",)
    valeval.decide_table(F, "io::slippi::de::player_end", "placement", ["port"], pe_spec, rep, "end.player_end")
    pe = ""
    rep.ob("end.player_end.present", F.body("io::slippi::de::player_end") is not None, "io::slippi::de::player_end", "table",
           "placement -1 means absent, 0..=3 is kept with its port")
    lits = [x for x in tir.walk(b["tir"]["value"]) if x.get("k") == "Struct" and (x.get("path") or "") == "game::End"]
    ok = len(lits) == 1 and all(L.local_name(f["e"]) == f["name"] for f in lits[0]["fields"])
    rep.ob("end.wiring", ok, GE, "End", "End fields must be initialised from the same-named decoded values")
    em = F.enums.get("game::EndMethod")
    rep.ob("end.methods", em is not None and sorted(v["discr"] for v in em["variants"]) == [0, 1, 2, 3, 7], "game::EndMethod", "discriminants", "EndMethod must be {0,1,2,3,7}")


def whole_payload_rule(F, rep):
    """optional fields are present exactly when the *event's* block is long enough, and the block is retained unchanged:
    game_start / game_end must be handed the whole payload buffer (the `vec![0; size]` filled by read_exact), not a
    sub-slice of it cut to a length computed elsewhere (e.g. from the version)"""
    n = 0
    for b in F.fn_bodies():
        root = b["tir"]["value"]
        calls = [c for c in tir.walk(root) if c.get("k") == "Call" and (tir.callee(c) or declared(c) or "") in (GS, GE)]
        if not calls:
            continue
        env = tir.LetEnv(root)
        for c in calls:
            n += 1
            a = strip(c["args"][0]) if c.get("args") else {}
            for _ in range(6):
                while a.get("k") in ("AddrOf",) or (a.get("k") == "Unary" and a.get("op") == "Deref"):
                    a = strip(a["e"])
                if a.get("k") == "Path" and a.get("res") == "local" and (a.get("ty") or "") == "std::vec::Vec<u8>":
                    break
                r = env.resolve(a, peel=True) if a.get("k") == "Path" and a.get("res") == "local" else a
                if r is a or r is None:
                    break
                a = strip(r)
            is_buf = a.get("k") == "Path" and a.get("res") == "local" and (a.get("ty") or "").replace("&mut ", "").replace("&", "") in ("std::vec::Vec<u8>", "[u8]")
            init = None
            if is_buf:
                lets = [x for x in tir.walk(root) if x.get("k") == "Let" and x["pat"].get("k") == "Bind" and x["pat"].get("id") == a.get("id")]
                init = lets[0].get("init") if lets else None
            whole = is_buf and (init is None or tir.in_macro(init, "vec") or (init.get("ty") or "") == "std::vec::Vec<u8>")
            rep.ob("payload.whole", bool(whole), b["path"], tir.short(tir.callee(c) or declared(c)),
                   "%s must be given the whole event payload buffer; it is given %s (a cut slice changes which optional fields are seen and what the retained raw block holds)" % (
                       tir.short(tir.callee(c) or declared(c)), tir.pretty(c["args"][0])[:80] if c.get("args") else "nothing"), tir.sp(c))
    rep.floor("game_start / game_end call sites in the reader", n, 2)


def immutable_values_rule(F, rep):
    """a decoded Start / End / Player value is what game_start / player / game_end built from the block: no code anywhere takes
    a mutable borrow of, or assigns to, a field of those structs afterwards (a post-decode fix-up would make a field differ
    from its spec-offset bytes while every decoder still looks right)"""
    import re
    rx = re.compile(r"^(&(mut )?)*game::(Start|End|Player|PlayerEnd|Netplay|Match|Scene|Ucf|Bytes)$")
    n = 0
    for b in F.fn_bodies():
        for x, mut in tir.mutable_projections(b["tir"]["value"], rx):
            n += 1
            rep.ob("values.immutable", not mut, b["path"], "%s.%s" % ((x["base"].get("ty") or "").rsplit("::", 1)[-1], x.get("name")),
                   "%s mutates `%s` of %s after it was decoded" % (b["path"], x.get("name"), x["base"].get("ty")), tir.sp(x))
    rep.floor("projections of decoded Start/End/Player fields", n, 40)
    probe = {"k": "Assign", "l": {"k": "Field", "name": "stocks", "ty": "u8", "base": {"k": "Path", "res": "local", "name": "p", "ty": "&mut game::Player"}}, "r": {"k": "Lit", "lit": "int", "v": 0}}
    rep.control("mutable-projection scan sees an assignment to Player.stocks", [m for _, m in tir.mutable_projections(probe, rx)] == [True])


def end_size_rule(F, rep):
    """game::End::size(version) — what the reader compares a trailing Game End against and what the writer declares for a game
    without one — is the spec's Game End payload length of that version, for every version (E5 over the order types)"""
    import order
    spec = model.load_spec("start_spec.json")["end"]["payload_len_classes"]
    classes = sorted((tuple(int(x) for x in c["since"].split(".")), c["len"]) for c in spec)

    def want(v):
        out = classes[0][1]          # versions below the first release use the first layout
        for since, ln in classes:
            if (v[0], v[1]) >= since:
                out = ln
        return out
    import valeval
    sc = set(x for since, _ in classes for x in since)
    order.decide(F, rep, "E5.end-size", "game::End::size", [3], want, allow=(order.GTE, order.LT), cls=valeval.ValueEval, spec_consts=sc)


def exact_reads_rule(F, rep):
    """the block decoders read their cursor with exact-length reads only (read_exact / byteorder): a plain `Read::read` on a
    slice returns what is left and Ok, so a block ending inside a field would yield zeros instead of an error"""
    import reach
    G = reach.Graph(F)
    R = G.reachable([GS, GE, PL])
    bad = []
    for o in sorted(R):
        for bp, i, t in G.calls(o):
            if (t.get("fn") or "") in ("std::io::Read::read", "std::io::Read::read_to_end", "std::io::Read::read_buf", "std::io::Read::read_vectored"):
                bad.append("%s in %s at %s" % (t.get("fn"), reach.short(o), reach.spstr(t.get("sp"))))
    rep.ob("bytes.exact-reads", not bad, GS, "reads", "a block decoder reads its cursor without an exact length (%s): a short block would be decoded from zeros" % "; ".join(bad[:3]))
    rep.floor("functions reachable from the block decoders", len(R), 5)


def json_rule(F, rep):
    """omission of absent optionals and of the raw bytes in the JSON rendering, from the derived Serialize bodies"""
    want_skip = {"game::Start": ["is_pal", "is_frozen_ps", "scene", "language", "match"], "game::End": ["lras_initiator", "players"],
                 "game::Player": ["ucf", "name_tag", "netplay"], "game::Netplay": ["suid"], "io::peppi::Peppi": ["slp_hash", "quirks"]}
    n_skip = 0
    for ty, skips in want_skip.items():
        cand = [b for b in F.fn_bodies() if b["path"].endswith("Serialize for %s>::serialize" % ty)]
        if len(cand) != 1:
            rep.ob("json.derive", False, ty, "Serialize", "%s has no derived Serialize impl" % ty)
            continue
        b = cand[0]
        imp = [i for i in F.items["impls"] if i["self"] == ty and i["trait"].endswith("Serialize")]
        rep.ob("json.derive", bool(imp) and imp[0]["derived"], ty, "Serialize", "%s must derive Serialize" % ty)
        fields = {}
        for g, c in flow.ordered_calls(b["tir"]["value"], lambda n: (n.get("path") or "").endswith("SerializeStruct::serialize_field")):
            name = strip(c["args"][1]).get("v")
            src = tir.place(c["args"][2])
            cond = [x[1] for x in g if x[0] == "if"]
            fields[name] = (src, cond)
        st = F.structs[ty]
        for f in st["fields"]:
            fn = f["name"]
            jn = fn.replace("r#", "")
            if fn == "bytes":
                rep.ob("json.skip-bytes", jn not in fields, ty, "bytes", "%s.bytes must not be rendered to JSON" % ty)
                continue
            if jn not in fields:
                rep.ob("json.field", False, ty, fn, "%s.%s is not rendered to JSON" % (ty, fn))
                continue
            src, cond = fields[jn]
            rep.ob("json.field", src == "self." + fn, ty, fn, "JSON field %s of %s is rendered from %s" % (jn, ty, src))
            if jn in skips:
                n_skip += 1
                ok = len(cond) == 1 and "is_none(&self.%s)" % fn in cond[0] and cond[0].startswith("!")
                rep.ob("json.omit-absent", ok, ty, fn, "%s.%s is version-gated and must be omitted from JSON when absent (skip_serializing_if = Option::is_none); guards: %s" % (ty, fn, cond),
                       sample={"type": ty, "field": fn, "guard": cond})
            else:
                rep.ob("json.always", not cond, ty, fn + ".always", "%s.%s must always be rendered; it is under %s" % (ty, fn, cond))
    rep.floor("skip_serializing_if fields", n_skip, 13)


def run(F, rep, tier):
    spec = model.load_spec("start_spec.json")
    try:
        segs = apply_roles(cursor.Prog(F, GS).run(1), start_roles(F))
        rep.floor("reads in game_start", len(segs), 35)
        compare_layout(rep, GS, segs, spec["fields"], 1, "start")
        tails_rule(rep, GS, segs, spec["fields"], spec["payload_len_classes"], "start")
        n_tails = len(set(s["tail"] for s in segs)) - 1
        rep.floor("if_more tails in game_start", n_tails, 9)
    except L.Unsupported as e:
        rep.cannot("start.layout", GS, e)
    start_struct_rule(F, rep)
    player_rule(F, rep, spec)
    end_rule(F, rep, spec)
    strings_rule(F, rep)
    no_extra_refusal_rule(F, rep)
    whole_payload_rule(F, rep)
    immutable_values_rule(F, rep)
    end_size_rule(F, rep)
    exact_reads_rule(F, rep)
    # name tag / netplay name / connect code: the bytes before the first NUL, strictly decoded (shared with C19)
    from props import C19
    C19.decode_rule(F, rep)
    C19.field_slicing(F, rep)
    # raw block retained (C01 clause 3)
    from props import C01
    C01.raw_blocks_rule(F, rep)
    json_rule(F, rep)
    # positive control: an off-by-one unmapped gap must shift every later field
    segs2 = [dict(s) for s in apply_roles(cursor.Prog(F, GS).run(1), start_roles(F))]
    for s in segs2[16:]:
        s["off"] += 1
    import common
    r2 = common.Report("ctl", "quick")
    compare_layout(r2, GS, segs2, spec["fields"], 1, "start")
    rep.control("layout comparison fires when an unmapped gap grows by one byte", len(r2.violations) >= 10)
    rep.trusted += ["byteorder big-endian fixed-width reads; read_exact fills the whole buffer", "serde's derived Serialize renders each serialize_field value faithfully",
                    "spec/start_spec.json transcribes the Slippi SPEC.md Game Start / Game End tables"]
    rep.not_decided.append("equality of rendered JSON values (serde's derive, trusted); decided: which fields are rendered, from which struct field, and omission when absent")
    return rep.finish("other",
                      "game_start, player and game_end are interpreted as cursor programs: every read (including the explicit unmapped gaps and per-port arrays) gets an absolute offset, width, "
                      "type and destination, compared field by field with the spec table; optional tails are if_more-gated in spec order and the cumulative lengths are the spec's length classes "
                      "(320..760; 1/2/6); players are built for ports 0..3 in order from slice n of every per-port array and kept iff the type byte is a PlayerType {0,1,2}; team/cpu_level/UCF/LRAS/"
                      "placements follow their presence rules; the raw blocks are retained; the derived Serialize bodies omit version-gated optionals when absent and never render `bytes`.",
                      "./check C05 --tier " + tier)
