"""C14 — the Arrow struct array has the per-version schema and converts back losslessly.
Schema = frames.json table per version class (proof-shaped); values/validity/import by L4; non-empty structs by L5."""
import copy
import json
import os

import containers
import facts
import layout as L
import model


def schema_vs_table(rep, M):
    with open(os.path.join(facts.REPO, "gen", "resources", "frames.json")) as fh:
        fj = json.load(fh)
    rep.floor("structs in frames.json", len([s for s in model.GEN if s in fj]), 11)
    gated = sum(1 for s in fj for f in fj[s]["fields"] if f.get("version"))
    rep.floor("version-gated fields in frames.json", gated, 21)
    inv = {v: k for k, v in L.ARROW_TY.items()}
    for s in model.GEN:
        if s not in fj or not M.has(s, "data_type"):
            continue
        bad = {}
        for v in M.classes:
            want = []
            for i, f in enumerate(fj[s]["fields"]):
                iv = model.parse_ver(f["version"]) if f.get("version") else (0, 0)
                if v >= iv:
                    t = f["type"]
                    want.append((f.get("name") or str(i), inv.get(t, "struct:" + t), False))
            got = []
            for l in M.flat(s, "data_type", v):
                if l["op"] == "field":
                    got.append((l.get("name"), l.get("dt") or "struct:" + str(l.get("sub")), l.get("nullable")))
            rep.obligations += 1
            d = model.first_diff(got, want)
            if d is None:
                rep.discharged += 1
            else:
                bad.setdefault(d[1:], []).append(v)
        rep.counts["schema=table"] = rep.counts.get("schema=table", 0) + len(M.classes)
        for (g, w), vs in bad.items():
            rep.violation("schema=table", model.SIBS["data_type"][0].replace("%s", s), str((w or g)[0]),
                          "%s schema differs from the per-version field table in %d classes (first %s): code has %s, table has %s" % (s, len(vs), M.class_name(vs[0]), g, w))
        if not bad:
            v = M.classes[-1]
            rep.samples.append({"rule": "schema=table", "struct": s, "class": M.class_name(v), "fields": [l.get("name") for l in M.flat(s, "data_type", v)][:30]})


def run(F, rep, tier):
    M = model.Model(F, rep, want=("with_capacity", "data_type", "into", "fromsa"))
    rep.floor("generated structs with arrow siblings", len([s for s in model.GEN if M.has(s, "data_type") and M.has(s, "into") and M.has(s, "fromsa")]), 11)
    rep.floor("version classes", len(M.classes), 25)
    schema_vs_table(rep, M)
    model.rule_L4(rep, M)
    model.rule_L5(rep, M)
    model.rule_gate_consistent(rep, M, sibs=("into",))
    containers.data_rule(F, rep)
    containers.portdata_rule(F, rep)
    containers.frame_rule(F, rep, M)
    containers.helpers_rule(F, rep)
    containers.port_tables(F, rep)
    # "for every frame history": the export hands the columns to StructArray::new, which requires children of equal length —
    # the builder must keep every live column balanced (one push per row, null-padding included) for the export to exist at all
    M2b = model.Model(F, rep, want=("with_capacity", "push_null", "read_push"))
    model.rule_L2(rep, M2b)
    # positive controls
    import common
    M2 = copy.copy(M)
    M2.trees = dict(M.trees)
    t = copy.deepcopy(M.trees[("Post", "fromsa")])
    ls = list(L.tree_leaves(t))
    a = [l for l in ls if l["field"] == "airborne"][0]
    b = [l for l in ls if l["field"] == "jumps"][0]
    a["pos"], b["pos"] = b["pos"], a["pos"]
    M2.trees[("Post", "fromsa")] = t
    r2 = common.Report("ctl", "quick")
    model.rule_L4(r2, M2, structs=["Post"])
    rep.control("L4 fires when two same-typed import positions are swapped", bool(r2.violations))
    M3 = copy.copy(M)
    M3.trees = dict(M.trees)
    t = copy.deepcopy(M.trees[("Post", "data_type")])
    for l in L.tree_leaves(t):
        if l.get("name") == "ground":
            l["dt"] = "UInt8"
    M3.trees[("Post", "data_type")] = t
    r3 = common.Report("ctl", "quick")
    schema_vs_table(r3, M3)
    rep.control("schema=table fires when `ground` is declared UInt8", bool(r3.violations))
    rep.trusted += ["arrow2 StructArray::new / into_data keep children in order and enforce equal lengths", "gen/resources/frames.json is the per-version field table the statement names"]
    rep.not_decided.append("equality of exported column *values* with the in-memory columns rests on arrow2's boxed()/clone() being value-preserving (trusted)")
    rep.not_decided.append("re-serialisation to the identical .slp is C01's clause set and is not re-claimed here")
    return rep.finish("other",
                      "Per struct and version class the flattened data_type equals frames.json restricted to fields introduced at or before the class (names, order, nesting, arrow type, "
                      "non-nullable); into_struct_array pushes the same columns in the same order with the validity bitmap; every from_struct_array literal position equals the "
                      "exported position of that field in every class where it is live (and is absent otherwise) with the matching downcast type; the Data/PortData/Frame containers, "
                      "the port-name tables and the item list wrapper are checked the same way; every StructArray::new receives at least one child in every class where its struct is live.",
                      "./check C14 --tier " + tier)
