"""C11 — the replay hash is the XXH3-64 of exactly the bytes consumed (structural; proof modulo xxhash-rust)."""
import fmtspec
import layout as L
import reach
import safety
import tir
from tir import strip, declared, callee

HR_READ = "<io::HashingReader<R> as std::io::Read>::read"
HR_SEEK = "<io::HashingReader<R> as std::io::Seek>::seek"
HR_NEW = "io::HashingReader::<R>::new"
HR_DIGEST = "io::HashingReader::<R>::into_digest"
READ = "io::slippi::de::read"


def wrapper_rule(F, G, rep):
    b = F.body(HR_READ)
    if b is None:
        rep.ob("wrapper", False, HR_READ, "missing", "HashingReader::read not found")
        return
    bufname = [p.get("name") for p in b["tir"]["params"] if "[u8]" in (p.get("ty") or "")]
    bufname = bufname[0] if bufname else None
    val = L.strip_try(b["tir"]["value"])
    stmts = val.get("stmts", [])
    nname = None
    inner_ok = False
    for s in stmts:
        if s.get("k") == "Let" and s["pat"].get("k") == "Bind":
            i = s["init"]
            if i.get("k") == "Try":
                c = strip(i["e"])
                if c.get("k") == "MethodCall" and c["method"] == "read" and (declared(c) or "") == "std::io::Read::read" and tir.place(c["recv"]) == "self.reader" and L.local_name(c["args"][0]) == bufname:
                    nname = s["pat"]["name"]
                    inner_ok = True
    rep.ob("wrapper.inner-read", inner_ok, HR_READ, "inner", "the wrapper must obtain n from exactly `self.reader.read(buf)?` on the caller's buffer")
    upd = [n for n in tir.walk(val) if n.get("k") == "MethodCall" and (declared(n) or "").endswith("Xxh3::update")]
    rep.ob("wrapper.update-once", len(upd) == 1, HR_READ, "update", "expected exactly one Xxh3::update in the wrapper, found %d" % len(upd))
    for u in upd:
        a = strip(u["args"][0])
        ok = False
        if a.get("k") == "Index" and L.local_name(a["base"]) == bufname:
            ix = strip(a["index"])
            if ix.get("k") == "Struct" and (ix.get("path") or "").endswith("ops::RangeTo"):
                ok = L.local_name(ix["fields"][0]["e"]) == nname
            elif ix.get("k") == "Struct" and (ix.get("path") or "").endswith("ops::Range"):
                f = {x["name"]: x["e"] for x in ix["fields"]}
                ok = tir.lit_int(f["start"]) == 0 and L.local_name(f["end"]) == nname
        rep.ob("wrapper.update-slice", ok, HR_READ, "slice", "the hashed slice must be buf[..n] with n the inner read's return value, got %s" % tir.pretty(a)[:80], tir.sp(u),
               sample={"hashed": tir.pretty(a)})
        # the update must not be conditional on anything but the hasher's presence
        par = safety.parents(val)
        x = u
        cond = []
        while id(x) in par:
            x = par[id(x)]
            if x.get("k") == "If" and strip(x["cond"]).get("k") == "LetCond" and tir.place(strip(x["cond"])["init"]) == "self.hasher":
                continue   # conditional on the hasher's presence only
            if x.get("k") in ("If", "Match", "Loop", "For"):
                cond.append(x["k"])
        rep.ob("wrapper.update-uncond", not cond, HR_READ, "guard", "Xxh3::update is under %s: some consumed bytes would not be hashed" % cond)
    tail = L.strip_try(val.get("tail") or {})
    rep.ob("wrapper.returns-n", tail.get("k") == "Call" and (declared(tail) or "").endswith("::Ok") and L.local_name(tail["args"][0]) == nname, HR_READ, "return",
           "the wrapper must return the inner count unchanged")
    imp = [i for i in F.items["impls"] if i["self"] == "io::HashingReader<R>" and i["trait"] == "std::io::Read"]
    rep.ob("wrapper.only-read", len(imp) == 1 and imp[0]["items"] == ["read"], HR_READ, "impl", "Read for HashingReader must override `read` only (other methods could bypass hashing): %s" % [i["items"] for i in imp])
    # who may call update
    callers = set()
    for o in G.local:
        for bp, i, t in G.calls(o):
            if (G.callee(t) or "").endswith("Xxh3::update"):
                callers.add(o)
    rep.ob("W.update-callers", callers == {HR_READ}, "Xxh3::update", "callers", "Xxh3::update is called from %s" % sorted(callers))
    # who may call Read::read directly
    readers = set()
    for o in G.local:
        for bp, i, t in G.calls(o):
            if (t.get("fn") or "") == "std::io::Read::read":
                readers.add(o)
    rep.ob("W.raw-read", readers == {HR_READ}, "std::io::Read::read", "callers", "raw (short-read sensitive) Read::read is called from %s" % sorted(readers))


def encapsulation_rule(F, G, rep):
    st = F.structs.get("io::HashingReader")
    rep.ob("encap.private", bool(st) and st["vis"].startswith("Restricted") and all(f["vis"].startswith("Restricted") for f in st["fields"]), "io::HashingReader", "visibility",
           "HashingReader and its fields must stay private to `io`")
    # no function outside the wrapper's own impl touches `.reader`
    bad = []
    for b in F.fn_bodies():
        if "HashingReader" in b["path"]:
            continue
        for n in tir.walk(b["tir"]["value"]):
            if n.get("k") == "Field" and n["name"] in ("reader", "hasher") and "HashingReader" in (n["base"].get("ty") or ""):
                bad.append((b["path"], tir.sp(n)))
    rep.ob("encap.no-bypass", not bad, "io::HashingReader", "field-access", "the wrapped reader/hasher is accessed outside the wrapper: %s" % bad[:3])
    # read() moves the caller's reader into the wrapper and shadows it
    b = F.body(READ)
    ok = False
    hashname = None
    for n in tir.walk(b["tir"]["value"]):
        if n.get("k") == "Let" and n["pat"].get("k") == "Bind":
            i = strip(n["init"])
            if i.get("k") == "Call" and declared(i) == HR_NEW:
                ok = n["pat"]["name"] == L.local_name(i["args"][0])
                hashname = L.local_name(i["args"][1])
    rep.ob("encap.shadow", ok, READ, "wrap", "read() must wrap and shadow the caller's reader so that every later read goes through the wrapper")
    return hashname


def bool_branches(p, flag):
    """(body when flag is true, body when flag is false) for `if flag`, `if !flag` and `match flag { true => .., false|_ => .. }`"""
    if p.get("k") == "If":
        c = strip(p["cond"])
        if L.local_name(c) == flag:
            return p["then"], p.get("else")
        if c.get("k") == "Unary" and c.get("op") == "Not" and L.local_name(c["e"]) == flag:
            return p.get("else"), p["then"]
        return None
    if p.get("k") == "Match" and L.local_name(p["scrut"]) == flag:
        t = f = None
        for a in p["arms"]:
            q = a["pat"]
            if a.get("guard"):
                return None
            if q.get("k") == "Lit" and q["e"].get("lit") == "bool":
                if q["e"]["v"]:
                    t = t or a["body"]
                else:
                    f = f or a["body"]
            elif q.get("k") in ("Wild", "Bind"):
                if t is None:
                    t = a["body"]
                elif f is None:
                    f = a["body"]
            else:
                return None
        return t, f
    return None


def seek_guard_rule(F, G, rep, hashname):
    b = F.body(READ)
    root = b["tir"]["value"]
    par = safety.parents(root)
    # every method of the Seek trait goes through the wrapper's `seek` (stream_position = seek(Current(0)), rewind, seek_relative,
    # stream_len), which drops the hasher: a position query in a log line is a seek
    seeks = [n for n in tir.walk(root) if n.get("k") == "MethodCall" and (n["method"] == "seek" or (declared(n) or "").startswith("std::io::Seek::"))]
    rep.floor("seek call sites in read()", len(seeks), 1)
    for s in seeks:
        x = s
        guarded = False
        sibling_consumes = False
        while id(x) in par:
            p = par[id(x)]
            br = bool_branches(p, hashname) if hashname else None
            if br is not None:
                when_true, when_false = br
                # the seek must be on the path taken when the flag is false
                guarded = when_false is not None and any(y is s for y in tir.walk(when_false))
                then_txt = [callee(y) or "" for y in tir.walk(when_true or {}) if y.get("k") in ("Call", "MethodCall")]
                sibling_consumes = any(c.endswith("io::copy") for c in then_txt) and any(c.endswith("Read::take") for c in then_txt)
                break
            x = p
        rep.ob("seek.guard", guarded, READ, "seek", "seek on the hashing wrapper must be control-dependent on `!%s` (the flag passed to HashingReader::new)" % hashname, tir.sp(s))
        rep.ob("seek.sibling", sibling_consumes, READ, "skip-by-reading", "when hashing, the skipped bytes must be consumed through Read (io::copy(take(skip)))", tir.sp(s))
    sb = F.body(HR_SEEK)
    ok = any(n.get("k") == "Assign" and tir.place(n["l"]) == "self.hasher" and (strip(n["r"]).get("path") or "").endswith("None") for n in tir.walk(sb["tir"]["value"])) if sb else False
    rep.ob("seek.disables", ok, HR_SEEK, "hasher", "seeking must disable hashing (no digest over a stream with holes)")


def coverage_rule(F, G, rep):
    b = F.body(READ)
    val = L.strip_try(b["tir"]["value"])
    stmts = val.get("stmts", []) + ([val["tail"]] if val.get("tail") else [])
    idx_match = idx_digest = None
    for i, s in enumerate(stmts):
        e = L.strip_try(s)
        if e.get("k") == "Match":
            sc = e["scrut"]
            if sc.get("k") == "Try" and strip(sc["e"]).get("k") == "MethodCall" and strip(sc["e"])["method"] == "read_u8":
                idx_match = i
        for n in tir.walk(s):
            if n.get("k") == "MethodCall" and declared(n) == HR_DIGEST:
                idx_digest = i
                assign = s
    import slpterm
    try:
        tps = slpterm.terminator_paths(F) or []
        order_ok = bool(tps) and all(p[0] and p[0][-1][:2] == ("call", "into_digest") and sum(1 for t in p[0] if t[:2] == ("call", "into_digest")) == 1 for p in tps if p[1] == "ok")
    except L.Unsupported:
        order_ok = False
    rep.ob("coverage.order", order_ok and idx_digest is not None, READ, "into_digest",
           "into_digest must be evaluated after the terminator match (0x55 metadata / 0x7d) on the fall-through path")
    if idx_digest is not None:
        e = L.strip_try(stmts[idx_digest])
        ok = e.get("k") == "Assign" and tir.place(e["l"]) == "state.game.hash"
        rep.ob("coverage.slot", ok, READ, "hash-slot", "the digest must be stored in state.game.hash")
        # nothing reads from the stream after the digest (ownership makes it impossible; check no later statement mentions r)
        later = [n for s in stmts[idx_digest + 1:] for n in tir.walk(s) if n.get("k") == "Path" and n.get("name") == "r"]
        rep.ob("coverage.last", not later, READ, "after-digest", "the stream is used after into_digest")


def format_rule(F, G, rep):
    b = F.body("io::format_hash")
    pieces = fmtspec.format_pieces(b["tir"]["value"]) if b else None
    ok = False
    desc = None
    if pieces and len(pieces) == 2 and pieces[0] == ("lit", "xxh3:") and pieces[1][0] == "arg":
        a = pieces[1][1]
        zero16 = a.get("width") == 16 and (a.get("zero") or (a.get("fill") == "0" and a.get("align") == ">")) and not a.get("alternate") and not a.get("plus") and a.get("precision") is None
        e = tir.LetEnv(b["tir"]["value"]).resolve(a.get("expr") or {})      # `let digest = hasher.digest();` formatted by value
        dig = e.get("k") == "MethodCall" and (declared(e) or "").endswith("Xxh3::digest") and e.get("ty") == "u64"
        ok = a.get("trait") == "lower_hex" and zero16 and dig
        desc = {k: v for k, v in a.items() if k != "expr"}
    rep.ob("format", ok, "io::format_hash", "template", "format_hash must render \"xxh3:\" + the u64 XXH3 digest as 16 zero-padded lower-hex digits, got %s" % (desc or pieces),
           sample={"pieces": [pieces[0], desc] if pieces else None})
    nb = F.body(HR_NEW)
    ok = False
    if nb:
        fields, _ = L.ctor_fields(nb["tir"]["value"], None)
        for name, e in fields:
            if name == "hasher":
                e = tir.LetEnv(nb["tir"]["value"]).resolve(e)
                hp = nb["tir"]["params"][1].get("name")
                ok = e.get("k") == "MethodCall" and e["method"] in ("then", "then_some") and L.local_name(e["recv"]) == hp
                bb = tir.bool_branch(e) if e.get("k") in ("If", "Match") else None
                if bb is not None and bb[2] is not None and L.local_name(bb[0]) == hp:
                    t_, f_ = L.strip_try(bb[1]), L.strip_try(bb[2])
                    ok = (t_.get("k") == "Call" and (declared(t_) or "").endswith("::Some")) and (f_.get("k") == "Path" and (f_.get("path") or "").endswith("::None"))
    rep.ob("format.requested", ok, HR_NEW, "hasher", "a hasher must exist exactly when hashing was requested")
    db = F.body(HR_DIGEST)
    ok = False
    if db:
        e = L.strip_try(db["tir"]["value"])
        ok = e.get("k") == "MethodCall" and e["method"] == "map" and (strip(e["args"][0]).get("path") or "") == "io::format_hash" and tir.place(e["recv"]) == "self.hasher"
        if not ok and e.get("k") == "MethodCall" and e["method"] == "map" and tir.place(e["recv"]) == "self.hasher" and strip(e["args"][0]).get("k") == "Closure":
            cl = strip(e["args"][0])
            cb = L.strip_try(cl["body"])
            ok = cb.get("k") == "Call" and declared(cb) == "io::format_hash" and len(cl["params"]) == 1 and strip(cb["args"][0]).get("id") == cl["params"][0].get("id")
        if not ok and e.get("k") == "Match" and tir.place(e["scrut"]) == "self.hasher" and len(e["arms"]) == 2:
            # match self.hasher { Some(h) => Some(format_hash(h)), None => None }
            good = 0
            for a in e["arms"]:
                p_, body = a["pat"], L.strip_try(a["body"])
                while p_.get("k") == "Ref":
                    p_ = p_["pat"]
                if p_.get("k") == "TupleStruct" and (p_.get("path") or "").endswith("Some") and p_["pats"][0].get("k") == "Bind":
                    inner = L.strip_try(body["args"][0]) if body.get("k") == "Call" and (declared(body) or "").endswith("Some") and len(body["args"]) == 1 else {}
                    good += inner.get("k") == "Call" and declared(inner) == "io::format_hash" and strip(inner["args"][0]).get("id") == p_["pats"][0]["id"]
                else:
                    good += body.get("k") == "Path" and (body.get("path") or "").endswith("None")
            ok = good == 2
    rep.ob("format.digest", ok, HR_DIGEST, "map", "into_digest must be hasher.map(format_hash) (None when hashing was not requested or a seek happened)")


def persistence_rule(F, G, rep):
    wb = F.body("io::peppi::ser::write")
    ok = False
    for n in tir.walk(wb["tir"]["value"]):
        if n.get("k") == "Struct" and (n.get("path") or "") == "io::peppi::Peppi":
            f = {x["name"]: tir.place(x["e"]) for x in n["fields"]}
            ok = f.get("slp_hash") == "game.hash" and f.get("quirks") == "game.quirks"
    rep.ob("persist.write", ok, "io::peppi::ser::write", "Peppi", "peppi.json must carry game.hash and game.quirks unchanged")
    rb = F.body("io::peppi::de::read")
    ok = False
    for n in tir.walk(rb["tir"]["value"]):
        if n.get("k") == "Struct" and (n.get("path") or "") == "game::immutable::Game":
            env = tir.LetEnv(rb["tir"]["value"])
            f = {x["name"]: env.place(x["e"], peel=True) for x in n["fields"]}
            # both come from the same deserialised peppi.json value (the slot, or a binding of it)
            h, q = f.get("hash") or "", f.get("quirks") or ""
            ok = h.endswith(".slp_hash") and q.endswith(".quirks") and h.rsplit(".", 1)[0] == q.rsplit(".", 1)[0] and "peppi" in h
    rep.ob("persist.read", ok, "io::peppi::de::read", "Game", "the .slpp reader must restore hash and quirks from peppi.json unchanged")
    # the peppi slot is the deserialised peppi.json value itself (no re-construction / re-formatting on the way)
    import peppifmt
    arms, m, loop = peppifmt.reader_arms(F)
    pa = arms.get("peppi.json")
    ok = False
    if pa is not None:
        src = None
        for n in tir.walk(pa["body"]):
            if n.get("k") == "Let" and n["pat"].get("k") == "Bind" and n.get("init") is not None and n["init"].get("k") == "Try":
                c = strip(n["init"]["e"])
                if c.get("k") == "Call" and (declared(c) or "").startswith("serde_json::from_reader"):
                    src = n["pat"]["name"]
        stores = [n for n in tir.walk(pa["body"]) if n.get("k") == "Assign" and tir.place(n["l"]) == "peppi"]
        if src and len(stores) == 1:
            r = strip(stores[0]["r"])
            ok = r.get("k") == "Call" and (declared(r) or "").endswith("Some") and L.local_name(r["args"][0]) == src
        muts = [n for n in tir.walk(pa["body"]) if n.get("k") in ("Assign", "AssignOp") and (tir.place(n["l"]) or "").startswith((src or "\0") + ".")]
        ok = ok and not muts
    rep.ob("persist.slot", ok, "io::peppi::de::read", "peppi.json", "the peppi slot must hold the deserialised peppi.json value itself; re-building or normalising it on the way can change the stored hash/quirks")
    fb = F.body("io::slippi::de::<impl std::convert::From<io::slippi::de::PartialGame> for game::immutable::Game>::from")
    ok = False
    if fb:
        for n in tir.walk(fb["tir"]["value"]):
            if n.get("k") == "Struct":
                f = {x["name"]: tir.place(x["e"]) for x in n["fields"]}
                ok = f.get("hash") == "game.hash"
    rep.ob("persist.from", ok, "From<PartialGame> for Game", "hash", "the finished game must carry the digest computed by read()")


def run(F, rep, tier):
    G = reach.Graph(F)
    wrapper_rule(F, G, rep)
    hashname = encapsulation_rule(F, G, rep)
    seek_guard_rule(F, G, rep, hashname)
    coverage_rule(F, G, rep)
    # the hash covers exactly the bytes the parser consumes: nothing between the hashing wrapper and the parsers reads ahead (BufReader) or re-wraps the stream
    import streamid
    streamid.slp_rule(F, rep, 'coverage.stream')
    format_rule(F, G, rep)
    # the digest is a function of the bytes of this read alone: no hasher state survives a call (pools, thread-locals, statics)
    from props import C18
    amb = C18.ambient_state(F, G, G.reachable(["io::slippi::de::read", "io::HashingReader::<R>::new", "io::HashingReader::<R>::into_digest"]))
    rep.ob("hash.stateless", not amb, "io::slippi::de::read", "ambient-state", "the reader's reachable set keeps state across calls (%s): a digest could depend on earlier reads" % "; ".join("%s in %s @ %s" % (c, reach.short(o), sp) for o, c, sp in amb[:3]))
    persistence_rule(F, G, rep)
    fake = fmtspec.decode_template([5] + list(b"xxh3:") + [0xC0, 0])
    rep.control("E6 distinguishes {:016x} from {}", fmtspec.is_default_spec(fake[1][1]))
    rep.trusted += ["xxhash-rust's Xxh3 update/digest implement streaming XXH3-64", "Rust ownership: into_digest(self) consumes the wrapper, so no read can follow it",
                    "std Read::read_exact / byteorder / io::copy are built on Read::read and tolerate short reads"]
    rep.not_decided.append("that the consumed bytes are the whole file for every well-formed input (follows from C07's terminator rule, not re-proved here)")
    return rep.finish("other",
                      "HashingReader::read hashes exactly buf[..n] for the n returned by the inner read on the same buffer and returns n unchanged; Read has no other overridden method and "
                      "Xxh3::update / raw Read::read have no other caller; the wrapper and its fields are private and no function reaches around it; the only seek on the wrapper is "
                      "control-dependent on hashing being off while the hashing sibling consumes through Read; into_digest follows the terminator match; the format template is "
                      "`xxh3:` + 16 zero-padded lower-hex digits of the u64 digest; the hash slot is carried unchanged through .slpp.",
                      "./check C11 --tier " + tier)
