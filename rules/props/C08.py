"""C08 — unknown events and longer payloads from newer versions never disturb known data (structural)."""
import events
import layout as L
import model
import order
import reach
import safety
import tir
from tir import strip, declared, callee

ENTRIES = ["io::slippi::de::read", "io::slippi::de::parse_header", "io::slippi::de::parse_start", "io::slippi::de::parse_event", "io::slippi::de::parse_metadata"]


def mutations(root):
    """(place, node) for every syntactic mutation below root: assignments, &mut borrows, calls with a &mut-adjusted receiver"""
    out = []
    for n in tir.walk(root):
        k = n.get("k")
        if k in ("Assign", "AssignOp"):
            l = strip(n["l"])
            p = tir.place(l)
            if p is None:
                # *state.event_counts.entry(code).or_default() += 1
                for x in tir.walk(l):
                    q = tir.place(x) if x.get("k") in ("Field", "Path") else None
                    if q:
                        p = q
                        break
            out.append((p, n))
        elif k == "AddrOf" and n.get("mut"):
            p = tir.place(n["e"])
            if p:
                out.append((p, n))
        elif k == "MethodCall":
            r = n["recv"]
            if (r.get("aty") or r.get("ty") or "").startswith("&mut"):
                p = tir.place(r)
                if p:
                    out.append((p, n))
    return out


def safety_parents(root):
    import safety
    return safety.parents(root)


def size_source_rule(F, rep):
    for fn in ("io::slippi::de::parse_event", "io::slippi::de::parse_game_start"):
        d = events.payload_buffer(F, fn)
        rep.ob("size-source", d["ok"], fn, "buffer",
               "%s: the payload buffer must be sized by the file's own table indexed by the raw code and nothing else: %s" % (fn, "; ".join(d["problems"])), sample={"fn": fn, "size": "%s[code]" % d["table"]})
    # the code is converted to Event only after the payload was consumed, tolerating failure
    b = F.body("io::slippi::de::parse_event")
    conv = [n for n in tir.walk(b["tir"]["value"]) if n.get("k") == "Call" and (declared(n) or "").endswith("TryFrom::try_from") and (n.get("ty") or "").startswith("std::result::Result<io::slippi::de::Event,")]
    # tolerated: the Result is never unwrapped, `?`-propagated or expect()ed
    par = safety_parents(b["tir"]["value"])
    hard = [n for n in conv if (par.get(id(n)) or {}).get("k") == "Try" or ((par.get(id(n)) or {}).get("k") == "MethodCall" and par[id(n)]["method"] in ("unwrap", "expect", "unwrap_unchecked"))]
    rep.ob("size-source.raw-code", len(conv) == 1 and not hard, "io::slippi::de::parse_event", "raw-code", "the event code must be converted to Event exactly once, tolerating failure (`Event::try_from(code).ok()`)")


def skip_size_rule(F, rep):
    """the skip-frames jump is positioned with the file's own Game End size, not a version-derived one (a newer version may
    have extended Game End)"""
    from props import C10
    b, blk = C10.skip_block(F)
    if blk is None:
        rep.ob("size-source.skip", False, C10.READ, "skip-block", "no skip-frames block found")
        return
    sizes = [callee(x) or "" for x in tir.walk(blk["then"]) if x.get("k") in ("Call", "MethodCall")]
    bad = [c for c in sizes if c.endswith("::size") or "size_of" in c]
    idx = [x for x in tir.walk(blk["then"]) if x.get("k") == "Index" and (tir.place(x["base"]) or "").endswith("payload_sizes")]
    rep.ob("size-source.skip", not bad and len(idx) >= 1, C10.READ, "skip-offset",
           "the skip-frames jump must be computed from the file's payload-size table, not from a size() function (%s): a newer version with a longer Game End would make the jump land inside the payload" % bad)


def unknown_path_rule(F, rep):
    fn = "io::slippi::de::parse_event"
    b = F.body(fn)
    root = b["tir"]["value"]
    # the `if let Some(event) = event { match event {..} }` region
    region = None
    for n in tir.walk(root):
        if n.get("k") == "If" and strip(n["cond"]).get("k") == "LetCond":
            c = strip(n["cond"])
            if "io::slippi::de::Event" in (c["init"].get("ty") or "") and (c["pat"].get("path") or "").endswith(("Some", "Ok")):
                region = n
    empty_else = region is not None and (not region.get("else") or (region["else"].get("k") == "Block" and not region["else"].get("stmts") and not region["else"].get("tail")))
    if region is None:
        # the conversion result matched directly: `match Event::try_from(code) { Ok(Event::X) => .., Err(_) => {} }` — the arm an
        # unknown code takes must do nothing
        b_, m_, arms_ = events.find_dispatch(F)
        if m_ is not None and (strip(m_["scrut"]).get("ty") or "").startswith("std::result::Result<io::slippi::de::Event") or (m_ is not None and (strip(m_["scrut"]).get("ty") or "").startswith("std::option::Option<io::slippi::de::Event")):
            unk = arms_.get("_")
            nothing = unk is not None and not [x for x in tir.walk(unk["body"]) if x.get("k") in ("Call", "MethodCall", "Assign", "AssignOp", "Ret", "Try", "Break")]
            region, empty_else = m_, nothing
    rep.ob("unknown.region", region is not None and empty_else, fn, "dispatch", "known events must be handled inside `if let Some(event) = Event::try_from(code).ok()` with no else branch")
    if region is None:
        return
    if region.get("k") == "Match":
        inside = set(id(x) for a in region["arms"] if a is not arms_.get("_") for x in tir.walk(a["body"]))
    else:
        inside = set(id(x) for x in tir.walk(region["then"]))
    allowed = ("state.event_counts", "state.bytes_read", "state.split_accumulator", "r", "buf", "code")
    bad = []
    n_out = 0
    for p, n in mutations(root):
        if id(n) in inside or p is None:
            continue
        if p.startswith("state") or p.startswith("self"):
            n_out += 1
            if not any(p == a or p.startswith(a + ".") for a in allowed):
                bad.append((p, tir.sp(n)))
    rep.ob("unknown.no-effect", not bad, fn, "state-writes", "outside the known-event arms parse_event writes %s (only event_counts, bytes_read and the splitter accumulator may change for an unknown event)" % bad[:4],
           sample={"state_writes_outside_arms": n_out})
    # the splitter accumulator may only be touched on the then-branch of `code == MessageSplitter`: any other event
    # (known or unknown) arriving between two blocks must leave the partial message alone
    par = safety.parents(root)
    n_acc = 0
    for p, n in mutations(root):
        if p is None or not p.startswith("state.split_accumulator") or id(n) in inside:
            continue
        n_acc += 1
        y = n
        ok = False
        while id(y) in par:
            prev, y = y, par[id(y)]
            if y.get("k") == "If":
                c = strip(y["cond"])

                def split_test(c):
                    return c.get("k") == "Binary" and c.get("op") == "Eq" and "MessageSplitter" in tir.pretty(c) and "code" in [tir.place(c["l"]), tir.place(c["r"])]
                is_split_test = split_test(c)
                in_then = any(z is n for z in tir.walk(y["then"]))
                if c.get("k") == "LetCond" and (c["pat"].get("path") or "").endswith("::Some") and in_then:
                    # `if let Some(w) = V` where V is `if code == MessageSplitter { .. } else { None }`: Some only for a splitter block
                    v = tir.LetEnv(root).resolve(c["init"])
                    bb = tir.bool_branch(v) if v.get("k") in ("If", "Match") else None
                    if bb is not None and bb[2] is not None and split_test(strip(bb[0])) and (strip(L.strip_try(bb[2])).get("path") or "").endswith("::None"):
                        ok = True
                        break
                if is_split_test and in_then:
                    ok = True
                    break
                if is_split_test and not in_then:
                    break
        rep.ob("unknown.splitter-guard", ok, fn, p, "%s: the split-message accumulator is modified at %s for an event that is not a Message Splitter block: an unknown event between two blocks would corrupt the assembled Gecko codes" % (fn, tir.sp(n)), tir.sp(n))
    rep.counts["unknown.accumulator_writes"] = n_acc
    # falls through to Ok(code)
    val = L.strip_try(root)
    tail = L.strip_try(val.get("tail") or {})
    rep.ob("unknown.ok", tail.get("k") == "Call" and (declared(tail) or "").endswith("::Ok") and L.local_name(tail["args"][0]) == "code", fn, "tail", "an unknown (but declared) event must fall through to Ok(code)")
    # the refusal of an event the file's own table does not declare is part of the size lookup (`ok_or_else(..)?`, or the None arm /
    # else block of a match / let-else on the table entry): not an exit for declared-but-unknown events
    lookup = set()
    for st_ in tir.walk(root):
        if st_.get("k") == "Let" and any(x.get("k") == "Index" and (tir.place(x["base"]) or "").endswith("payload_sizes") for x in tir.walk(st_.get("init") or {})):
            for x in tir.walk(st_):
                lookup.add(id(x))
    rets = [x for x in tir.walk(root) if x.get("k") == "Ret" and id(x) not in inside and not (id(x) in lookup and (declared(strip(x.get("e") or {})) or "").endswith("::Err"))]
    rep.ob("unknown.no-early-exit", not rets, fn, "returns", "there is a return outside the known-event arms at %s" % [tir.sp(x) for x in rets[:3]])


def prefix_readers_rule(F, G, rep, R):
    n = 0
    for fn in sorted(R):
        b = F.body(fn)
        if b is None or fn == "io::slippi::de::if_more":
            continue
        cursors = [p.get("name") for p in b["tir"]["params"] if (p.get("ty") or "") == "&mut &[u8]"]
        if not cursors:
            continue
        n += 1
        bad = []
        for x in tir.walk(b["tir"]["value"]):
            if x.get("k") == "MethodCall" and L.local_name(x["recv"]) in cursors and x["method"] in ("len", "is_empty", "first", "last", "get", "split_at"):
                bad.append((x["method"], tir.sp(x)))
        rep.ob("prefix.no-length-test", not bad, fn, "cursor", "%s inspects the remaining length of its payload cursor (%s): trailing bytes from a newer version would change its behaviour" % (fn, bad[:2]))
    rep.floor("payload-cursor readers", n, 14)
    # optional Start/End tails are gated by if_more only
    for fn, floor in (("io::slippi::de::game_start", 9), ("io::slippi::de::game_end", 2)):
        b = F.body(fn)
        cnt = len([x for x in tir.walk(b["tir"]["value"]) if x.get("k") == "Call" and declared(x) == "io::slippi::de::if_more"])
        rep.floor("if_more tails in " + fn.split("::")[-1], cnt, floor)
    b = F.body("io::slippi::de::if_more")
    ok = False
    rname = b["tir"]["params"][0].get("name")
    fname = b["tir"]["params"][1].get("name")

    def cls(body):
        """none | some: the arm's Option value, looking through an Ok(..) wrapper placed inside the branch"""
        body = L.strip_try(body)
        if body.get("k") == "MethodCall" and body["method"] == "map" and len(body["args"]) == 1 and (strip(body["args"][0]).get("path") or "").endswith("::Some"):
            # f(r).map(Some): Ok(v) -> Ok(Some(v)), the error passed on unchanged
            inner = strip(body["recv"])
            if inner.get("k") == "Call" and inner.get("res") == "local" and inner.get("name") == fname and len(inner["args"]) == 1 and L.local_name(inner["args"][0]) == rname:
                return "some"
        if body.get("k") == "Call" and (declared(body) or "").endswith("::Ok") and len(body["args"]) == 1:
            body = L.strip_try(body["args"][0])
        if (body.get("path") or "").endswith("None") and body.get("k") == "Path":
            return "none"
        if (declared(body) or "").endswith("Some") and len(body.get("args", [])) == 1:
            a = body["args"][0]
            inner = strip(a["e"]) if a.get("k") == "Try" else None
            if inner is not None and inner.get("k") == "Call" and inner.get("res") == "local" and inner.get("name") == fname and len(inner["args"]) == 1 and L.local_name(inner["args"][0]) == rname:
                return "some"
        return "?"
    for m in tir.walk(b["tir"]["value"]):
        bb = tir.bool_branch(m) if m.get("k") in ("Match", "If") else None
        if bb is None or bb[2] is None:
            continue
        sc = strip(bb[0])
        t, f = bb[1], bb[2]
        if sc.get("k") == "Binary" and sc.get("op") in ("Eq", "Gt", "Ne") and tir.lit_int(sc["r"]) == 0 and strip(sc["l"]).get("k") == "MethodCall" and strip(sc["l"])["method"] == "len":
            # r.len() == 0 / r.len() > 0 / r.len() != 0
            if sc["op"] != "Eq":
                t, f = f, t
            sc = dict(strip(sc["l"]), method="is_empty")
        if sc.get("k") == "MethodCall" and sc["method"] == "is_empty" and L.local_name(sc["recv"]) == rname:
            ok = cls(t) == "none" and cls(f) == "some"
    rep.ob("prefix.if_more", ok, "io::slippi::de::if_more", "shape", "if_more must be `present <=> bytes remain` (None when the cursor is empty, Some(f(r)?) otherwise)")


def cursor_discipline_rule(F, G, rep, R):
    """the payload cursor of an event decoder is consumed only by fixed-width reads (byteorder `read_*`, `read_exact` into a
    buffer), by handing it to another decoder, or through `if_more`: anything that takes "the rest of the payload"
    (`mem::take(r)`, `*r`, `r.to_vec()`, `r.iter()`, `read_to_end`, `bytes()`) grows with the bytes a newer version appends"""
    n_uses = 0
    for fn in sorted(R):
        b = F.body(fn)
        if b is None:
            continue
        cids = set(p.get("id") for p in b["tir"]["params"] if p.get("k") == "Bind" and (p.get("ty") or "") == "&mut &[u8]")
        # closure parameters of that type (the `|r|` of an if_more tail) are cursors too
        for x in tir.walk(b["tir"]["value"]):
            if x.get("k") == "Closure":
                for p in x.get("params", []):
                    if p.get("k") == "Bind" and (p.get("ty") or "") == "&mut &[u8]":
                        cids.add(p.get("id"))
        if not cids:
            continue
        par = {}
        for x in tir.walk(b["tir"]["value"]):
            for c in tir.children(x):
                if isinstance(c, dict):
                    par[id(c)] = x
        bad = []
        for x in tir.walk(b["tir"]["value"]):
            if not (x.get("k") == "Path" and x.get("res") == "local" and x.get("id") in cids):
                continue
            n_uses += 1
            e = x
            p = par.get(id(e))
            # reborrows: `&mut *r`, `r.by_ref()`
            while p is not None and (p.get("k") == "AddrOf" or (p.get("k") == "Unary" and p.get("op") == "Deref" and (par.get(id(p)) or {}).get("k") == "AddrOf")
                                     or (p.get("k") == "MethodCall" and p["method"] == "by_ref" and p["recv"] is e) or (p.get("k") in ("Expr",) )):
                e, p = p, par.get(id(p))
            ok = False
            if p is not None and p.get("k") == "MethodCall" and p["recv"] is e:
                d = declared(p) or ""
                ok = d.startswith("byteorder::ReadBytesExt::read_") or d == "std::io::Read::read_exact" or (fn == "io::slippi::de::if_more" and p["method"] in ("is_empty", "len") and not p.get("args"))
                if not ok and p["method"] == "to_vec" and not p.get("args"):
                    # the raw block kept for round-tripping: `let bytes = r.to_vec();` used only as the `bytes` field
                    q = par.get(id(p))
                    while q is not None and (q.get("k") in ("Expr",) or (q.get("k") == "Call" and (q.get("dk") or "").startswith("Ctor") and len(q.get("args", [])) == 1)):
                        q = par.get(id(q))
                    if q is not None and q.get("k") == "Let" and q["pat"].get("k") == "Bind":
                        bid = q["pat"]["id"]
                        uses = [u for u in tir.walk(b["tir"]["value"]) if u.get("k") == "Path" and u.get("res") == "local" and u.get("id") == bid]
                        def in_bytes_field(u):
                            a = par.get(id(u))
                            if a is not None and "k" not in a and "name" in a:
                                return a["name"] == "bytes"      # a struct-literal field record
                            while a is not None and a.get("k") in ("Call", "Expr") and ((a.get("dk") or "").startswith("Ctor") or a.get("k") == "Expr"):
                                a2 = par.get(id(a))
                                if a2 is not None and a2.get("k") == "Struct":
                                    return any(f["name"] == "bytes" and f["e"] is a for f in a2["fields"])
                                a = a2
                            return a is not None and a.get("k") == "Struct" and any(f["name"] == "bytes" and f["e"] is u for f in a["fields"])
                        ok = bool(uses) and all(in_bytes_field(u) for u in uses)
            elif p is not None and p.get("k") == "MethodCall" and any(a is e for a in p.get("args", [])):
                cal = F.fns.get(tir.callee(p) or declared(p) or "")
                ok = cal is not None and any((t or "").replace(" ", "") == "&mut&[u8]" for t in (cal.get("inputs") or []))
            elif p is not None and p.get("k") == "Call" and any(a is e for a in p.get("args", [])):
                d = declared(p) or ""
                cal = F.fns.get(d)
                ok = (cal is not None and any((t or "").replace(" ", "") == "&mut&[u8]" for t in (cal.get("inputs") or []))) or (p.get("res") == "local" and fn == "io::slippi::de::if_more")
            if not ok:
                bad.append((tir.pretty(p if p is not None else x)[:60], tir.sp(x)))
        rep.ob("prefix.cursor-discipline", not bad, fn, "cursor",
               "%s uses its payload cursor other than by fixed-width reads / handing it to a decoder (%s): taking the rest of the payload makes the decoded value depend on bytes a newer version appends" % (fn, bad[:2]))
    rep.floor("payload-cursor uses", n_uses, 120)


def monotone_rule(F, G, rep, R):
    ev = order.Evaluator(F)
    mx = ev.const_value("io::slippi::MAX_SUPPORTED_VERSION")
    n = 0
    for fn in sorted(R):
        b = F.body(fn)
        if b is None or fn in (order.GTE, order.LT):
            continue
        for x in tir.walk(b["tir"]["value"]):
            if x.get("ty") == "bool" and x.get("k") in ("Binary", "MethodCall", "Call"):
                f = L.vcond(x) if x.get("k") != "Binary" or x.get("op") in ("And", "Or") else None
                if f is not None and x.get("k") in ("MethodCall", "Call"):
                    n += 1
                    ts = L.fatoms(f, set())
                    rep.ob("monotone.threshold", all(t <= (mx[0], mx[1]) for t in ts), fn, "gate", "%s: version gate %s above the supported maximum selects a layout the spec oracle does not know" % (tir.sp(x), L.fstr(f)), tir.sp(x))
                elif x.get("k") == "Binary" and x.get("op") in ("Eq", "Ne", "Lt", "Le", "Gt", "Ge"):
                    tys = [(c.get("ty") or "") for c in (x["l"], x["r"])]
                    if any("io::slippi::Version" in t for t in tys) or any(c.get("k") == "Field" and "io::slippi::Version" in (c["base"].get("ty") or "") for c in (strip(x["l"]), strip(x["r"]))):
                        rep.ob("monotone.compare", tir.in_macro(x, "assert_eq", "debug_assert_eq"), fn, "compare", "%s: direct comparison on a Version value in the reader (%s): not a monotone gte/lt gate" % (tir.sp(x), tir.pretty(x)[:60]), tir.sp(x))
    rep.floor("version gates in the reader's reachable set", n, 40)
    order.rule_gte(F, rep)


def size_trigger_rule(F, G, rep, R):
    """no error/panic in the reader is triggered by a payload being *longer* than the known size"""
    n = 0
    for fn in sorted(R):
        b = F.body(fn)
        if b is None:
            continue
        par = safety.parents(b["tir"]["value"])
        for x in tir.walk(b["tir"]["value"]):
            if x.get("k") == "Binary" and x.get("op") in ("Eq", "Ne"):
                sides = [strip(x["l"]), strip(x["r"])]
                for s in sides:
                    while s.get("k") == "Unary":
                        s = strip(s["e"])
                    if s.get("k") == "MethodCall" and s["method"] == "len" and ("[u8]" in (s["recv"].get("ty") or "") or "Vec<u8>" in (s["recv"].get("ty") or "")):
                        n += 1
                        # is an error/panic control-dependent on it?
                        y = x
                        bad = None
                        while id(y) in par:
                            y = par[id(y)]
                            if y.get("k") == "If":
                                for br in (y.get("then"), y.get("else")):
                                    for z in tir.walk(br or {}):
                                        if z.get("k") == "Ret" or (z.get("k") == "Call" and ((declared(z) or "").startswith("core::panicking") or ((declared(z) or "").endswith("::Err") and (z.get("dk") or "").startswith("Ctor")))):
                                            bad = z
                                break
                        rep.ob("size-trigger", bad is None, fn, "len-equality", "%s: an error/panic depends on a payload length being exactly a constant (%s): a longer payload from a newer version would be rejected" % (
                            tir.sp(x), tir.pretty(x)[:70]), tir.sp(x))
    rep.counts["size-trigger.len_equalities"] = n
    # the splitter takes a prefix of its payload
    b = F.body("io::slippi::de::handle_splitter_event")
    txt = tir.pretty(b["tir"]["value"])
    rep.ob("size-trigger.splitter", "buf.get(std::ops::Range {start: 0, end: 516})" in txt and "assert" not in " ".join(m for x in tir.walk(b["tir"]["value"]) for m in (x.get("mac") or [])),
           "io::slippi::de::handle_splitter_event", "prefix", "the splitter payload must be read as a 516-byte prefix (longer payloads accepted), not asserted to be exactly 516")


def trailing_rule(F, rep):
    """whatever follows the first Game End inside the raw element (a doubled Game End, unknown events, junk) is *consumed in
    full*: under `bytes_read < raw_len` read() reads exactly raw_len - bytes_read bytes from the stream, so the element
    terminator is read at the right place however long the trailing content is"""
    import linear
    b = F.body("io::slippi::de::read")
    root = b["tir"]["value"]
    env = tir.LetEnv(root)
    hit = None
    cands = []       # (node, lo, hi, branch taken when lo < hi)
    for n in tir.walk(root):
        if n.get("k") == "If":
            c = strip(n["cond"])
            if c.get("k") == "Binary" and c.get("op") in ("Lt", "Gt"):
                lo, hi = (c["l"], c["r"]) if c["op"] == "Lt" else (c["r"], c["l"])
                cands.append((n, lo, hi, n["then"]))
        elif n.get("k") == "Match":
            # match bytes_read.cmp(&raw_len) { Ordering::Less => { .. } .. }
            sc = strip(n["scrut"])
            if sc.get("k") == "MethodCall" and sc["method"] == "cmp" and len(sc.get("args", [])) == 1:
                for a in n["arms"]:
                    pt = tir.pat(a["pat"])
                    if pt.endswith("Less"):
                        cands.append((n, sc["recv"], sc["args"][0], a["body"]))
                    elif pt.endswith("Greater"):
                        cands.append((n, sc["args"][0], sc["recv"], a["body"]))
    for n, lo, hi, branch in cands:
        if not ((tir.place(strip(lo)) or "").endswith("bytes_read") and (L.local_name(strip(hi)) or "") and "raw" in (L.local_name(strip(hi)) or "")):
            continue
        hit = n
        reads = [x for x in tir.walk(branch) if x.get("k") == "MethodCall" and x["method"] == "read_exact" and (declared(x) or "").endswith("Read::read_exact")]
        ok = False
        why = "%d read_exact calls under the condition" % len(reads)
        if len(reads) == 1:
            buf = env.resolve(strip(reads[0]["args"][0]))
            ln = None
            if buf.get("k") == "Call" and tir.in_macro(buf, "vec") and len(buf.get("args", [])) == 2:
                ln = buf["args"][1]
            elif buf.get("k") == "Call" and (declared(buf) or "").endswith("from_elem") and len(buf.get("args", [])) == 2:
                ln = buf["args"][1]
            if ln is not None:
                try:
                    form = linear.lin(env.resolve(ln))
                    want = linear.add(linear.lin(hi), linear.lin(lo), -1)
                    ok = linear.eq(form, want)
                    why = "the buffer holds %s bytes, the trailing content is %s" % (linear.show(form), linear.show(want))
                except linear.NonLinear as e:
                    why = "buffer length outside the linear fragment: %s" % e
            else:
                why = "the buffer is not `vec![0; n]`"
        rep.ob("trailing.consumed", ok, "io::slippi::de::read", "trailing", "the bytes after the first Game End must be read in full (%s)" % why, tir.sp(n))
        break
    rep.ob("trailing.present", hit is not None, "io::slippi::de::read", "trailing.branch", "read() has no `bytes_read < raw_len` branch consuming what follows the first Game End")


def duplicate_end_test_rule(F, rep):
    """what follows the first Game End is classified as a *duplicated Game End* (which sets the double_game_end quirk and makes
    the writer emit a second Game End) only when its first byte is the Game End event code: an unknown event of the same size
    and content sitting there is unknown trailing content, not a second Game End"""
    b = F.body("io::slippi::de::read")
    root = b["tir"]["value"]
    env = tir.LetEnv(root)
    par = {}
    for x in tir.walk(root):
        for c in tir.children(x):
            if isinstance(c, dict):
                par[id(c)] = x
    setters = [x for x in tir.walk(root) if x.get("k") == "Assign" and "double_game_end" in tir.pretty(x["l"])]
    setters += [x for x in tir.walk(root) if x.get("k") == "Struct" and (x.get("path") or "").endswith("Quirks") and any(f["name"] == "double_game_end" and tir.pretty(f["e"]) != "false" for f in x["fields"])
                and not any(id(x) == id(y) for s_ in setters for y in tir.walk(s_))]
    n = 0
    # bindings of the first element of a slice pattern (`[code, ..]`)
    first_ids = set()
    for x in tir.walk(root):
        if x.get("k") == "Match":
            for a_ in x["arms"]:
                p = a_["pat"]
                while p.get("k") == "Ref":
                    p = p["pat"]
                if p.get("k") == "Slice" and p.get("before"):
                    q = p["before"][0]
                    while q.get("k") == "Ref":
                        q = q["pat"]
                    if q.get("k") == "Bind":
                        first_ids.add(q.get("id"))

    def mentions_first(e):
        for y in tir.walk(e):
            if y.get("k") == "Index" and tir.lit_int(y["index"]) == 0:
                return True
            if y.get("k") == "MethodCall" and y["method"] == "first" and not y.get("args"):
                return True
            if y.get("k") == "Path" and y.get("res") == "local" and y.get("id") in first_ids:
                return True
        return False

    def mentions_code(e):
        return any(y.get("k") == "Path" and (y.get("path") or "").endswith("Event::GameEnd") for y in tir.walk(e))

    for st in setters:
        conds = []
        child, a = st, par.get(id(st))
        while a is not None:
            if a.get("k") == "If" and (a.get("then") is child or any(y is child for y in tir.walk(a["then"]))) and not (a.get("else") is not None and any(y is child for y in tir.walk(a["else"]))):
                conds.append(a["cond"])
            if a.get("k") == "Match":
                for arm in a["arms"]:
                    if arm.get("guard") is not None and any(y is child for y in tir.walk(arm["body"])):
                        conds.append(arm["guard"])
            child, a = a, par.get(id(a))
        atoms = []
        work = [env.resolve(strip(c)) for c in conds]
        while work:
            c = strip(work.pop())
            if c.get("k") == "Binary" and c.get("op") == "And":
                work += [env.resolve(strip(c["l"])), env.resolve(strip(c["r"]))]
            else:
                atoms.append(c)
        ok = False
        for c in atoms:
            if c.get("k") == "Binary" and c.get("op") == "Eq":
                if (mentions_first(c["l"]) and mentions_code(c["r"])) or (mentions_first(c["r"]) and mentions_code(c["l"])):
                    ok = True
            if c.get("k") == "MethodCall" and c["method"] == "starts_with" and mentions_code(c):
                ok = True
        n += 1
        rep.ob("trailing.duplicate-end-code", ok, "io::slippi::de::read", "double_game_end", "the double_game_end quirk is set without testing that the trailing content starts with the Game End event code (conditions: %s)" % [tir.pretty(c)[:60] for c in atoms], tir.sp(st))
    rep.floor("double_game_end setters in read()", n, 1)


def run(F, rep, tier):
    from props import C10
    C10.same_version_rule(F, rep)
    G = reach.Graph(F)
    R = G.reachable(ENTRIES)
    size_source_rule(F, rep)
    skip_size_rule(F, rep)
    unknown_path_rule(F, rep)
    prefix_readers_rule(F, G, rep, R)
    cursor_discipline_rule(F, G, rep, R)
    monotone_rule(F, G, rep, R)
    size_trigger_rule(F, G, rep, R)
    trailing_rule(F, rep)
    duplicate_end_test_rule(F, rep)
    # the payload table is read whole, whatever its declared length (up to 84 pairs): what parse_payloads consumes is the
    # declared size (C12's accounting by linear forms; a fixed-capacity buffer falls outside it)
    from props import C12 as _C12
    _C12.accounting_rule(F, rep)
    muts = mutations(F.body("io::slippi::de::parse_event")["tir"]["value"])
    rep.control("mutation extractor sees the writes of parse_event", len(muts) >= 10 and any((p or "").startswith("state.game") for p, _ in muts))
    rep.trusted += ["Vec/slice cursor semantics: read_* on `&mut &[u8]` consumes a prefix and leaves the rest untouched"]
    rep.not_decided.append("equality of the parsed game with and without inserted events (a two-run relation); decided are the necessary structural clauses")
    return rep.finish("other",
                      "The payload buffer of every event is sized from the file's own table indexed by the raw code (dataflow), never from Event or a size() function; outside the known-event arms "
                      "parse_event writes only event_counts, bytes_read and (for the splitter code) the accumulator, and falls through to Ok(code); no payload-cursor reader inspects the remaining "
                      "length and optional Start/End tails are gated by if_more; every version gate in the reader is a literal gte/lt threshold at or below the supported maximum with gte decided "
                      "by E5, so any newer version selects the 3.16 layout; no error depends on a payload length being exactly a constant.",
                      "./check C08 --tier " + tier)
