"""C01 — reading a .slp and writing it back reproduces the file byte for byte (structural: necessary clauses)."""
import copy

import emission
import events
import layout as L
import model
import reach
import tir
from tir import strip, declared, callee
from props import C04


def writer_headers_rule(F, rep, M):
    """H family on the writer side: same header after the same event code as the reader strips"""
    b, m, arms = events.find_dispatch(F)
    table = emission.table_entries(F)
    fixed = {l["event"]: l["size"].get((), 0) for l in L.tree_leaves(table) if l.get("op") == "entry" and set(l["size"]) <= {()}}
    tot, evs, order, outside = emission.raw_region(F, (3, 16), fixed)
    by_event = {}
    for e in evs:
        by_event.setdefault(e["event"], []).append(e)
    for ev, s in events.FRAME_EVENTS.items():
        info = events.analyse_arm(ev, arms[ev])
        rh = [h["ty"] for h in info["header"]]
        for e in by_event.get(ev, []):
            rep.ob("H.writer-header", e["header"] == rh, "writer#" + ev, "header", "the writer emits header %s after the %s code, the reader strips %s" % (e["header"], ev, rh), e["site"],
                   sample={"event": ev, "header": rh})
        rep.ob("H.writer-emits", len(by_event.get(ev, [])) >= 1, "writer#" + ev, "emission", "the writer never emits %s" % ev)
    # event code constants equal the spec
    spec = model.load_spec("events.json")
    en = F.enums.get("io::slippi::de::Event")
    got = {v["name"]: v["discr"] for v in en["variants"]} if en else {}
    want = {k: v["code"] for k, v in spec["events"].items()}
    rep.ob("H.codes", got == want, "io::slippi::de::Event", "discriminants", "event codes %s differ from the spec %s" % (got, want), sample={"codes": got})
    rep.floor("Event variants", len(got), 10)
    # the port byte and follower flag written are those of the character being written
    for fn in ("write_pre", "write_post"):
        bd = F.body("frame::immutable::slippi::<impl frame::immutable::Data>::" + fn)
        txt = tir.pretty(bd["tir"]["value"])
        ok = "w.write_i32(frame_id)?" in txt and "w.write_u8((port.port as u8))?" in txt and "match port.follower {True => 1; _ => 0}" in txt
        rep.ob("H.writer-values", ok, "Data::" + fn, "header-values", "the header must carry the frame id, the port number and the follower flag of the character written")
        pd = F.body("frame::immutable::slippi::<impl frame::immutable::PortData>::" + fn)
        t2 = tir.pretty(pd["tir"]["value"])
        ok = "self.leader.%s(w, version, idx, frame_id, frame::PortOccupancy {port: self.port, follower: False})" % fn in t2 and "f.%s(w, version, idx, frame_id, frame::PortOccupancy {port: self.port, follower: True})" % fn in t2
        rep.ob("H.writer-char", ok, "PortData::" + fn, "character", "leader must be written with follower=false and the follower with follower=true, both with the port's own number")
    fw = F.body("frame::immutable::slippi::<impl frame::immutable::Frame>::write")
    t3 = tir.pretty(fw["tir"]["value"])
    rep.ob("H.writer-rows", "for (idx, &frame_id) in self.id.values().iter().enumerate()" in t3.replace("&frame_id", "&frame_id") or "self.id.values().iter().enumerate()" in t3, "Frame::write", "rows", "frames must be written row by row in column order")


def raw_blocks_rule(F, rep):
    for fn in ("io::slippi::de::game_start", "io::slippi::de::game_end"):
        b = F.body(fn)
        val = L.strip_try(b["tir"]["value"])
        st = val.get("stmts", [])
        ok = bool(st) and st[0].get("k") == "Let" and st[0]["pat"].get("name") == "bytes" and tir.pretty(st[0]["init"]) == "game::Bytes(r.to_vec())"
        rep.ob("raw.captured-first", ok, fn, "bytes", "the raw block must be captured from the whole input slice before the first read")
        lits = [x for x in tir.walk(val) if x.get("k") == "Struct" and (x.get("path") or "") in ("game::Start", "game::End")]
        ok = len(lits) == 1 and any(f["name"] == "bytes" and L.local_name(f["e"]) == "bytes" for f in lits[0]["fields"])
        rep.ob("raw.stored", ok, fn, "field", "the captured block must be stored unchanged in the `bytes` field")
    # nobody else writes Start.bytes / End.bytes
    writers = []
    for b in F.fn_bodies():
        if "serde" in b["path"] or "::clone" in b["path"]:
            continue
        for x in tir.walk(b["tir"]["value"]):
            if x.get("k") in ("Assign", "AssignOp") and (tir.place(x["l"]) or "").endswith(".bytes"):
                writers.append((b["path"], tir.sp(x)))
    rep.ob("raw.no-other-writer", not writers, "game::Bytes", "writers", "the retained raw blocks are modified at %s" % writers[:3])


def gecko_rule(F, rep):
    b = F.body("io::slippi::de::handle_splitter_event")
    txt = tir.pretty(b["tir"]["value"])
    rep.ob("gecko.keep-block", "accumulator.raw.extend_from_slice(&buf[std::ops::Range {start: 0, end: 512}])" in txt, "io::slippi::de::handle_splitter_event", "block", "the reader must keep all 512 bytes of every splitter block")
    w = F.body("io::slippi::ser::gecko_codes")
    t = tir.pretty(w["tir"]["value"])
    ok = ("w.write_all(&codes.bytes[std::ops::Range {start: pos, end: (pos Add 512)}])?" in t and "w.write_u16((std::cmp::min(512, (actual_size Sub pos)) as u16))?" in t
          and "w.write_u8((io::slippi::de::Event::GeckoCodes as u8))?" in t and "pos AddAssign= 512" in t and "w.write_u8(std::convert::From::from((pos Ge actual_size)))?" in t)
    rep.ob("gecko.re-emit", ok, "io::slippi::ser::gecko_codes", "block", "the writer must re-emit 512-byte blocks with size min(512, actual - pos), the wrapped code and the final flag")
    b2, m, arms = events.find_dispatch(F)
    ok = False
    for x in tir.walk(arms["GeckoCodes"]["body"]):
        if x.get("k") == "Struct" and (x.get("path") or "") == "game::GeckoCodes":
            f = {y["name"]: strip(y["e"]) for y in x["fields"]}
            bsrc = f.get("bytes", {})
            blob = bsrc.get("k") == "MethodCall" and bsrc["method"] in ("to_vec", "clone") and (strip(bsrc["recv"]).get("ty") or "").endswith("Vec<u8>") and strip(bsrc["recv"]).get("res") == "local"
            ok = blob and (tir.place(f.get("actual_size", {})) or "").endswith("split_accumulator.actual_size")
    rep.ob("gecko.stored", ok, events.PARSE_EVENT + "#GeckoCodes", "store", "the assembled blob and its actual size must be stored unchanged")
    # double_game_end: set in one place, consumed by raw_size and write
    setters, users = [], []
    for fb in F.fn_bodies():
        if "serde" in fb["path"] or "Default" in fb["path"] or "::clone" in fb["path"] or "fmt::Debug" in fb["path"]:
            continue
        for x in tir.walk(fb["tir"]["value"]):
            if x.get("k") == "Assign" and (tir.place(x["l"]) or "").endswith("double_game_end") or (x.get("k") == "Assign" and "double_game_end" in tir.pretty(x["l"])):
                setters.append(fb["path"])
            elif x.get("k") == "Field" and x["name"] == "double_game_end":
                users.append(fb["path"])
    users = sorted(set(users) - set(setters))
    rep.ob("double-end.single-setter", setters == ["io::slippi::de::read"], "game::Quirks::double_game_end", "setter", "double_game_end is set in %s" % setters)
    rep.ob("double-end.consumers", set(users) >= {"io::slippi::ser::PayloadSizes::raw_size", "io::slippi::ser::write"}, "game::Quirks::double_game_end", "consumers", "double_game_end must be consumed by both raw_size and write; used in %s" % users)


def run(F, rep, tier):
    G = reach.Graph(F)
    M = model.Model(F, rep, want=("with_capacity", "push_null", "read_push", "write", "size", "from"))
    rep.floor("generated structs", len([s for s in model.GEN if M.has(s, "read_push") and M.has(s, "write") and M.has(s, "size")]), 11)
    rep.floor("version classes", len(M.classes), 25)
    model.rule_L1(rep, M)
    model.rule_L7(rep, M)
    model.rule_exact(rep, M)
    model.rule_L3(rep, M, sibs=("from",))
    model.rule_L2(rep, M)   # absent characters are padded in every live column, or later rows shift against the others
    model.rule_gate_consistent(rep, M, sibs=("write",))
    writer_headers_rule(F, rep, M)
    raw_blocks_rule(F, rep)
    emission.rule_emission(F, rep, M)
    C04.bracketing_rule(F, G, rep, M)
    gecko_rule(F, rep)
    # positive controls: perturb the reader/writer agreement in memory
    import common
    M2 = copy.copy(M)
    M2.trees = dict(M.trees)

    target = sorted(L.tree_thresholds(M.trees[("Post", "write")]))[-1]

    def bump(items):
        out = []
        for it in items:
            if it[0] == "gate":
                f = it[1]
                if f[0] == "gte" and (f[1], f[2]) == target:
                    f = ("gte", f[1], f[2] + 1, f[3])
                out.append(("gate", f, bump(it[2]), bump(it[3])))
            else:
                out.append(it)
        return out
    M2.trees[("Post", "write")] = bump(M.trees[("Post", "write")])
    M2.thresholds = set(M.thresholds) | {(target[0], target[1] + 1)}
    M2.classes = sorted(M2.thresholds)
    r2 = common.Report("ctl", "quick")
    model.rule_L1(r2, M2, structs=["Post"])
    rep.control("L1 fires when the last gate of Post::write moves by one minor version", bool(r2.violations))
    p = emission.Poly.atom("END") * (emission.Poly.const(1) + emission.Poly.atom("sz"))
    rep.control("polynomial comparison distinguishes END*(1+sz) from (1+sz)", p != emission.Poly.const(1) + emission.Poly.atom("sz"))
    rep.trusted += ["byteorder read_*/write_* of the same width and endianness are mutually inverse on all bit patterns (incl. NaN payloads)",
                    "arrow2 primitive arrays store and return values bit-exactly"]
    rep.assumptions += ["the Gecko blob holds 512*ceil(actual_size/512) bytes (every non-final splitter block is full — recorder behaviour)",
                        "item_offset spans the item column (established by C04's items.offset rule)",
                        "a game with Gecko codes has version >= 3.3"]
    rep.not_decided.append("round-trip equality over all event histories as such (a value-level fact); decided are clauses whose failure must break it for some well-formed input")
    return rep.finish("other",
                      "For all 11 generated structs and %d version classes the reader, writer and size tables agree field by field (type, width, big-endian, order, gate) and the value pushed is the "
                      "value read; mutable->immutable conversion is the identity wiring; the writer emits the header the reader strips after the same event code; raw Start/End blocks are captured "
                      "before the first read and re-emitted unchanged; the bytes the writer emits inside the raw element and PayloadSizes::raw_size normalise to the same polynomial over symbolic "
                      "multiplicities for every class and every combination of end/doubled-end/gecko/follower presence, every emitted event has a table entry of exactly the emitted size in "
                      "canonical order; every frame_open is bracketed by a close for every version class; splitter blocks are kept whole and re-emitted." % len(M.classes),
                      "./check C01 --tier " + tier)
