"""C01 — reading a .slp and writing it back reproduces the file byte for byte (structural: necessary clauses)."""
import copy

import emission
import events
import layout as L
import model
import reach
import tir
from tir import strip, declared, callee
from props import C04


def writer_headers_rule(F, rep, M):
    """H family on the writer side: same header after the same event code as the reader strips"""
    b, m, arms = events.find_dispatch(F)
    table = emission.table_entries(F)
    fixed = {l["event"]: l["size"].get((), 0) for l in L.tree_leaves(table) if l.get("op") == "entry" and set(l["size"]) <= {()}}
    tot, evs, order, outside = emission.raw_region(F, (3, 16), fixed)
    by_event = {}
    for e in evs:
        by_event.setdefault(e["event"], []).append(e)
    for ev, s in events.FRAME_EVENTS.items():
        info = events.analyse_arm(ev, arms[ev])
        rh = [h["ty"] for h in info["header"]]
        for e in by_event.get(ev, []):
            rep.ob("H.writer-header", e["header"] == rh, "writer#" + ev, "header", "the writer emits header %s after the %s code, the reader strips %s" % (e["header"], ev, rh), e["site"],
                   sample={"event": ev, "header": rh})
        rep.ob("H.writer-emits", len(by_event.get(ev, [])) >= 1, "writer#" + ev, "emission", "the writer never emits %s" % ev)
    # event code constants equal the spec
    spec = model.load_spec("events.json")
    en = F.enums.get("io::slippi::de::Event")
    got = {v["name"]: v["discr"] for v in en["variants"]} if en else {}
    want = {k: v["code"] for k, v in spec["events"].items()}
    rep.ob("H.codes", got == want, "io::slippi::de::Event", "discriminants", "event codes %s differ from the spec %s" % (got, want), sample={"codes": got})
    rep.floor("Event variants", len(got), 10)
    # the port byte and follower flag written are those of the character being written
    for fn in ("write_pre", "write_post"):
        bd = F.body("frame::immutable::slippi::<impl frame::immutable::Data>::" + fn)
        ok = header_values_ok(bd)
        rep.ob("H.writer-values", ok, "Data::" + fn, "header-values", "the header must carry the frame id, the port number and the follower flag of the character written")
        pd = F.body("frame::immutable::slippi::<impl frame::immutable::PortData>::" + fn)
        t2 = tir.pretty(pd["tir"]["value"])
        ok = "self.leader.%s(w, version, idx, frame_id, frame::PortOccupancy {port: self.port, follower: False})" % fn in t2 and "f.%s(w, version, idx, frame_id, frame::PortOccupancy {port: self.port, follower: True})" % fn in t2
        rep.ob("H.writer-char", ok, "PortData::" + fn, "character", "leader must be written with follower=false and the follower with follower=true, both with the port's own number")
    fw = F.body("frame::immutable::slippi::<impl frame::immutable::Frame>::write")
    t3 = tir.pretty(fw["tir"]["value"])
    rows_ok = False
    fw = F.body("frame::immutable::slippi::<impl frame::immutable::Frame>::write")
    for lp in (tir.walk(fw["tir"]["value"]) if fw is not None else []):
        if lp.get("k") == "For":
            src = strip(lp["iter"])
            adaptors = []
            while src.get("k") == "MethodCall" and src["method"] in ("iter", "into_iter", "enumerate", "copied", "cloned", "values", "by_ref") and not src.get("args"):
                adaptors.append(src["method"])
                src = strip(src["recv"])
            if tir.place(src) == "self.id" and "values" in adaptors and "enumerate" in adaptors and lp["pat"].get("k") == "Tuple" and len(lp["pat"].get("pats", [])) == 2:
                rows_ok = True
            break         # the outermost loop decides
    rep.ob("H.writer-rows", rows_ok, "Frame::write", "rows", "frames must be written row by row in column order (the outer loop enumerates the id column's values)")


def raw_blocks_rule(F, rep):
    for fn in ("io::slippi::de::game_start", "io::slippi::de::game_end"):
        b = F.body(fn)
        val = L.strip_try(b["tir"]["value"])
        st = val.get("stmts", [])
        ok = bool(st) and st[0].get("k") == "Let" and st[0]["pat"].get("name") == "bytes" and tir.pretty(st[0]["init"]) == "game::Bytes(r.to_vec())"
        rep.ob("raw.captured-first", ok, fn, "bytes", "the raw block must be captured from the whole input slice before the first read")
        lits = [x for x in tir.walk(val) if x.get("k") == "Struct" and (x.get("path") or "") in ("game::Start", "game::End")]
        ok = len(lits) == 1 and any(f["name"] == "bytes" and L.local_name(f["e"]) == "bytes" for f in lits[0]["fields"])
        rep.ob("raw.stored", ok, fn, "field", "the captured block must be stored unchanged in the `bytes` field")
    # nobody else writes Start.bytes / End.bytes
    writers = []
    for b in F.fn_bodies():
        if "serde" in b["path"] or "::clone" in b["path"]:
            continue
        for x in tir.walk(b["tir"]["value"]):
            if x.get("k") in ("Assign", "AssignOp") and (tir.place(x["l"]) or "").endswith(".bytes"):
                writers.append((b["path"], tir.sp(x)))
    rep.ob("raw.no-other-writer", not writers, "game::Bytes", "writers", "the retained raw blocks are modified at %s" % writers[:3])


def gecko_reemit_ok(w):
    """while pos < actual { 0x10; bytes[pos..pos+512]; min(512, actual - pos) as u16; 0x3D; pos += 512; (pos >= actual) as u8 }"""
    import flow
    import linear
    root = w["tir"]["value"]
    wname = w["tir"]["params"][0].get("name")
    env = tir.LetEnv(root)
    loops = [n for n in tir.walk(root) if n.get("k") in ("Loop", "For")]
    if len(loops) != 1:
        return False
    lp = loops[0]
    stepped = lp.get("k") == "For"
    if stepped:
        return gecko_reemit_stepped(w, lp, env, wname)
    sl_ = emission.stepping_loop(lp, root, 512)
    if sl_ is None:
        return False
    pos_id, inc0 = sl_
    incs = [inc0]

    def is_pos(e):
        return strip(e).get("k") == "Path" and strip(e).get("id") == pos_id

    def is_actual(e):
        r = env.resolve(e)
        while r.get("k") == "Cast":
            r = strip(r["e"])
        return (tir.place(r) or "").endswith(".actual_size")

    def pos_ge_actual(c, negate=False):
        c = strip(c)
        if c.get("k") == "Unary" and c.get("op") == "Not":
            return pos_ge_actual(c["e"], not negate)
        if c.get("k") != "Binary":
            return False
        op, l, r = c.get("op"), c["l"], c["r"]
        if negate:
            op = {"Lt": "Ge", "Ge": "Lt", "Gt": "Le", "Le": "Gt"}.get(op)
        return (op == "Ge" and is_pos(l) and is_actual(r)) or (op == "Le" and is_actual(l) and is_pos(r))
    # loop condition: pos < actual_size  (the While desugaring is `if cond { body } else { break }`)
    conds = [x["cond"] for x in tir.walk(lp) if x.get("k") == "If" and any(y.get("k") == "Break" for y in tir.walk(x.get("else") or {}))]
    if len(conds) != 1 or not pos_ge_actual(conds[0], negate=True):
        return False
    seq = flow.ordered_calls(lp, lambda n: (n.get("k") == "MethodCall" and n["method"].startswith("write_") and L.local_name(n["recv"]) == wname))
    ws = [c for g, c in seq]
    if [x["method"] for x in ws] != ["write_u8", "write_all", "write_u16", "write_u8", "write_u8"]:
        return False

    def event_code(e, name):
        e = strip(e)
        return e.get("k") == "Cast" and (strip(e["e"]).get("path") or "").endswith("Event::" + name)
    ok = event_code(ws[0]["args"][0], "MessageSplitter") and event_code(ws[3]["args"][0], "GeckoCodes")
    sl = strip(ws[1]["args"][0])
    if not (sl.get("k") == "Index" and (tir.place(sl["base"]) or "").endswith(".bytes")):
        return False
    rg = strip(sl["index"])
    f = {x["name"]: x["e"] for x in rg.get("fields", [])} if rg.get("k") == "Struct" else {}
    try:
        pname = strip(incs[0]["l"]).get("name")
        fe = linear.lin(env.resolve(f.get("end") or {}))
        ok = ok and is_pos(f.get("start") or {}) and {k: v for k, v in fe.items() if v} == {pname: 1, "": 512}
    except linear.NonLinear:
        return False
    sz = strip(ws[2]["args"][0])
    while sz.get("k") == "Cast":
        sz = strip(sz["e"])
    margs = None
    if sz.get("k") == "Call" and (declared(sz) or "").endswith("cmp::min") and len(sz["args"]) == 2:
        margs = sz["args"]
    elif sz.get("k") == "MethodCall" and sz["method"] == "min" and len(sz["args"]) == 1:
        margs = [sz["recv"], sz["args"][0]]
    if margs is None:
        return False

    def is_rest(e):
        e = strip(e)
        return e.get("k") == "Binary" and e.get("op") == "Sub" and is_actual(e["l"]) and is_pos(e["r"])
    ok = ok and ((tir.lit_int(margs[0]) == 512 and is_rest(margs[1])) or (tir.lit_int(margs[1]) == 512 and is_rest(margs[0])))
    # the final flag is (pos >= actual) evaluated after the increment
    fl = strip(ws[4]["args"][0])
    if fl.get("k") == "Call" and (declared(fl) or "").endswith("From::from") and len(fl["args"]) == 1:
        fl = strip(fl["args"][0])
    elif fl.get("k") == "Cast":
        fl = strip(fl["e"])
    fl = env.resolve(fl)
    ok = ok and pos_ge_actual(fl)
    # position of the increment: after the 4th write, before the 5th (source order within the loop body)
    order = [id(x) for x in tir.walk(lp)]
    try:
        ok = ok and order.index(id(ws[3])) < order.index(id(incs[0])) < order.index(id(ws[4]))
    except ValueError:
        return False
    return bool(ok)


def gecko_reemit_stepped(w, lp, env, wname):
    """for pos in (0..actual).step_by(512) { 0x10; bytes[pos..pos+512]; min(512, actual - pos) as u16; 0x3D; (pos + 512 >= actual) as u8 }"""
    import flow
    import linear
    src = strip(lp["iter"])
    if not (src.get("k") == "MethodCall" and src["method"] == "step_by" and tir.lit_int(src["args"][0]) == 512 and lp["pat"].get("k") == "Bind"):
        return False
    rg = strip(src["recv"])
    f = {x["name"]: x["e"] for x in rg.get("fields", [])} if rg.get("k") == "Struct" and (rg.get("path") or "").endswith("ops::Range") else {}

    def is_actual(e):
        r = env.resolve(e)
        while r.get("k") == "Cast":
            r = strip(r["e"])
        return (tir.place(r) or "").endswith(".actual_size")
    if tir.lit_int(f.get("start") or {}) != 0 or not is_actual(f.get("end") or {}):
        return False
    pname, pos_id = lp["pat"]["name"], lp["pat"]["id"]
    if [x for x in tir.walk(lp["body"]) if x.get("k") in ("Assign", "AssignOp") and strip(x["l"]).get("id") == pos_id]:
        return False
    ws = [c for g, c in flow.ordered_calls(lp["body"], lambda n: (n.get("k") == "MethodCall" and n["method"].startswith("write_") and L.local_name(n["recv"]) == wname))]
    if [x["method"] for x in ws] != ["write_u8", "write_all", "write_u16", "write_u8", "write_u8"]:
        return False

    def event_code(e, name):
        e = strip(e)
        return e.get("k") == "Cast" and (strip(e["e"]).get("path") or "").endswith("Event::" + name)

    def lin(e):
        return linear.lin(env.resolve(e), {})
    lenv = tir.LetEnv(lp["body"])

    def lin2(e):
        e = lenv.resolve(e)
        try:
            f2 = linear.lin(e)
        except linear.NonLinear:
            return None
        # substitute let-bound names of the loop body once more (block_end = pos + 512)
        out = {"": f2.get("", 0)}
        for k2, v in f2.items():
            if not k2:
                continue
            hit = [x for x in tir.walk(lp["body"]) if x.get("k") == "Let" and x["pat"].get("k") == "Bind" and x["pat"].get("name") == k2 and x.get("init") is not None]
            if len(hit) == 1:
                try:
                    sub_ = linear.lin(hit[0]["init"])
                except linear.NonLinear:
                    return None
                for k3, v3 in sub_.items():
                    out[k3] = out.get(k3, 0) + v * v3
            else:
                out[k2] = out.get(k2, 0) + v
        return {k2: v for k2, v in out.items() if v or k2 == ""}
    ok = event_code(ws[0]["args"][0], "MessageSplitter") and event_code(ws[3]["args"][0], "GeckoCodes")
    sl = strip(ws[1]["args"][0])
    if not (sl.get("k") == "Index" and (tir.place(sl["base"]) or "").endswith(".bytes")):
        return False
    rg2 = strip(sl["index"])
    f2 = {x["name"]: x["e"] for x in rg2.get("fields", [])} if rg2.get("k") == "Struct" else {}
    ok = ok and lin2(f2.get("start") or {}) == {pname: 1, "": 0} and lin2(f2.get("end") or {}) == {pname: 1, "": 512}
    sz = strip(ws[2]["args"][0])
    while sz.get("k") == "Cast":
        sz = strip(sz["e"])
    margs = None
    if sz.get("k") == "Call" and (declared(sz) or "").endswith("cmp::min") and len(sz["args"]) == 2:
        margs = sz["args"]
    elif sz.get("k") == "MethodCall" and sz["method"] == "min" and len(sz["args"]) == 1:
        margs = [sz["recv"], sz["args"][0]]
    if margs is None:
        return False

    def is_rest(e):
        e = strip(e)
        return e.get("k") == "Binary" and e.get("op") == "Sub" and is_actual(e["l"]) and strip(e["r"]).get("id") == pos_id
    ok = ok and ((tir.lit_int(margs[0]) == 512 and is_rest(margs[1])) or (tir.lit_int(margs[1]) == 512 and is_rest(margs[0])))
    fl = strip(ws[4]["args"][0])
    if fl.get("k") == "Call" and (declared(fl) or "").endswith("From::from") and len(fl["args"]) == 1:
        fl = strip(fl["args"][0])
    elif fl.get("k") == "Cast":
        fl = strip(fl["e"])
    fl = lenv.resolve(fl)
    # (pos + 512) >= actual
    flag = False
    if fl.get("k") == "Binary" and fl.get("op") in ("Ge", "Le"):
        big, small = (fl["l"], fl["r"]) if fl["op"] == "Ge" else (fl["r"], fl["l"])
        flag = lin2(big) == {pname: 1, "": 512} and is_actual(small)
    return bool(ok and flag)


def gecko_rule(F, rep):
    b = F.body("io::slippi::de::handle_splitter_event")
    txt = tir.pretty(b["tir"]["value"])
    keep = False
    for x in tir.walk(b["tir"]["value"]):
        if x.get("k") == "MethodCall" and x["method"] in ("extend_from_slice", "extend", "write_all") and (tir.place(x["recv"]) or "").endswith(".raw") and len(x["args"]) == 1:
            a = strip(x["args"][0])
            if a.get("k") == "MethodCall" and a["method"] in ("iter", "copied", "cloned"):
                a = strip(a["recv"])
            rg = strip(a.get("index") or {}) if a.get("k") == "Index" else {}
            f = {y["name"]: y["e"] for y in rg.get("fields", [])} if rg.get("k") == "Struct" else {}
            if a.get("k") == "Index" and strip(a["base"]).get("k") == "Path" and tir.lit_int(f.get("start") or {}) == 0 and tir.lit_int(f.get("end") or {}) == 512:
                keep = True
            if a.get("k") == "Path" and a.get("res") == "local":
                # `let (block, rest) = buf.split_at(512);` — block is buf[0..512]
                for s_ in tir.walk(b["tir"]["value"]):
                    if s_.get("k") == "Let" and s_["pat"].get("k") == "Tuple" and len(s_["pat"]["pats"]) == 2 and s_["pat"]["pats"][0].get("id") == a.get("id"):
                        i0 = strip(s_.get("init") or {})
                        if i0.get("k") == "MethodCall" and i0["method"] == "split_at" and tir.lit_int(i0["args"][0]) == 512:
                            keep = True
    rep.ob("gecko.keep-block", keep, "io::slippi::de::handle_splitter_event", "block", "the reader must keep all 512 bytes of every splitter block")
    w = F.body("io::slippi::ser::gecko_codes")
    ok = gecko_reemit_ok(w)
    rep.ob("gecko.re-emit", ok, "io::slippi::ser::gecko_codes", "block", "the writer must re-emit 512-byte blocks with size min(512, actual - pos), the wrapped code and the final flag")
    b2, m, arms = events.find_dispatch(F)
    ok = False
    for x in tir.walk(arms["GeckoCodes"]["body"]):
        if x.get("k") == "Struct" and (x.get("path") or "") == "game::GeckoCodes":
            f = {y["name"]: strip(y["e"]) for y in x["fields"]}
            bsrc = f.get("bytes", {})
            # the payload buffer itself: copied (`buf.to_vec()`, `buf.clone()`) or moved (`bytes: buf`)
            src = strip(bsrc["recv"]) if bsrc.get("k") == "MethodCall" and bsrc["method"] in ("to_vec", "clone", "to_owned") and not bsrc.get("args") else bsrc
            blob = src.get("k") == "Path" and src.get("res") == "local" and (src.get("ty") or "").endswith("Vec<u8>")
            ok = blob and (tir.place(f.get("actual_size", {})) or "").endswith("split_accumulator.actual_size")
    rep.ob("gecko.stored", ok, events.PARSE_EVENT + "#GeckoCodes", "store", "the assembled blob and its actual size must be stored unchanged")
    # double_game_end: set in one place, consumed by raw_size and write
    setters, users = [], []
    for fb in F.fn_bodies():
        if "serde" in fb["path"] or "Default" in fb["path"] or "::clone" in fb["path"] or "fmt::Debug" in fb["path"]:
            continue
        for x in tir.walk(fb["tir"]["value"]):
            if x.get("k") == "Assign" and (tir.place(x["l"]) or "").endswith("double_game_end") or (x.get("k") == "Assign" and "double_game_end" in tir.pretty(x["l"])):
                setters.append(fb["path"])
            elif x.get("k") == "Field" and x["name"] == "double_game_end":
                users.append(fb["path"])
    users = sorted(set(users) - set(setters))
    rep.ob("double-end.single-setter", setters == ["io::slippi::de::read"], "game::Quirks::double_game_end", "setter", "double_game_end is set in %s" % setters)
    rep.ob("double-end.consumers", set(users) >= {"io::slippi::ser::PayloadSizes::raw_size", "io::slippi::ser::write"}, "game::Quirks::double_game_end", "consumers", "double_game_end must be consumed by both raw_size and write; used in %s" % users)


def header_values_ok(bd):
    """write_pre/write_post emit, in this order, the frame id (i32), the port number (u8) and the follower flag (u8: 1 iff port.follower)"""
    ps = bd["tir"]["params"]
    names = [p.get("name") for p in ps]
    writes = [x for x in tir.walk(bd["tir"]["value"]) if x.get("k") == "MethodCall" and x["method"] in ("write_i32", "write_u8") and len(x.get("args", [])) == 1]
    first = next((i for i, w in enumerate(writes) if w["method"] == "write_i32"), None)
    if first is None or len(writes) < first + 3:
        return False
    writes = writes[first:]
    a0, a1, a2 = (strip(w["args"][0]) for w in writes[:3])
    ok_id = writes[0]["method"] == "write_i32" and a0.get("k") == "Path" and a0.get("res") == "local" and a0.get("ty") == "i32"
    p1 = a1["e"] if a1.get("k") == "Cast" else a1
    ok_port = writes[1]["method"] == "write_u8" and (tir.place(p1) or "").endswith(".port")
    port_var = (tir.place(p1) or "").rsplit(".", 1)[0]
    ok_fol = False
    if writes[2]["method"] == "write_u8":
        bb = tir.bool_branch(a2)
        if bb is not None and bb[2] is not None and tir.place(bb[0]) == port_var + ".follower":
            ok_fol = tir.lit_int(L.strip_try(bb[1])) == 1 and tir.lit_int(L.strip_try(bb[2])) == 0
        elif a2.get("k") == "Cast" and tir.place(a2["e"]) == port_var + ".follower":
            ok_fol = True      # bool as u8 is 1/0
        elif a2.get("k") == "Call" and (declared(a2) or "").endswith("From::from") and tir.place(a2["args"][0]) == port_var + ".follower":
            ok_fol = True
    return ok_id and ok_port and ok_fol


def run(F, rep, tier):
    G = reach.Graph(F)
    M = model.Model(F, rep, want=("with_capacity", "push_null", "read_push", "write", "size", "from"))
    rep.floor("generated structs", len([s for s in model.GEN if M.has(s, "read_push") and M.has(s, "write") and M.has(s, "size")]), 11)
    rep.floor("version classes", len(M.classes), 25)
    model.rule_L1(rep, M)
    model.rule_L7(rep, M)
    model.rule_exact(rep, M)
    model.rule_L3(rep, M, sibs=("from",))
    model.rule_L2(rep, M)   # absent characters are padded in every live column, or later rows shift against the others
    model.rule_gate_consistent(rep, M, sibs=("write",))
    writer_headers_rule(F, rep, M)
    raw_blocks_rule(F, rep)
    emission.rule_emission(F, rep, M)
    C04.structure_rules(F, G, rep, M)
    # the reader consumes exactly the raw element: the event loop's own bound (a replay without Game End ends by it)
    from props import C07 as _C07
    _C07.loop_bound_rule(F, rep, "read.loop-bound")
    gecko_rule(F, rep)
    # the trailing metadata element is part of the bytes: reader and writer grammars agree and the writer accepts what the reader produces
    from props import C16
    # byte-exactness is a function of the game alone: the .slp writer keeps no state across calls
    from props import C18
    import reach as _reach
    _G = _reach.Graph(F)
    amb = C18.ambient_state(F, _G, _G.reachable(["io::slippi::ser::write"]))
    rep.ob("writer.stateless", not amb, "io::slippi::ser::write", "ambient-state", "the .slp writer's reachable set keeps state across calls (%s)" % "; ".join("%s in %s @ %s" % (c, _reach.short(o), sp) for o, c, sp in amb[:3]))
    # End::size feeds the doubled-Game-End test of the reader and the payload table of a game without an end
    from props import C05 as _C05
    _C05.end_size_rule(F, rep)
    # the reader must accept every well-formed file: the block decoders refuse nothing the spec's value domains allow
    import model as _model
    _C05.end_rule(F, rep, _model.load_spec("start_spec.json"))
    _C05.no_extra_refusal_rule(F, rep)
    from props import C08 as _C08
    _C08.trailing_rule(F, rep)
    C16.reader_grammar(F, rep)
    C16.writer_grammar(F, rep)
    C16.writer_domain_rule(F, rep)
    C16.toplevel_rule(F, rep)
    C16.order_rule(F, rep)
    # positive controls: perturb the reader/writer agreement in memory
    import common
    M2 = copy.copy(M)
    M2.trees = dict(M.trees)

    target = sorted(L.tree_thresholds(M.trees[("Post", "write")]))[-1]

    def bump(items):
        out = []
        for it in items:
            if it[0] == "gate":
                def bf(f):
                    if f[0] == "gte" and (f[1], f[2]) == target:
                        return ("gte", f[1], f[2] + 1, f[3])
                    if f[0] == "not":
                        return ("not", bf(f[1]))
                    if f[0] in ("and", "or"):
                        return (f[0], bf(f[1]), bf(f[2]))
                    return f
                out.append(("gate", bf(it[1]), bump(it[2]), bump(it[3])))
            else:
                out.append(it)
        return out
    M2.trees[("Post", "write")] = bump(M.trees[("Post", "write")])
    M2.thresholds = set(M.thresholds) | {(target[0], target[1] + 1)}
    M2.classes = sorted(M2.thresholds)
    r2 = common.Report("ctl", "quick")
    model.rule_L1(r2, M2, structs=["Post"])
    rep.control("L1 fires when the last gate of Post::write moves by one minor version", bool(r2.violations))
    p = emission.Poly.atom("END") * (emission.Poly.const(1) + emission.Poly.atom("sz"))
    rep.control("polynomial comparison distinguishes END*(1+sz) from (1+sz)", p != emission.Poly.const(1) + emission.Poly.atom("sz"))
    rep.trusted += ["byteorder read_*/write_* of the same width and endianness are mutually inverse on all bit patterns (incl. NaN payloads)",
                    "arrow2 primitive arrays store and return values bit-exactly"]
    rep.assumptions += ["the Gecko blob holds 512*ceil(actual_size/512) bytes (every non-final splitter block is full — recorder behaviour)",
                        "item_offset spans the item column (established by C04's items.offset rule)",
                        "a game with Gecko codes has version >= 3.3"]
    rep.not_decided.append("round-trip equality over all event histories as such (a value-level fact); decided are clauses whose failure must break it for some well-formed input")
    return rep.finish("other",
                      "For all 11 generated structs and %d version classes the reader, writer and size tables agree field by field (type, width, big-endian, order, gate) and the value pushed is the "
                      "value read; mutable->immutable conversion is the identity wiring; the writer emits the header the reader strips after the same event code; raw Start/End blocks are captured "
                      "before the first read and re-emitted unchanged; the bytes the writer emits inside the raw element and PayloadSizes::raw_size normalise to the same polynomial over symbolic "
                      "multiplicities for every class and every combination of end/doubled-end/gecko/follower presence, every emitted event has a table entry of exactly the emitted size in "
                      "canonical order; every frame_open is bracketed by a close for every version class; splitter blocks are kept whole and re-emitted." % len(M.classes),
                      "./check C01 --tier " + tier)
