"""C06 — reading never panics, aborts or hangs, whatever bytes it is given.
E3 panic inventory over the MIR-reachable set with discharge classes R/G/I, S (recursion depth), T (loop termination),
E (error discipline), W (no blocking calls)."""
import common
import model
import reach
import safety

ENTRIES = ["io::slippi::de::read", "io::slippi::de::parse_header", "io::slippi::de::parse_start", "io::slippi::de::parse_event", "io::slippi::de::parse_metadata"]


def run(F, rep, tier):
    G = reach.Graph(F)
    M = model.Model(F, rep, want=("with_capacity", "push_null", "read_push"))
    model.rule_L2(rep, M)
    gate_ok = safety.gate_consistency_table(F, rep, M)
    from props import C10
    C10.same_version_rule(F, rep)      # the G-class discharge assumes allocation and reads see the same version
    rep.floor("reader entry points", len([e for e in ENTRIES if e in G.local]), 5)
    R, ctx = safety.panic_inventory(F, G, rep, ENTRIES, "c06_invariants.json", M=M, gate_ok=gate_ok)
    rep.floor("functions reachable from the reader entries", len(R), 60)
    rep.floor("panic-capable sites inventoried", rep.counts.get("P.sites", 0), 80)
    safety.stack_rule(F, G, rep, R)
    n_loops = safety.loops_rule(F, G, rep, R, M)
    # (7 on the pinned tree; a `for` rewritten with iterator adaptors is no longer a loop of ours — std's adaptors over finite
    # collections terminate —, so the vacuity floor is set well below the count)
    rep.floor("loops in the reader's reachable set", n_loops, 3)
    n_res = safety.error_discipline(F, G, rep, R)
    rep.floor("io::Result-returning call sites", n_res, 100)
    ext = safety.blocking_rule(F, G, rep, R)
    # positive controls: the inventory is not vacuous and the termination classifier can say "no"
    import json, os, tempfile, tir
    r2 = common.Report("ctl", "quick")
    safety.panic_inventory(F, G, r2, ENTRIES, {}, M=M, gate_ok=gate_ok)      # no invariant table at all
    rep.control("without the invariant table exactly the class-I sites are reported", len(r2.violations) == rep.counts.get("P.I", -1) and len(r2.violations) > 0)
    r3 = common.Report("ctl", "quick")
    safety.panic_inventory(F, G, r3, ENTRIES, "c06_invariants.json", M=M, gate_ok={})
    rep.control("without the layout model's gate consistency the gated-column unwraps are reported", len(r3.violations) == rep.counts.get("P.G", -1) and len(r3.violations) > 0)
    fc = F.body("io::slippi::de::ParseState::frame_close")
    loops = [n for n in tir.walk(fc["tir"]["value"]) if n.get("k") == "Loop"]
    cons = safety.Consume(F, G)
    cons.in_loop = True
    rep.control("the consumption classifier rejects a loop that reads nothing", bool(loops) and not any(cons.must(l["body"]) for l in loops))
    unresolved = sorted(c for c in ext if c.startswith("<indirect") or c.startswith("std::io::Read::") or c.startswith("std::io::Seek::"))
    rep.assumptions += ["calls through the caller's R: Read/Seek (%s) return io::Result without panicking" % ", ".join(unresolved[:6]),
                        "external callees not listed in the panic-by-contract table do not panic on any input (byteorder, arrow2 push/with_capacity, encoding_rs, serde_json::Map, xxhash)",
                        "allocation failure (vec![0; n] with n from the file header, at most 4 GiB) is outside the panic/abort inventory"]
    rep.trusted += ["rustc MIR at mir-opt-level=0: Assert terminators are exactly the compiler-inserted bounds/overflow/division checks",
                    "the dev/test profile enables overflow checks, so arithmetic overflow is inventoried as a panic"]
    rep.not_decided.append("option combinations only select between analysed branches; debug_write_event (Opts.debug) performs file I/O whose errors propagate with `?`")
    return rep.finish("other",
                      "Every panic-capable site (MIR Assert terminators, calls into core::panicking / unwrap / expect / Index, callees that panic by contract) in the %d functions "
                      "reachable from the five reader entry points is enumerated and discharged by R (interval/constant/dominating-comparison reasoning on the MIR, iterator-range reasoning "
                      "on the typed tree), G (gated-column unwraps justified by the layout model's column balance) or I (frozen invariant table with machine-checked side conditions); "
                      "every call-graph cycle carries a constant depth bound; every loop is a bounded iterator, consumes input on every iteration, or is a monotone counter; every "
                      "io::Result is propagated; no blocking primitive is reachable." % len(R),
                      "./check C06 --tier " + tier)
