"""C02 — .slp -> .slpp -> .slp is lossless under every compression option (structural)."""
import re
import containers
import layout as L
import model
import peppifmt
import reach
import tir
from tir import strip, declared, callee
from props import C11


def entry_agreement(F, rep):
    ents = peppifmt.writer_entries(F)
    arms, m, loop = peppifmt.reader_arms(F)
    rep.floor("writer entries", len(ents), 8)
    rep.floor("reader arms", len(arms), 7)
    # start.json / end.json are human-readable copies of the raw blocks; everything else carries data the reader needs
    copies = ("start.json", "end.json")
    for e in ents:
        nm = e["name"]
        if nm in copies:
            continue
        rep.ob("entry.reader-arm", nm is not None and nm in arms, peppifmt.READ, str(nm), "the writer emits %s but the reader has no arm with that literal name: the data is dropped on read" % nm, sample={"entry": nm})
    names = [e["name"] for e in ents]
    for nm in arms:
        if nm != "_":
            rep.ob("entry.writer-emits", nm in names, peppifmt.WRITE, nm, "the reader expects entry %s, which the writer never emits: that part of the game is lost in the round trip" % nm)
    # gecko blob: u32 little-endian actual_size + bytes on both sides
    wb = F.body(peppifmt.WRITE)
    wt = tir.pretty(wb["tir"]["value"])
    w_ok = gecko_writer_ok(F, wb)
    rb = F.body("io::peppi::de::read_peppi_gecko_codes")
    rt = tir.pretty(rb["tir"]["value"])
    r_ok = gecko_reader_ok(rb)
    le_calls = [callee(x) for x in tir.walk(rb["tir"]["value"]) if x.get("k") == "Call" and "from_" in (callee(x) or "") and "_bytes" in (callee(x) or "")]
    rep.ob("entry.gecko-writer", w_ok, peppifmt.WRITE, "gecko_codes.raw", "the gecko entry must be actual_size as 4 little-endian bytes followed by the blob")
    rep.ob("entry.gecko-reader", r_ok and all((c or "").endswith("from_le_bytes") for c in le_calls) and len(le_calls) == 1, "io::peppi::de::read_peppi_gecko_codes", "gecko_codes.raw",
           "the gecko entry must be read back as 4 little-endian bytes of actual_size followed by the blob; conversions: %s" % le_calls, sample={"conversion": le_calls})
    raw_decoder_rule(F, rep)
    # optionality
    peppifmt.optionality_rule(F, rep)
    # a JSON entry whose Rust type is Option<_> and which is written unconditionally must be readable when it is `null`
    for e in ents:
        if e["name"] == "metadata.json":
            pay = tir.pretty(e["payload"])
            st = F.structs.get("game::immutable::Game")
            mty = [f["ty"] for f in st["fields"] if f["name"] == "metadata"][0]
            is_opt = mty.startswith("std::option::Option<")
            b = F.body("io::peppi::de::read_peppi_metadata")
            null_ok = False
            for n in tir.walk(b["tir"]["value"]):
                if n.get("k") == "Match":
                    for a in n["arms"]:
                        p = a["pat"]
                        nm = (p.get("path") or (p.get("e") or {}).get("path") or "")
                        if nm.endswith("Value::Null") and "Ok(" in tir.pretty(a["body"]).replace("std::prelude::v1::", ""):
                            null_ok = True
            rep.ob("entry.null", (not is_opt) or (not e["guards"] and null_ok) or bool(e["guards"]), "io::peppi::de::read_peppi_metadata", "null",
                   "metadata is an Option written unconditionally (None renders as JSON null) but the reader rejects null")


def gecko_reader_ok(rb):
    """4 bytes read exactly into A, the rest read to the end into B, GeckoCodes { actual_size: u32::from_le_bytes(A), bytes: B }"""
    root = rb["tir"]["value"]
    env = tir.LetEnv(root)
    rname = rb["tir"]["params"][0].get("name")
    import flow
    reads = [c for g, c in flow.ordered_calls(root, lambda n: n.get("k") == "MethodCall" and n["method"] in ("read_exact", "read_to_end", "read", "read_to_string") and L.local_name(n["recv"]) == rname)]
    if [x["method"] for x in reads] != ["read_exact", "read_to_end"]:
        return False
    a_id, b_id = strip(reads[0]["args"][0]).get("id"), strip(reads[1]["args"][0]).get("id")
    a_ty = strip(reads[0]["args"][0]).get("ty") or ""
    if "[u8; 4]" not in a_ty or a_id is None or b_id is None:
        return False
    # the bytes stored are the bytes read: neither buffer is touched by anything but its read
    from props import C08
    names = {strip(reads[0]["args"][0]).get("name"), strip(reads[1]["args"][0]).get("name")}
    for pl, n in C08.mutations(root):
        if pl in names and not any(n is a or n is strip(a) for r_ in reads for a in r_["args"]):
            return False
    for n in tir.walk(root):
        if n.get("k") == "Struct" and (n.get("path") or "").endswith("GeckoCodes"):
            f = {x["name"]: x["e"] for x in n["fields"]}
            sz = env.resolve(f.get("actual_size") or {})
            ok_sz = sz.get("k") == "Call" and (declared(sz) or "").endswith("from_le_bytes") and strip(sz["args"][0]).get("id") == a_id
            ok_b = strip(f.get("bytes") or {}).get("id") == b_id
            return bool(ok_sz and ok_b)
    return False


def raw_decoder_rule(F, rep, rule="entry.raw-decoder"):
    """raw start/end: the whole entry (read to its end, whatever its length) is handed to the .slp decoders — wherever in the
    .slpp reader the decoder is called from (a helper per entry, or the arm of the entry loop itself)"""
    import reach
    G = reach.Graph(F)
    R = [o for o in G.reachable([peppifmt.READ]) if o.startswith("io::peppi::")]
    for arm_name, dec in (("start.raw", "io::slippi::de::game_start"), ("end.raw", "io::slippi::de::game_end")):
        sites = []
        for o in R:
            b = F.body(o)
            if b is None:
                continue
            root = b["tir"]["value"]
            for x in tir.walk(root):
                if x.get("k") == "Call" and declared(x) == dec:
                    sites.append((o, root, x))
        whole = False
        where = peppifmt.READ
        if len(sites) == 1:
            o, root, x = sites[0]
            where = o
            a = strip(x["args"][0]) if x.get("args") else {}     # strip peels `&mut`, `&x[..]` and `.as_slice()`: the whole buffer
            aid = a.get("id") if a.get("k") == "Path" and a.get("res") == "local" else None
            fills = [y for y in tir.walk(root) if y.get("k") == "MethodCall" and y["method"] == "read_to_end" and y.get("args") and strip(y["args"][0]).get("id") == aid]
            others = [y for y in tir.walk(root) if y.get("k") == "MethodCall" and strip(y["recv"]).get("id") == aid and (y["recv"].get("aty") or "").startswith("&mut") and y["method"] not in ("read_to_end",)]
            whole = aid is not None and len(fills) == 1 and not others
        rep.ob(rule, whole, where, arm_name + ".decoder", "the %s entry must be read to its end and passed whole to %s (the entry's own length decides how much is decoded, as the payload table does in a .slp); %d call site(s)" % (arm_name, dec, len(sites)))


def gecko_writer_ok(F, wb):
    """gecko_codes.raw = actual_size as 4 little-endian bytes, then the blob, appended under that name. The buffer is a local
    Vec<u8> whose contents are the concatenation, in program order, of its initial contents (`x.to_le_bytes().to_vec()`,
    `Vec::from(..)`, or nothing for `Vec::new()` / `Vec::with_capacity(..)`) and every `extend_from_slice` / `write_all` /
    `extend` on it; no other mutable use of the buffer may exist."""
    root = wb["tir"]["value"]
    helpers = peppifmt.append_helpers(F)

    def seg(e):
        e = strip(e)
        while e.get("k") == "AddrOf":
            e = strip(e["e"])
        if e.get("k") == "MethodCall" and e["method"] in ("to_vec", "into", "to_owned", "as_slice", "as_ref", "iter", "copied", "cloned") and not e.get("args"):
            return seg(e["recv"])
        if e.get("k") == "MethodCall" and e["method"] == "to_le_bytes" and (tir.place(e["recv"]) or "").endswith(".actual_size"):
            return ("le", tir.place(e["recv"]).rsplit(".", 1)[0])
        p = tir.place(e)
        if p and p.endswith(".bytes"):
            return ("blob", p.rsplit(".", 1)[0])
        return ("?", tir.pretty(e)[:40])

    for n in tir.walk(root):
        if n.get("k") == "Let" and n["pat"].get("k") == "Bind" and n.get("init") is not None and (n["pat"].get("ty") or "").startswith("std::vec::Vec<u8"):
            i = strip(n["init"])
            segs = None
            if i.get("k") == "MethodCall" and i["method"] in ("to_vec", "into", "to_owned"):
                segs = [seg(i)]
            elif i.get("k") == "Call" and (declared(i) or "").endswith("From::from") and len(i["args"]) == 1:
                segs = [seg(i["args"][0])]       # Vec::from([u8; 4])
            elif i.get("k") == "Call" and re.search(r"Vec(::<.*>)?::(new|with_capacity)$", declared(i) or i.get("path") or ""):
                segs = []
            elif i.get("k") == "MethodCall" and i["method"] == "concat" and not i.get("args") and strip(i["recv"]).get("k") == "Array":
                segs = [seg(x) for x in strip(i["recv"]).get("elems", [])]      # `[a.as_slice(), b.as_slice()].concat()`
            if segs is None:
                continue
            bid = n["pat"]["id"]
            muts = [x for x in tir.walk(root) if x.get("k") == "MethodCall" and strip(x["recv"]).get("id") == bid and (x["recv"].get("aty") or "").startswith("&mut")]
            other = [x for x in tir.walk(root) if x.get("k") == "AddrOf" and x.get("mut") and strip(x["e"]).get("id") == bid]
            okm = True
            for x in muts:
                if x["method"] in ("write_all", "extend_from_slice", "extend") and len(x["args"]) == 1:
                    segs.append(seg(x["args"][0]))
                else:
                    okm = False
            app = [x for x in tir.walk(root) if x.get("k") == "Call" and (declared(x) or "") in helpers and any(strip(a).get("id") == bid or (strip(a).get("k") == "AddrOf" and strip(strip(a)["e"]).get("id") == bid) for a in x["args"])
                   and any(strip(a).get("k") == "Lit" and strip(a).get("v") == "gecko_codes.raw" for a in x["args"])]
            if okm and not other and len(segs) == 2 and segs[0][0] == "le" and segs[1][0] == "blob" and segs[0][1] == segs[1][1] and len(app) == 1:
                return True
    return False


def is_opts_compression(e, params):
    """Option<&Opts> -> the Option<Compression> it carries: map_or(None, |o| o.compression) / and_then(|o| o.compression)"""
    e = strip(e)
    if e.get("k") != "MethodCall" or e["method"] not in ("map_or", "and_then"):
        return False
    r = strip(e["recv"])
    if not (r.get("k") == "Path" and r.get("res") == "local" and "Opts" in (r.get("ty") or "") and r.get("id") in [p.get("id") for p in params]):
        return False
    if e["method"] == "map_or":
        d = strip(e["args"][0])
        if not (d.get("k") == "Path" and (d.get("path") or "").endswith("None")):
            return False
    cl = strip(e["args"][-1])
    if cl.get("k") != "Closure" or len(cl["params"]) != 1:
        return False
    b = strip(cl["body"])
    return b.get("k") == "Field" and b["name"] == "compression" and strip(b["base"]).get("id") == cl["params"][0].get("id")


def export_args_ok(wb):
    """frames exported as game.frames.into_struct_array(game.start.slippi.version, &port_occupancy(&game.start))"""
    root = wb["tir"]["value"]
    env = tir.LetEnv(root)
    g = wb["tir"]["params"][1].get("name")
    for c in tir.walk(root):
        if c.get("k") == "MethodCall" and c["method"] == "into_struct_array" and tir.place(c["recv"]) == g + ".frames" and len(c["args"]) == 2:
            v = env.place(c["args"][0], peel=False)
            p = env.resolve(c["args"][1])
            return v == g + ".start.slippi.version" and p.get("k") == "Call" and declared(p) == "game::port_occupancy" and tir.place(p["args"][0]) == g + ".start"
    return False


PINNED_SLPP_REFUSALS = 9


def slpp_refusals_rule(F, rep, rule="reader.no-new-refusal"):
    """every .slpp the writer produces must be read back: the reader's own refusals (constructions of the crate's InvalidData
    error in io::peppi::de) are the structural ones of the pinned tree — version too old, missing / duplicated / truncated
    Arrow batch, missing peppi.json / start / frames, metadata that is not a map. One more is a new way to reject an archive;
    whether it can hit a writer output cannot be established here, so it is reported (fail closed)."""
    n = 0
    sites = []
    for b in F.fn_bodies():
        if not b["path"].startswith("io::peppi::de"):
            continue
        for x in tir.walk(b["tir"]["value"]):
            if x.get("k") in ("Call", "Struct") and "Error::InvalidData" in (x.get("path") or declared(x) or ""):
                n += 1
                sites.append(tir.sp(x))
    rep.ob(rule, n <= PINNED_SLPP_REFUSALS, peppifmt.READ, "refusals",
           "cannot-establish: the .slpp reader constructs %d refusals, %d on the pinned tree (%s): a new refusal may reject archives the writer produces" % (n, PINNED_SLPP_REFUSALS, ", ".join(sites)),
           sample={"refusal_sites": sites})
    rep.floor("refusal sites in the .slpp reader", n, 6)


def single_batch_ok(wb):
    """the reader accepts exactly one record batch (`multiple batches` is an error): the writer must write the whole exported
    struct array as one chunk — one FileWriter::write call, outside any loop or closure, whose chunk is built from the
    into_struct_array value itself (not a slice of it), followed by finish()"""
    import safety
    root = wb["tir"]["value"]
    env = tir.LetEnv(root)
    writes = [c for c in tir.walk(root) if c.get("k") == "MethodCall" and c["method"] == "write" and (declared(c) or "").startswith("arrow2::io::ipc::write::FileWriter")]
    if len(writes) != 1:
        return False, "%d FileWriter::write calls" % len(writes)
    parents = safety.parents(root)
    y = writes[0]
    while id(y) in parents:
        y = parents[id(y)]
        if y.get("k") in ("For", "Loop", "Closure"):
            return False, "the write is inside a %s" % y["k"]
    chunk = env.resolve(writes[0]["args"][0], peel=True) if writes[0].get("args") else {}
    if not (chunk.get("k") == "Call" and (declared(chunk) or chunk.get("path") or "").endswith("Chunk::<A>::new") or (chunk.get("k") == "Call" and "Chunk" in (chunk.get("path") or "") and (chunk.get("path") or "").endswith("::new"))):
        return False, "the chunk is %s" % tir.pretty(chunk)[:60]
    srcs = [x for x in tir.walk(chunk) if x.get("k") == "Path" and x.get("res") == "local"]
    arrays = []
    for x in srcs:
        r = env.resolve(x, peel=True)
        arrays.append(r)
    whole = [r for r in arrays if r.get("k") == "MethodCall" and r["method"] == "into_struct_array"]
    if len(whole) != 1 or len(arrays) != 1:
        return False, "the chunk is not built from the exported struct array alone (%s)" % [tir.pretty(r)[:40] for r in arrays]
    if any(x.get("k") == "MethodCall" and x["method"] in ("sliced", "slice", "sliced_unchecked", "slice_unchecked") for x in tir.walk(chunk)):
        return False, "the chunk holds a slice of the exported array"
    fin = [c for c in tir.walk(root) if c.get("k") == "MethodCall" and c["method"] == "finish" and (declared(c) or "").startswith("arrow2::io::ipc::write::FileWriter")]
    return len(fin) == 1, "finish() called %d times" % len(fin)


def import_args_ok(F, arms):
    """frames.arrow is decoded with the version of the start block stored by the start.raw arm of the same loop"""
    fa, sa = arms.get("frames.arrow"), arms.get("start.raw")
    if fa is None or sa is None:
        return False
    slot = None
    for x in tir.walk(sa["body"]):
        if x.get("k") == "Assign":
            slot = strip(x["l"]).get("id")
    env = tir.LetEnv(fa["body"])
    for c in tir.walk(fa["body"]):
        if c.get("k") == "Call" and (declared(c) or "") == "io::peppi::de::read_arrow_frames" and len(c["args"]) == 2:
            v = env.resolve(c["args"][1], peel=True)
            # start.slippi.version with start := <slot>.as_ref()..?   or   <slot>.as_ref().map(|s| s.slippi.version)..?
            if v.get("k") == "Field" and v["name"] == "version" and strip(v["base"]).get("k") == "Field" and strip(v["base"])["name"] == "slippi":
                st = env.resolve(strip(v["base"])["base"], peel=True)
                return slot is not None and st.get("id") == slot
            if v.get("k") == "MethodCall" and v["method"] == "map":
                cl = strip(v["args"][0])
                st = env.resolve(v["recv"], peel=True)
                if cl.get("k") == "Closure" and len(cl["params"]) == 1:
                    b = strip(cl["body"])
                    okb = b.get("k") == "Field" and b["name"] == "version" and strip(b["base"]).get("k") == "Field" and strip(b["base"])["name"] == "slippi" and strip(strip(b["base"])["base"]).get("id") == cl["params"][0].get("id")
                    return okb and slot is not None and st.get("id") == slot
    return False


def compression_rule(F, rep):
    wb = F.body(peppifmt.WRITE)
    ok = False
    for n in tir.walk(wb["tir"]["value"]):
        if n.get("k") == "Struct" and (n.get("path") or "").endswith("WriteOptions"):
            env = tir.LetEnv(wb["tir"]["value"])
            for x in n["fields"]:
                if x["name"] == "compression":
                    ok = is_opts_compression(env.resolve(x["e"]), wb["tir"]["params"])
    rep.ob("compression.passed", ok, peppifmt.WRITE, "WriteOptions", "Opts.compression must reach WriteOptions.compression unmodified")
    G = reach.Graph(F)
    R = G.reachable([peppifmt.READ])
    bad = []
    for fn in R:
        b = F.body(fn)
        if b is None:
            continue
        for x in tir.walk(b["tir"]["value"]):
            if "Compression" in (x.get("ty") or "") and x.get("k") in ("Match", "If", "Path"):
                bad.append((fn, tir.sp(x)))
    rep.ob("compression.reader-agnostic", not bad, peppifmt.READ, "branches", "the reader branches on a compression value at %s (decompression must be selected by the IPC metadata inside arrow2)" % bad[:2])
    # the stream the reader parses is the stream the writer produced: same magic, one batch, one struct column
    rt = tir.pretty(F.body("io::peppi::de::read_arrow_frames")["tir"]["value"])
    raf = F.body("io::peppi::de::read_arrow_frames")
    ebs = [x for x in tir.walk(raf["tir"]["value"]) if x.get("k") == "Call" and (declared(x) or "") == "io::expect_bytes"]
    rep.ob("arrow.magic", len(ebs) >= 1 and F.bytes_of(ebs[0]["args"][1]) == [65, 82, 82, 79, 87, 49, 0, 0],
           "io::peppi::de::read_arrow_frames", "magic", "the Arrow entry must start with the file magic ARROW1\\0\\0 written by FileWriter")
    rep.ob("arrow.single-batch", "multiple batches" in "".join(str(x.get("v")) for x in tir.walk(F.body("io::peppi::de::read_arrow_frames")["tir"]["value"]) if x.get("k") == "Lit" and x.get("lit") == "str") or "Some(_) => return" in rt,
           "io::peppi::de::read_arrow_frames", "batches", "exactly one record batch is written and expected")
    wt = tir.pretty(wb["tir"]["value"])
    slpp_refusals_rule(F, rep)
    sb_ok, sb_why = single_batch_ok(wb)
    rep.ob("arrow.single-batch", sb_ok, peppifmt.WRITE, "batches", "the .slpp writer must emit the frames as exactly one record batch (the reader rejects a second one): %s" % sb_why)
    rep.ob("arrow.version", export_args_ok(wb), peppifmt.WRITE, "export-args",
           "frames must be exported with the game's own version and port occupancy")
    arms, m, loop = peppifmt.reader_arms(F)
    rep.ob("arrow.import-version", import_args_ok(F, arms), peppifmt.READ, "import-args",
           "frames must be imported with the version of the start block read from the same archive")


def depth_rule(F, rep):
    """metadata.json is parsed by serde_json, whose default recursion limit is 128 (one unit per nested object): the UBJSON reader
    must not accept deeper maps than that, or a replay it accepts cannot be read back from the .slpp"""
    import order
    import safety
    b = F.body("io::ubjson::de::to_val")
    bound = None
    if b is not None:
        par = safety.parents(b["tir"]["value"])
        for n in tir.walk(b["tir"]["value"]):
            if n.get("k") in ("Call", "MethodCall") and (callee(n) or "").startswith("io::ubjson::de::read_map"):
                # the guard `depth < CONST` (or its spellings) that bounds this recursive call
                for c in tir.walk(b["tir"]["value"]):
                    if c.get("k") == "Binary" and c.get("op") in ("Lt", "Le", "Gt", "Ge"):
                        for side in (c["l"], c["r"]):
                            try:
                                v = order.Evaluator(F).eval(side, {})
                            except L.Unsupported:
                                continue
                            if isinstance(v, int) and not isinstance(v, bool):
                                strict = c["op"] in ("Lt", "Gt")
                                bound = v if strict else v + 1      # depth may be at most bound - 1 when recursing
    # depth d recursion allowed for d < bound, entered with d + 1: the deepest value sits at depth `bound`; the top-level metadata map adds one object
    nesting = (bound + 1) if bound is not None else None
    rep.ob("metadata.depth-json", nesting is not None and nesting <= 127, "io::ubjson::de::to_val", "MAX_DEPTH",
           "the .slp reader accepts metadata maps nested %s deep, serde_json (metadata.json in the .slpp) stops at 127 nested objects: a replay accepted from .slp could not be read back from its .slpp" % nesting,
           sample={"max_object_nesting": nesting, "serde_json_limit": 127})


def run(F, rep, tier):
    G = reach.Graph(F)
    M = model.Model(F, rep, want=("with_capacity", "data_type", "into", "fromsa"))
    rep.floor("generated structs with arrow siblings", len([s for s in model.GEN if M.has(s, "into") and M.has(s, "fromsa")]), 11)
    model.rule_L4(rep, M)
    model.rule_L5(rep, M)
    # the exported schema carries, per version class, exactly the fields the .slp side reads and writes for that class:
    # a field gated later on the Arrow side than in the reader would be dropped by .slpp and missing when re-serialising
    from props import C14
    C14.schema_vs_table(rep, M)
    model.rule_gate_consistent(rep, M, sibs=("into",))
    containers.data_rule(F, rep)
    containers.portdata_rule(F, rep)
    containers.frame_rule(F, rep, M)
    containers.helpers_rule(F, rep)
    containers.port_tables(F, rep)
    entry_agreement(F, rep)
    C11.persistence_rule(F, G, rep)
    compression_rule(F, rep)
    depth_rule(F, rep)
    # clause 4: the .slp side of the trip (C01's core clauses, run here too so that a break on that side is reported under C02 as well)
    import emission
    from props import C04
    M1 = model.Model(F, rep, want=("with_capacity", "push_null", "read_push", "write", "size", "from"))
    model.rule_L1(rep, M1)
    model.rule_L2(rep, M1)
    model.rule_L7(rep, M1)
    model.rule_exact(rep, M1)
    model.rule_L3(rep, M1, sibs=("from",))
    emission.rule_emission(F, rep, M1)
    from props import C05 as _C05
    _C05.end_size_rule(F, rep)
    # the reader must accept every well-formed file: the block decoders refuse nothing the spec's value domains allow
    import model as _model
    _C05.end_rule(F, rep, _model.load_spec("start_spec.json"))
    _C05.no_extra_refusal_rule(F, rep)
    C04.structure_rules(F, G, rep, M1)
    # absent metadata stays absent through .slpp (null -> None, object -> Some(map), slot takes the Option unchanged)
    from props import C16
    C16.absence_rule(F, rep)
    # positive control: an entry renamed on one side must be reported
    ents = [e["name"] for e in peppifmt.writer_entries(F)]
    arms, m, loop = peppifmt.reader_arms(F)
    rep.control("entry agreement sees a missing reader arm", "start.json" in ents and "start.json" not in arms)
    rep.trusted += ["arrow2 IPC FileWriter/StreamReader round-trip arrays bit-exactly under every compression (LZ4/ZSTD are library code)", "tar round-trips entry bytes"]
    rep.not_decided.append("equality of Arrow IPC bytes through LZ4/ZSTD (library semantics, trusted); the .slp side is C01's clause set (checked under C01)")
    return rep.finish("other",
                      "data_type / into_struct_array / from_struct_array agree positionally for every generated struct, container, version class and follower configuration with validity bitmaps "
                      "passed through; every entry the writer emits has a reader arm with the same literal name and payload encoding (gecko blob u32-LE + bytes), conditionally written entries must "
                      "be optional in the reader and an unconditionally written Option must be readable as null; hash, quirks and the compression option are carried unmodified and the reader has "
                      "no compression-dependent branch.",
                      "./check C02 --tier " + tier)
