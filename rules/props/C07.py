"""C07 — a replay file cut short at any byte never yields a partial game, panic or hang (structural)."""
import flow
import layout as L
import peppifmt
import reach
import safety
import tir
from tir import strip, declared, callee

SLP_READ = "io::slippi::de::read"
SLP_ENTRIES = ["io::slippi::de::read", "io::slippi::de::parse_header", "io::slippi::de::parse_start", "io::slippi::de::parse_event", "io::slippi::de::parse_metadata"]
HR_READ = "<io::HashingReader<R> as std::io::Read>::read"
GREEDY = ("std::io::Read::read_to_end", "std::io::Read::read_to_string", "std::io::Read::bytes", "std::io::BufRead::")


def exact_length_rule(F, G, rep):
    R = G.reachable(SLP_ENTRIES)
    raw = set()
    greedy = []
    n_reads = 0
    for o in R:
        for bp, i, t in G.calls(o):
            fn = t.get("fn") or ""
            if fn == "std::io::Read::read":
                raw.add(o)
            if any(fn.startswith(g) for g in GREEDY):
                greedy.append((o, fn, reach.spstr(t.get("sp"))))
            if fn.startswith("byteorder::ReadBytesExt::read_") or fn == "std::io::Read::read_exact":
                n_reads += 1
    rep.floor("exact-length read call sites in the .slp reader", n_reads, 120)
    rep.ob("W.raw-read", raw <= {HR_READ}, "std::io::Read::read", "callers", "short-read-sensitive Read::read is called directly from %s (only the hashing wrapper may)" % sorted(raw - {HR_READ}))
    rep.ob("W.greedy-read", not greedy, "reader", "read_to_end", "the .slp reader reads to end-of-stream instead of an exact length: %s" % greedy[:3])
    return R


def error_discipline_rule(F, G, rep):
    """a short stream surfaces as the Err of an exact-length read; between that read and the public readers no construct
    may discard it (`.ok()`, `flat_map`/`flatten` over Results, `if let Ok`, `let _ =` ...)"""
    import errdrop
    inv = errdrop.Inventory(F, G)
    R = G.reachable(SLP_ENTRIES + ["io::peppi::de::read"])
    is_read = lambda c: c.startswith("byteorder::ReadBytesExt::read_") or c in ("std::io::Read::read_exact", "std::io::Read::read")
    readers = set(o for o in G.local if any(is_read(t.get("fn") or "") for _, _, t in G.calls(o)))
    n = 0
    for b in F.fn_bodies():
        if b["path"] not in R:
            continue
        for st in inv.sites(b):
            n += 1
            cone = inv.cone(st["operand"])
            bad = sorted(c for c in cone if c in readers or is_read(c))
            rep.ob("W.read-error-dropped", not bad, st["fn"], errdrop.site_key(st).split("|", 1)[1],
                   "%s discards the error of a value computed through a stream read (%s): a truncated stream would be accepted" % (st["what"], ", ".join(reach.short(x) for x in bad[:3])), st["sp"])
    rep.counts["error_drop_sites_in_readers"] = n
    rep.floor("functions performing exact-length reads", len(readers), 20)


def terminator_rule(F, G, rep):
    b = F.body(SLP_READ)
    val = L.strip_try(b["tir"]["value"])
    stmts = val.get("stmts", [])
    tail = L.strip_try(val.get("tail") or {})
    # (a) the only Ok(..) result is the tail expression
    oks = [n for n in tir.walk(val) if n.get("k") == "Call" and (declared(n) or "").endswith("::Ok") and "game::immutable::Game" in (n.get("ty") or "")]
    rep.ob("D.single-ok", len(oks) == 1 and oks[0] is tail, SLP_READ, "Ok", "read() must have a single Ok exit, the tail expression (found %d Ok(Game) constructions)" % len(oks))
    # (b) the tail after the raw element, as stream-token paths: 'U' + metadata + '}' | '}' | anything else is an error
    import slpterm
    term_line = None
    try:
        ok_t, detail = slpterm.check(F)
        ps = slpterm.terminator_paths(F) or []
        rep.ob("D.terminator", bool(ps), SLP_READ, "terminator", "read() must read one byte after the raw element and accept only 'U' (metadata) or '}'")
        if ps:
            have = set(ps)
            rep.ob("D.metadata-arm", any(p == slpterm.EXPECTED_META for p in have), SLP_READ, "0x55",
                   "after 'U' the reader must run parse_metadata(..)? and then expect_bytes(.., [0x7d])? unconditionally; " + detail)
            rep.ob("D.other-bytes", ((("u8", ("!=", (0x55, 0x7d))),), "err") in have and ok_t, SLP_READ, "default", "any byte other than 0x55 / 0x7d after the raw element must be an error; " + detail)
    except L.Unsupported as e:
        rep.cannot("D.terminator", SLP_READ, e)
    for n in tir.walk(val):
        if n.get("k") == "MethodCall" and n["method"] == "read_u8" and "HashingReader" in ((strip(n["recv"]).get("ty") or "")) and not any(
                y.get("k") in ("Loop", "For") and any(z is n for z in tir.walk(y)) for y in tir.walk(val)):
            term_line = n["sp"][1]
    term_i = term_line
    # MIR: every path to the Ok return passes the terminator's read_u8
    mir = [m for p, m, _ in G.bodies[SLP_READ] if p == SLP_READ][0]
    okb = []
    for i, blk in enumerate(mir["blocks"]):
        for s in blk["stmts"]:
            if s["lhs"]["l"] == 0 and s["r"].get("rv") == "agg" and s["r"]["kind"].startswith("adt:std::result::Result#0"):
                okb.append(i)
    rep.floor("Ok-return blocks in read()", len(okb), 1)
    if term_i is not None:
        line = term_line
        through = [i for i, t in flow.find_calls(mir, lambda c, t: c.startswith("byteorder::ReadBytesExt::read_u8")) if t["sp"][1] == line or (t.get("esp") or [0, 0])[1] == line]
        escaped = flow.must_pass(mir, through, okb) if through else okb
        rep.ob("D.must-pass", bool(through) and not escaped, SLP_READ, "must-pass", "a path reaches the Ok return without reading the terminator byte",
               sample={"ok_blocks": okb, "terminator_read_blocks": through})
    # event loop exits
    loops = [n for n in tir.walk(val) if n.get("k") == "Loop"]
    rep.floor("event loops in read()", len(loops), 1)
    for lp in loops:
        brk = [x for x in tir.walk(lp["body"]) if x.get("k") == "Break"]
        rets = [x for x in tir.walk(lp["body"]) if x.get("k") == "Ret"]
        par = safety.parents(lp["body"])
        okb_ = True
        n_user_breaks = 0
        for x in brk:
            p = par.get(id(x))
            # the desugared `else { break }` of while has the loop's own If as parent chain: skip it
            chain = []
            y = x
            while id(y) in par:
                y = par[id(y)]
                if y.get("k") == "If":
                    chain.append(tir.pretty(y["cond"])[:120])
            if len(chain) <= 1:
                continue
            n_user_breaks += 1
            okb_ = okb_ and "parse_event" in chain[0] and "GameEnd" in chain[0]
        rep.ob("D.loop-exits", okb_ and n_user_breaks <= 1 and not rets, SLP_READ, "event-loop",
               "the event loop may only be left when bytes_read reaches raw_len, on a Game End event, or by `?` (breaks: %d, returns: %d)" % (n_user_breaks, len(rets)))
    loop_bound_rule(F, rep)
    # skip block: no Ok exit, no break
    for n in tir.walk(val):
        if n.get("k") == "If" and "skip_frames" in tir.pretty(n["cond"]):
            bad = [x for x in tir.walk(n["then"]) if (x.get("k") == "Ret" and not (declared(strip(x.get("e") or {})) or "").endswith("::Err")) or x.get("k") == "Break"]
            rep.ob("D.skip-no-exit", not bad, SLP_READ, "skip-block", "the skip-frames block must fall through into the common event loop / terminator tail")


def slpp_rule(F, G, rep):
    R = G.reachable([peppifmt.READ])
    rep.counts["slpp_reachable_fns"] = len(R)
    safety.blocking_rule(F, G, rep, R)
    # loops driven by library iterators: every item is `?`-propagated and no arm waits/continues
    n = 0
    for fn in sorted(R):
        b = F.body(fn)
        if b is None:
            continue
        for lp in tir.walk(b["tir"]["value"]):
            if lp.get("k") == "For" and any(x in (lp["iter"].get("ty") or "") for x in safety.READER_ITERS):
                n += 1
                var = lp["pat"].get("name")
                tried = any(x.get("k") == "Try" and L.local_name(x["e"]) == var for x in tir.walk(lp["body"]))
                conts = [x for x in tir.walk(lp["body"]) if x.get("k") == "Continue"]
                rep.ob("T.reader-iterator", tried and not conts, fn, "for", "%s: items of the stream iterator must be `?`-propagated and no arm may continue without consuming" % tir.sp(lp), tir.sp(lp),
                       sample={"fn": fn, "iterator": lp["iter"].get("ty")})
            elif lp.get("k") == "Loop":
                n += 1
                cons = safety.Consume(F, G)
                cons.in_loop = True
                rep.ob("T.loop", cons.must(lp["body"]), fn, "loop", "%s: loop in the .slpp reader does not consume input on every iteration" % tir.sp(lp), tir.sp(lp))
    rep.floor("stream-driven loops in the .slpp reader", n, 1)      # 2 on the pinned tree (entries, record batches); either may be an iterator adaptor
    game = peppifmt.final_game(F)
    for slot in ("start", "frames"):
        rep.ob("D.slot-required", slot in game and peppifmt.slot_required(game[slot]), peppifmt.READ, slot, "Ok must require the `%s` entry (a cut archive must not yield a partial game)" % slot)
    b = F.body(peppifmt.READ)
    req = any(n.get("k") == "Try" and strip(n["e"]).get("k") == "MethodCall" and strip(n["e"])["method"] in ("ok_or", "ok_or_else") and tir.place(strip(n["e"])["recv"]) == "peppi" for n in tir.walk(b["tir"]["value"]))
    rep.ob("D.slot-required", req, peppifmt.READ, "peppi", "Ok must require the peppi.json entry")
    # a cut inside frames.arrow on an IPC message boundary shows up only as StreamState::Waiting (arrow2 never ends the stream
    # there, tar::Entry ends silently): every match over a StreamState must turn Waiting into an error — dropping or skipping
    # it (a wildcard arm yielding None / continue) polls the exhausted stream forever
    import errdrop
    n_ss = 0
    for o in sorted(R):
        bb = F.body(o)
        if bb is None or not o.startswith("io::peppi::"):
            continue
        for m in tir.walk(bb["tir"]["value"]):
            if m.get("k") != "Match" or "StreamState" not in (m["scrut"].get("ty") or ""):
                continue
            n_ss += 1
            for a in m["arms"]:
                pats = a["pat"]["pats"] if a["pat"].get("k") == "Or" else [a["pat"]]
                covers = False
                for q in pats:
                    txt = tir.pat(q)
                    leaves = [x for x in tir.walk_pat(q)] if hasattr(tir, "walk_pat") else None
                    if "Waiting" in txt:
                        covers = True
                    # a wildcard / binding where the StreamState sits (the whole pattern, or the payload of Ok(..))
                    qq = q
                    while qq.get("k") == "Ref":
                        qq = qq["pat"]
                    if qq.get("k") in ("Wild", "Bind") and not qq.get("sub"):
                        covers = True
                    if qq.get("k") == "TupleStruct" and (qq.get("path") or "").endswith("::Ok") and len(qq.get("pats", [])) == 1 and qq["pats"][0].get("k") in ("Wild", "Bind"):
                        covers = True
                if covers:
                    rep.ob("D.arrow-waiting", errdrop.error_valued(a["body"]), o, "Waiting", "%s: an exhausted Arrow stream (StreamState::Waiting) must be an error; this arm does not return one" % tir.sp(a["body"]), tir.sp(a["body"]))
    rep.floor("matches over arrow2 StreamState in the .slpp reader", n_ss, 1)
    # a cut inside a raw / json entry hands the entry readers a *short* stream (tar::Entry ends silently): every panic-capable
    # site in the hand-written entry readers (everything in io::peppi::de except the Arrow batch handling, whose input arrow2
    # has validated) must be impossible by range reasoning — an index, split or unwrap on the bytes read is a panic on a cut
    import panics
    ctx = panics.Ctx(F, G)
    sidx = safety.span_index(F, R)
    n_entry = 0
    for o in sorted(R):
        if not o.startswith("io::peppi::de") or o.endswith("read_arrow_frames"):
            continue
        for st in G.sites(o):
            n_entry += 1
            why = panics.discharge_R(ctx, st) or safety.discharge_tir(F, ctx, o, st, sidx)
            rep.ob("P.slpp-entry", bool(why), o, "%s:%s" % (st["kind"], reach.short(st["what"].split(" -> ")[0])),
                   "%s: %s (%s) can panic on a truncated entry; reachable from %s" % (reach.spstr(st["sp"]), st["kind"], reach.short(st["what"]), o), reach.spstr(st["sp"]))
    rep.counts["slpp_entry_reader_sites"] = n_entry
    # panic sites reachable from the .slpp reader that a *corrupted* (not truncated) archive could trigger: informational
    sites = sum(len(G.sites(o)) for o in R if "from_struct_array" in o or o.endswith("read_arrow_frames"))
    rep.note("%d assert/unwrap/expect/index sites in peppi::de + from_struct_array are reachable only from a corrupted archive (a truncated entry gives arrow2 a short body, which its length validation rejects before any batch is produced — library behaviour, listed as an assumption); they are outside this property's quantifier" % sites)
    rep.counts["slpp_panic_sites_informational"] = sites


def loop_bound_rule(F, rep, rule="D.loop-bound"):
    """the event loop of read() runs exactly while events remain inside the raw element: `raw_len == 0 || bytes_read < raw_len`
    (raw_len 0 = length unknown, ended by Game End). With `<=` a replay without Game End has one more "event" parsed out of the
    bytes that follow the raw element; with a smaller bound the last event is left unread."""
    b = F.body(SLP_READ)
    root = b["tir"]["value"]
    loops = [n for n in tir.walk(root) if n.get("k") == "Loop" and any(x.get("k") == "Call" and (declared(x) or "").endswith("parse_event") for x in tir.walk(n["body"]))]
    rep.floor("event loops calling parse_event", len(loops), 1)
    for lp in loops:
        cond = None
        body = lp["body"]
        while body.get("k") == "Block" and not body.get("stmts") and body.get("tail") is not None:
            body = body["tail"]
        first = body if body.get("k") == "If" else ((body.get("stmts") or [{}])[0].get("e") if body.get("k") == "Block" and body.get("stmts") else (body.get("tail") if body.get("k") == "Block" else None))
        negate = False
        if isinstance(first, dict) and first.get("k") == "If" and first.get("else") is not None and any(x.get("k") == "Break" for x in tir.walk(first["else"])):
            cond = first["cond"]
        elif isinstance(first, dict) and first.get("k") == "If" and first.get("else") is None:
            # `loop { if EXIT { break; } .. }`: the loop runs while !EXIT
            tb = first["then"]
            only = [s_ for s_ in (tb.get("stmts", []) if tb.get("k") == "Block" else [])] + ([tb.get("tail")] if tb.get("k") == "Block" and tb.get("tail") is not None else [])
            if len(only) == 1 and strip(only[0].get("e") if only[0].get("k") == "Expr" else only[0]).get("k") == "Break":
                cond = first["cond"]
                negate = True
        atoms = set()
        ok = [cond is not None]

        def disj(c, neg):
            c = strip(c)
            while c.get("k") == "Unary" and c.get("op") == "Not":
                neg = not neg
                c = strip(c["e"])
            if c.get("k") == "Binary" and c.get("op") in ("Or", "And"):
                if (c["op"] == "Or") != neg:
                    disj(c["l"], neg)
                    disj(c["r"], neg)
                else:
                    ok[0] = False
                return
            if c.get("k") != "Binary":
                ok[0] = False
                return
            op = c["op"]
            if neg:
                op = {"Eq": "Ne", "Ne": "Eq", "Lt": "Ge", "Ge": "Lt", "Gt": "Le", "Le": "Gt"}.get(op, "?")
            l = tir.place(strip(c["l"])) or (tir.lit_int(c["l"]) if tir.lit_int(c["l"]) is not None else "?")
            r = tir.place(strip(c["r"])) or (tir.lit_int(c["r"]) if tir.lit_int(c["r"]) is not None else "?")
            if op == "Gt":
                op, l, r = "Lt", r, l
            if op == "Eq" and l == 0:
                l, r = r, l
            atoms.add((op, str(l).split(".")[-1], str(r).split(".")[-1]))
        if cond is not None:
            disj(cond, negate)
        ok = ok[0]
        want = {("Eq", "raw_len", "0"), ("Lt", "bytes_read", "raw_len")}
        rep.ob(rule, ok and atoms == want, SLP_READ, "event-loop", "the event loop must run exactly while `raw_len == 0 || bytes_read < raw_len`; its condition is %s" % sorted(atoms),
               tir.sp(lp), sample={"condition": sorted(atoms)})


def run(F, rep, tier):
    G = reach.Graph(F)
    exact_length_rule(F, G, rep)
    error_discipline_rule(F, G, rep)
    # a bounded or buffered adapter over the stream changes where end-of-stream is seen
    import streamid
    streamid.slp_rule(F, rep, 'W.stream')
    terminator_rule(F, G, rep)
    slpp_rule(F, G, rep)
    # "never a panic": the reader's panic inventory (shared with C06) — a cut moves the stream end, not the code paths
    import model
    import safety
    from props import C06
    M = model.Model(F, rep, want=("with_capacity", "push_null", "read_push"))
    gate_ok = safety.gate_consistency_table(F, rep, M)
    safety.panic_inventory(F, G, rep, C06.ENTRIES, "c06_invariants.json", M=M, gate_ok=gate_ok)
    # positive control for must-pass: removing nothing must leave the Ok block reachable
    mir = [m for p, m, _ in G.bodies[SLP_READ] if p == SLP_READ][0]
    okb = [i for i, blk in enumerate(mir["blocks"]) for s in blk["stmts"] if s["lhs"]["l"] == 0 and s["r"].get("rv") == "agg" and s["r"]["kind"].startswith("adt:std::result::Result#0")]
    rep.control("must-pass reports the Ok block when no block is required", bool(flow.must_pass(mir, [], okb)))
    rep.trusted += ["byteorder read_* and Read::read_exact return UnexpectedEof on a short stream", "tar::Entries / arrow2 StreamReader consume input or end on every next() (library contract)",
                    "arrow2 rejects a record batch whose body is shorter than its declared length"]
    rep.assumptions += ["a proper prefix of a finished .slp does not contain, after its declared raw bytes, the closing brace the reader requires"]
    rep.not_decided.append("that every proper prefix of every well-formed file is rejected (depends on where the cut falls relative to lengths the file itself declares)")
    return rep.finish("other",
                      "In the .slp reader only the hashing wrapper calls Read::read and nothing reads to end-of-stream; read() has a single Ok exit, and in the MIR every path to it passes the "
                      "success edge of the one-byte terminator read, whose 'U' arm additionally runs parse_metadata(..)? and expect_bytes([0x7d])?; the event loop can only be left through "
                      "its length condition, a Game End event or `?`; the skip block falls through into the same tail. For .slpp no blocking call is reachable, stream-driven loops propagate "
                      "every item with `?`, and Ok requires the start, frames and peppi slots.",
                      "./check C07 --tier " + tier)
