"""Regenerate MANIFEST.json from the per-property table below (keeps the file valid at all times)."""
import json
import os

VERIF = os.path.dirname(os.path.dirname(os.path.abspath(__file__)))

CHECKS = {
    "C03": ("proof", "E2 layout gate trees flattened over 25 version classes vs. spec offsets + E5 ordering-domain decision of Version::gte",
            "Every (struct, version class) layout obligation is discharged from the type-checked program against the Slippi offset table; exhaustive over versions <= 3.16 and all bit patterns (a fixed-width big-endian load is value-independent).",
            "rustc type checking; byteorder read_* semantics; spec/frames_spec.json transcribes SPEC.md; versions > 3.16 outside the oracle", "3 C03"),
    "C09": ("other", "E5 ordering-domain decision of assert_max_version + MIR success-edge dominance of the guard in both writers + who-may-call",
            "Proof-shaped: predicate decided for all 2^24 versions by the small-model argument, guard dominates every call of both writers, no other version-dependent refusal. Reported as `other` while known finding F1 (version-dependent crash of the .slpp writer for 3.0-3.6) is outstanding.",
            "derived PartialOrd is lexicographic; MIR CFG of the pinned nightly", "3 C09"),
    "C13": ("proof", "E2 identity-wiring rule (L3) over both transpose_one families, containers and Game::frame forwarders",
            "Every row-struct field (from the item table) is wired to the same-named column at the unmodified row index; sufficient modulo arrow2 values()/start_end semantics.",
            "arrow2 values()[i], value(i), start_end(i) semantics", "3 C13"),
    "C20": ("proof", "E5 ordering-domain evaluation of gte/lt; E6 decoding of the lowered format template; dataflow shape rule for FromStr",
            "gte/lt decided for all 2^16 x 2^16 by representatives of every order type; Display template decoded; FromStr accept/reject shape checked; both Version types compared.",
            "u8 Display/FromStr inverse (std); core::fmt template encoding of the pinned nightly", "3 C20"),
}

CHECKS["C06"] = ("other", "E3 MIR call-graph reachability + panic/abort inventory with discharge classes R (intervals, constants, dominating comparisons), G (layout gate consistency), I (frozen invariant table); recursion depth, loop termination classes, error-propagation and no-blocking rules",
                 "Every panic-capable site, call-graph cycle, loop and io::Result in the reader's reachable set is enumerated and must be discharged by a checked rule; covers all byte strings and option combinations at once. Structural: external callees are trusted not to panic outside the listed contracts.",
                 "byteorder/arrow2/encoding_rs/serde_json callees outside the panic-by-contract table do not panic; the caller's Read/Seek impl does not panic; allocation failure is out of scope", "3 C06")
CHECKS["C14"] = ("other", "E2 schema gate trees vs gen/resources/frames.json per version class; positional import/export agreement (L4); non-empty struct rule (L5)",
                 "Schema half is proof-shaped (every struct x version class compared with the field table); values/validity/import decided structurally by positional agreement. Reported as `other`; known finding F1 (field-less End struct for 3.0-3.6) is outstanding.",
                 "arrow2 StructArray::new/into_data order and length semantics; frames.json is the table the statement names", "3 C14")

CHECKS["C11"] = ("other", "dataflow rule on HashingReader::read (hashed slice = buf[..n] of the inner read), who-may-call (Xxh3::update, raw Read::read), control dependence of the seek on the hash flag, E6 decoding of the digest format template",
                 "Structural; proof modulo xxhash-rust: the digest covers exactly the bytes returned by the inner reader, for every fragmentation, because the wrapper is the only raw reader and hashes exactly what it returns.",
                 "xxhash-rust implements XXH3-64; std read_exact/io::copy tolerate short reads; ownership forbids reads after into_digest", "3 C11")
CHECKS["C16"] = ("other", "E6 grammar-table agreement between the UBJSON reader's literal match arms/reads and the writer's emitted token sequences; resolved representation of serde_json::Map (IndexMap) from the type-checked program",
                 "Structural: marker bytes, widths, endianness, nesting discipline, top-level key bytes and ordering containers agree on both sides; byte equality for all trees is not decided.",
                 "serde_json preserve_order semantics; String::from_utf8/Display are byte-preserving", "3 C16")
CHECKS["C18"] = ("other", "ordered-effects rule over the writer's tar_append sites with their guards; const-table comparison of FILE_SIGNATURE; who-may-call determinism rule; reader dispatch shape; E5 decision of assert_current_version",
                 "Structural: entry order and presence guards, signature, same-source JSON/raw pairs, determinism of the writer's reachable set, reader tolerance of unknown entries and version rejection are decided from the program's shape.",
                 "tar::Builder::append order; serde_json determinism; Header::new_gnu zero-initialised", "3 C18")
CHECKS["C19"] = ("other", "who-may-call/decoder-choice rule, dataflow rule for the NUL truncation slice, E6 extraction of fix_char's match as (interval, affine map) rows compared code point by code point with the specified table",
                 "Structural: decoder variant, truncation point, whole-field slicing and the normalisation table (incl. idempotence and scalar closure by interval arithmetic) are decided; Shift-JIS tables are encoding_rs's.",
                 "encoding_rs Shift-JIS correctness; Iterator::position semantics", "3 C19")

CHECKS["C07"] = ("other", "who-may-call (raw Read::read, read_to_end), MIR must-pass-through of the terminator read on every path to the Ok return, structured exit rules for the event loop and skip block, no-blocking and required-slot rules for the .slpp reader",
                 "Structural: Ok requires the closing brace to have been read, nothing in the reader is short-read sensitive or waits; that every prefix of every file is rejected depends on lengths the file declares and is not decided.",
                 "byteorder/read_exact return UnexpectedEof on short input; tar/arrow2 iterators consume or end; arrow2 validates batch body lengths", "3 C07")
CHECKS["C08"] = ("other", "dataflow rule for the payload buffer size source, effect analysis of parse_event outside the known-event arms, cursor-usage rule for prefix readers, threshold rule for monotone version gates (+E5), length-equality trigger rule",
                 "Structural necessary conditions: sizes come from the file's table only, the unknown-event path writes nothing but counters, readers never inspect remaining length, every gate is a literal gte/lt threshold <= 3.16.",
                 "slice cursor semantics of byteorder on &mut &[u8]", "3 C08")
CHECKS["C10"] = ("other", "structured single-tail rule for the skip block, linear-expression normalisation of the three advance sites, constructor-argument agreement for the zero-frame columns, writer/reader optionality agreement",
                 "Structural, weak: both modes share parse_start, event loop and terminator tail; the advance is one value equal to raw_len - bytes_read - (1 + table[GameEnd]); known finding F3 (zero-frame .slpp cannot be re-read) is outstanding.",
                 "io::copy(take(n)) and seek(Current(n)) advance by n", "3 C10")
CHECKS["C12"] = ("other", "call-graph rule (one-shot reader built from the four incremental functions, frozen set of extra state writers), who-may-call raw Read::read, linear byte-accounting agreement, push-only rule for the frame-id column",
                 "Structural: the two APIs run the same code, nothing is short-read sensitive, bytes consumed equal bytes accounted as linear expressions, the frame count is monotone.",
                 "byteorder/read_exact consume exactly their width/buffer length on success", "3 C12")

CHECKS["C01"] = ("other", "E2 sibling agreement of reader/writer/size gate trees over 25 version classes; symbolic emission/size polynomial agreement between the writer's byte count and PayloadSizes::raw_size; frame-bracketing typestate per version class; raw-block capture and splitter rules",
                 "Structural necessary clauses: any single-site break of field order/width/endianness/gate, of the declared raw length, of the emitted-vs-declared event table or of frame bracketing is reported for every version at once; round-trip equality as such is not decided.",
                 "byteorder read/write inverse on all bit patterns; arrow2 stores values bit-exactly; gecko blob is a whole number of 512-byte blocks", "3 C01")
CHECKS["C02"] = ("other", "E2 positional import/export agreement (L4/L5) for all structs and containers; writer-entry/reader-arm agreement incl. optionality and null handling; carried-field dataflow (hash, quirks, compression)",
                 "Structural; known findings F1 (3.0-3.6 export panics) and F3 (zero-frame .slpp unreadable) outstanding. Arrow IPC/LZ4/ZSTD byte equality is library semantics.",
                 "arrow2 IPC round-trips arrays under every compression; tar round-trips entries", "3 C02")
CHECKS["C04"] = ("other", "E2 column balance; path-sensitive frame-bracketing typestate over version classes; dataflow rules for the port table, padding loop, presence bit and item offsets; who-may-call rule for the event readers",
                 "Structural necessary clauses that keep columns aligned; the dynamic behaviour of the state machine over unbounded histories is not decided.",
                 "arrow2 push appends exactly one element", "3 C04")
CHECKS["C05"] = ("other", "cursor-program interpretation of game_start/player/game_end into (offset, width, type, destination, tail) segments compared with the spec table; derived-Serialize body analysis for JSON omission",
                 "Offsets half is proof-shaped (every mapped field, gap and length class compared with the spec); JSON half decides which fields are rendered/omitted, not serde's value rendering.",
                 "byteorder big-endian reads; serde derive renders values faithfully; spec/start_spec.json transcribes SPEC.md", "3 C05")
CHECKS["C17"] = ("other", "symbolic polynomial agreement between emitted bytes and declared raw length; table-vs-emission agreement per version class; canonical emission order; unknown-path effect analysis",
                 "Structural: declared length = emitted length for every version class and presence combination, the reader accepts every event the writer emits, dropped content is never stored.",
                 "byteorder writes emit their width; gecko blob is a whole number of blocks", "3 C17")

PENDING = {}

NOT_APPLICABLE = {
    "C15": "Functional correctness of a single-pass algorithm with a seen-set over arbitrary id sequences: needs a loop invariant (deduction) or execution; no structural clause exists that is both necessary and independent of this implementation's spelling (DESIGN.md 3/C15).",
}

ALL = ["C%02d" % i for i in range(1, 21)]


def main():
    checks = []
    for pid in sorted(CHECKS):
        cat, tech, text, note, ref = CHECKS[pid]
        checks.append({
            "property_id": pid,
            "quick_cmd": "./check %s --tier quick" % pid,
            "thorough_cmd": "./check %s --tier thorough" % pid,
            "evidence_file": "/verif/evidence/%s.json" % pid,
            "replay_cmd_template": "cat {path}",
            "engine": "peppi-facts driver + rules/props/%s.py" % pid,
            "level_claimed": {"category": cat, "text": text, "design_ref": "DESIGN.md section " + ref},
            "level_note": note,
            "technique": "static analysis: " + tech,
        })
    na = [{"property_id": k, "reason": v} for k, v in sorted(NOT_APPLICABLE.items())]
    for pid in ALL:
        if pid not in CHECKS and pid not in NOT_APPLICABLE:
            na.append({"property_id": pid, "reason": PENDING.get(pid, "static check for this property is still under construction in this round; not claimed until its rules run clean on the unchanged tree")})
    m = {
        "version": 1,
        "setup_cmd": "cd /verif/driver && CARGO_NET_OFFLINE=true cargo build --release --offline && cd /verif && python3 rules/facts.py",
        "hooks": {"guard": "peppi_verif", "enable": "none needed: the analysis reads the ordinary build (RUSTFLAGS='--cfg peppi_verif' would be the guard)",
                  "baseline_off_cmd": "cd /repo && cargo test --workspace --no-fail-fast --offline", "source_commits": [], "add_only": True},
        "engines": [
            {"name": "peppi-facts", "path": "driver/", "serves_properties": sorted(CHECKS), "kind_free_text": "rustc_private driver: items, typed HIR trees, MIR CFG/calls/asserts as JSON (E1)"},
            {"name": "layout", "path": "rules/layout.py rules/model.py", "serves_properties": ["C01", "C02", "C03", "C04", "C08", "C13", "C14", "C17"], "kind_free_text": "gate trees over version classes (E2)"},
            {"name": "reach/flow", "path": "rules/reach.py rules/flow.py", "serves_properties": ["C06", "C07", "C08", "C09", "C11", "C12", "C18"], "kind_free_text": "MIR call graph reachability, panic inventory, dominance (E3/E4)"},
            {"name": "order", "path": "rules/order.py", "serves_properties": ["C09", "C18", "C20"], "kind_free_text": "ordering-domain decision of comparison predicates (E5)"},
            {"name": "tables", "path": "rules/fmtspec.py", "serves_properties": ["C05", "C11", "C16", "C18", "C19", "C20"], "kind_free_text": "constant/tabular agreement (E6)"},
        ],
        "checks": checks,
        "not_applicable": na,
        "notes": "All checks are static: they read /repo's current working tree through a rustc_private driver (cached per source hash) and never execute peppi. Exit 2 = checker broken (positive control failed / extraction failed), distinct from a violation.",
    }
    with open(os.path.join(VERIF, "MANIFEST.json"), "w") as fh:
        json.dump(m, fh, indent=1)
    print("MANIFEST.json: %d checks, %d not_applicable" % (len(checks), len(na)))


if __name__ == "__main__":
    main()
