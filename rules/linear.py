"""Linear-expression normalisation over the typed tree: e -> {symbol: coeff, '': constant}."""
import tir
from tir import strip, declared


class NonLinear(Exception):
    pass


def add(a, b, s=1):
    r = dict(a)
    for k, v in b.items():
        r[k] = r.get(k, 0) + s * v
        if r[k] == 0 and k != "":
            del r[k]
    return r


def scale(a, c):
    return {k: v * c for k, v in a.items()}


def lin(e, env=None):
    """env: local name -> linear form (substituted); unknown locals/places become symbols"""
    env = env or {}
    e = strip(e)
    k = e.get("k")
    while True:
        if k == "Cast" or (k == "MethodCall" and e.get("method") in ("into", "try_into", "unwrap", "expect", "clone") and (not e.get("args") or e.get("method") == "expect")):
            e = strip(e["e"] if k == "Cast" else e["recv"])
        elif k == "Call" and len(e.get("args", [])) == 1 and (declared(e) or "").endswith(("TryFrom::try_from", "From::from")):
            e = strip(e["args"][0])     # value-preserving integer conversion (a failing try_from never yields a value)
        else:
            break
        k = e.get("k")
    v = tir.lit_int(e)
    if v is not None and k in ("Lit", "Unary"):
        return {"": v}
    if k == "Path" and e.get("res") == "local":
        if e["name"] in env:
            return dict(env[e["name"]])
        return {e["name"]: 1, "": 0}
    if k == "Binary" and e.get("op") in ("Add", "Sub"):
        return add(lin(e["l"], env), lin(e["r"], env), 1 if e["op"] == "Add" else -1)
    if k == "Binary" and e.get("op") == "Mul":
        l, r = lin(e["l"], env), lin(e["r"], env)
        if set(l) <= {""}:
            return scale(r, l.get("", 0))
        if set(r) <= {""}:
            return scale(l, r.get("", 0))
        raise NonLinear(tir.pretty(e))
    if k == "Block" and not e.get("stmts") and e.get("tail"):
        return lin(e["tail"], env)
    p = tir.place(e)
    if p:
        return {p: 1, "": 0}
    if k == "MethodCall" and e.get("method") in ("len", "get"):
        return {tir.pretty(e)[:60]: 1, "": 0}
    raise NonLinear(tir.pretty(e)[:80])


def norm(a):
    return {k: v for k, v in a.items() if v != 0 or k == ""} | ({"": a.get("", 0)})


def eq(a, b):
    a, b = norm(a), norm(b)
    return {k: v for k, v in a.items() if v} == {k: v for k, v in b.items() if v}


def show(a):
    parts = []
    for k, v in sorted(a.items()):
        if v == 0:
            continue
        parts.append(("%d" % v) if k == "" else (k if v == 1 else "%d*%s" % (v, k)))
    return " + ".join(parts) or "0"
