"""Re-run the checks against every kept seeded change without touching /repo: each patch is applied to a scratch copy of
HEAD's tree. Usage: seeded_recheck.py [--only substr] [--jobs N] [--all-checks] [--update]"""
import glob
import json
import os
import shutil
import subprocess
import sys
import tempfile
from concurrent.futures import ThreadPoolExecutor

VERIF = os.path.dirname(os.path.dirname(os.path.abspath(__file__)))
REPO = "/repo"


def run_one(args):
    d, all_checks = args
    meta = json.load(open(os.path.join(d, "meta.json")))
    pid = meta["property"]
    scratch = tempfile.mkdtemp(prefix="peppi-seed-")
    try:
        tar = subprocess.Popen(["git", "-C", REPO, "archive", "HEAD"], stdout=subprocess.PIPE)
        subprocess.check_call(["tar", "-x", "-C", scratch], stdin=tar.stdout)
        tar.wait()
        r = subprocess.run(["patch", "-p1", "--no-backup-if-mismatch", "-s", "-d", scratch, "-i", os.path.join(d, "patch.diff")], capture_output=True, text=True)
        if r.returncode != 0:
            return d, meta, {"_patch": (9, [], r.stdout + r.stderr)}
        evid = os.path.join(scratch, "_evid")
        os.makedirs(evid)
        env = dict(os.environ, PEPPI_REPO=scratch, PEPPI_EVID=evid)
        man = json.load(open(os.path.join(VERIF, "MANIFEST.json")))
        out = {}
        for c in man["checks"]:
            p = c["property_id"]
            if not all_checks and p != pid:
                continue
            x = subprocess.run([os.path.join(VERIF, "check"), p, "--tier", "quick"], env=env, capture_output=True, text=True, cwd=VERIF)
            if x.returncode != 0:
                rules = sorted(set(l.strip().split(":")[0] for l in x.stdout.splitlines() if l.startswith("  ") and ":" in l))
                first = next((l.strip() for l in x.stdout.splitlines() if l.startswith("  ")), "")
                out[p] = (x.returncode, rules, first[:300])
        return d, meta, out
    finally:
        shutil.rmtree(scratch, ignore_errors=True)


def main():
    a = sys.argv[1:]
    only = a[a.index("--only") + 1] if "--only" in a else None
    jobs = int(a[a.index("--jobs") + 1]) if "--jobs" in a else 6
    allc = "--all-checks" in a
    upd = "--update" in a
    ds = sorted(d for d in glob.glob(os.path.join(VERIF, "seeded", "*")) if os.path.exists(os.path.join(d, "meta.json")) and (not only or only in os.path.basename(d)))
    missed = 0
    with ThreadPoolExecutor(max_workers=jobs) as ex:
        for d, meta, out in ex.map(run_one, [(d, allc) for d in ds]):
            pid = meta["property"]
            own = pid in out and out[pid][0] == 1
            if not own:
                missed += 1
            print("SEED %-6s %s: %s %s" % (os.path.basename(d), pid, "caught" if own else "MISSED (rc=%s)" % (out.get(pid, (0,))[0]), out.get(pid, (0, [], ""))[1]))
            if upd:
                meta["caught_by"] = {p: {"exit": v[0], "rules": v[1], "first": v[2]} for p, v in out.items() if v[0] == 1} if allc else dict(
                    meta.get("caught_by", {}), **{p: {"exit": v[0], "rules": v[1], "first": v[2]} for p, v in out.items() if v[0] == 1})
                if not allc and pid not in out:
                    meta["caught_by"].pop(pid, None)
                meta["caught_by_own_property"] = own
                json.dump(meta, open(os.path.join(d, "meta.json"), "w"), indent=1)
    print("seeded: %d changes, %d not reported by their own property's check" % (len(ds), missed))
    return 1 if missed else 0


if __name__ == "__main__":
    sys.exit(main())
