"""Create a seeded-defect patch: mkmut.make(name, [(file, old, new), ...]) -> mutants/<name>.patch (relative to /repo HEAD tree)."""
import os
import shutil
import subprocess
import tempfile

VERIF = os.path.dirname(os.path.dirname(os.path.abspath(__file__)))
REPO = "/repo"


def make(name, edits, count=1):
    d = tempfile.mkdtemp(prefix="peppi-mk-")
    try:
        a, b = os.path.join(d, "a"), os.path.join(d, "b")
        for x in (a, b):
            subprocess.check_call(["rsync", "-a", "--exclude", "target", "--exclude", ".git", REPO + "/", x + "/"])
        for f, old, new in edits:
            p = os.path.join(b, f)
            s = open(p).read()
            if s.count(old) < 1:
                raise SystemExit("mutant %s: anchor not found in %s: %r" % (name, f, old[:60]))
            s = s.replace(old, new, count)
            open(p, "w").write(s)
        r = subprocess.run(["diff", "-ru", "a", "b"], cwd=d, capture_output=True, text=True)
        out = os.path.join(VERIF, "mutants", name + ".patch")
        open(out, "w").write(r.stdout)
        return out
    finally:
        shutil.rmtree(d, ignore_errors=True)
