"""Cursor-program interpreter (C05): the straight-line read sequence of a slice decoder as a list of
segments (offset, length, type, destination tag, optional-tail index)."""
import re

import layout as L
import tir
from layout import Unsupported
from tir import strip, declared, callee

W = {"read_u8": ("u8", 1), "read_i8": ("i8", 1), "read_u16": ("u16", 2), "read_i16": ("i16", 2), "read_u32": ("u32", 4), "read_i32": ("i32", 4), "read_f32": ("f32", 4), "read_u64": ("u64", 8)}


class Prog:
    def __init__(self, F, fn, cursor_param=None):
        self.F = F
        self.fn = fn
        b = F.body(fn)
        if b is None:
            raise Unsupported({}, "%s not found" % fn)
        self.body = b
        self.segs = []
        self.off = 0
        self.tails = 0
        self.cur_ids = set()
        for p in b["tir"]["params"]:
            if (p.get("ty") or "") == "&mut &[u8]" or p.get("name") == cursor_param:
                self.cur_ids.add(p["id"])
        self.arrays = {}     # local array name -> length
        self.locals = {}     # let name -> tag

    def is_cursor(self, e):
        e = strip(e)
        return e.get("k") == "Path" and e.get("res") == "local" and e.get("id") in self.cur_ids

    def cursor_over(self, base_name):
        """use the local `let mut r = &BASE[..]` as the cursor; returns the statements that follow it in its block"""
        for n in tir.walk(self.body["tir"]["value"]):
            if n.get("k") == "Block":
                for i, st in enumerate(n.get("stmts", [])):
                    if st.get("k") == "Let" and st["pat"].get("k") == "Bind":
                        init = strip(st.get("init") or {})    # `&BASE[..]` / `BASE.as_slice()` / `&BASE` all strip to BASE
                        if (st["pat"].get("ty") or "") == "&[u8]" and L.local_name(init) == base_name and st["pat"].get("name") != base_name:
                            self.cur_ids = {st["pat"]["id"]}
                            return {"k": "Block", "stmts": n["stmts"][i + 1:], "tail": n.get("tail")}
        raise Unsupported(self.body["tir"]["value"], "no cursor over `%s`" % base_name)

    def seg(self, n, ty, ln, tag, tail):
        self.segs.append({"off": self.off, "len": ln, "ty": ty, "tag": tag, "tail": tail, "sp": tir.sp(n)})
        self.off += ln

    def array_len_of(self, e):
        e = strip(e)
        m = re.match(r"^\[u8; (\d+)\]$", e.get("ty") or "")
        if m:
            return int(m.group(1))
        if e.get("k") == "Index":
            ix = strip(e["index"])
            if ix.get("k") == "Struct" and (ix.get("path") or "").endswith("ops::Range"):
                f = {x["name"]: tir.lit_int(x["e"]) for x in ix["fields"]}
                if None not in (f.get("start"), f.get("end")):
                    return f["end"] - f["start"]
        return None

    def ev(self, n, tag, tail):
        """evaluate an expression in order, recording the reads it performs on the cursor"""
        if not isinstance(n, dict):
            return
        k = n.get("k")
        if k == "MethodCall" and self.is_cursor(n["recv"]):
            m = n["method"]
            if m in W and (declared(n) or "").startswith("byteorder::ReadBytesExt::"):
                ty, ln = W[m]
                en = L.endian_of(n)
                if ln > 1 and en != "BigEndian":
                    raise Unsupported(n, "multi-byte read that is not big-endian")
                self.seg(n, ty, ln, tag, tail)
                return
            if m == "read_exact":
                ln = self.array_len_of(n["args"][0])
                if ln is None:
                    raise Unsupported(n, "read_exact into a buffer of unknown length")
                tgt = strip(n["args"][0])
                nm = tir.place(tgt.get("base") or tgt) if tgt.get("k") == "Index" else tir.place(tgt)
                self.seg(n, "[u8;%d]" % ln, ln, tag if nm is None or not (nm or "").startswith("unmapped") else None, tail)
                return
            if m == "to_vec":
                return
            raise Unsupported(n, "cursor used through .%s()" % m)
        if k == "Call" and any(self.is_cursor(a) for a in n.get("args", [])):
            d = declared(n) or ""
            if d == "io::slippi::de::player_bytes":
                g = n.get("gargs") or []
                try:
                    a, b = int(g[0]), int(self.const_int(g[1]))
                except (ValueError, IndexError, TypeError):
                    raise Unsupported(n, "player_bytes with non-constant dimensions %s" % g)
                self.seg(n, "[[u8;%d];%d]" % (a, b), a * b, tag, tail)
                return
            if d == "io::slippi::de::if_more":
                cl = strip(n["args"][1])
                if cl.get("k") == "Path" and cl.get("res") == "def" and (cl.get("dk") or "") in ("Fn", "AssocFn"):
                    # `if_more(r, f)` with a function item is `if_more(r, |r| f(r))`
                    self.tails += 1
                    call = dict(cl)
                    call.update({"k": "Call", "args": [n["args"][0]]})
                    self.ev(call, tag, self.tails)
                    return
                if cl.get("k") != "Closure":
                    raise Unsupported(n, "if_more without a closure")
                self.tails += 1
                t = self.tails
                self.cur_ids.add(cl["params"][0].get("id"))
                self.block(cl["body"], tag, t)
                return
            raise Unsupported(n, "cursor passed to %s" % d)
        if k == "Closure":
            # closures that capture the cursor implicitly are not part of the fragment
            for x in tir.walk(n["body"]):
                if self.is_cursor(x):
                    raise Unsupported(n, "cursor captured by a closure")
            return
        if k == "Struct":
            for f in n["fields"]:
                self.ev(f["e"], (tag + "." if tag else "") + f["name"], tail)
            return
        if k in ("Call",) and ((n.get("dk") or "").startswith("Ctor") or n.get("res") == "selfctor") and len(n.get("args", [])) > 1:
            for i, a in enumerate(n["args"]):
                self.ev(a, (tag + "." if tag else "") + str(i), tail)
            return
        if k == "Tup" and len(n["elems"]) > 1:
            for i, a in enumerate(n["elems"]):
                self.ev(a, (tag + "." if tag else "") + str(i), tail)
            return
        if k == "Array" and len(n["elems"]) > 1:
            for i, a in enumerate(n["elems"]):
                self.ev(a, (tag + "." if tag else "") + str(i), tail)
            return
        if k == "Block":
            self.block(n, tag, tail)
            return
        if k in ("If", "Match"):
            # the condition / scrutinee is evaluated unconditionally; the branches must not touch the cursor
            self.ev(n.get("cond") or n.get("scrut"), tag, tail)
            branches = [n.get("then"), n.get("else")] if k == "If" else [a["body"] for a in n["arms"]] + [a.get("guard") for a in n["arms"]]
            for br in branches:
                for x in tir.walk(br or {}):
                    if x.get("k") in ("MethodCall", "Call") and any(self.is_cursor(a) for a in tir.call_args(x)):
                        raise Unsupported(n, "conditional read of the cursor")
            return
        if k in ("Loop", "For"):
            for x in tir.walk(n):
                if x.get("k") in ("MethodCall", "Call") and any(self.is_cursor(a) for a in tir.call_args(x)):
                    raise Unsupported(n, "repeated read of the cursor")
            return
        for c in tir.children(n):
            self.ev(c, tag, tail)

    def block(self, n, tag, tail):
        n2 = n
        if n2.get("k") == "Try":
            n2 = n2["e"]
        if n2.get("k") != "Block":
            self.ev(n2, tag, tail)
            return
        stmts = n2.get("stmts", [])
        for si, s in enumerate(stmts):
            if s.get("k") == "Let":
                nm = s["pat"].get("name") if s["pat"].get("k") == "Bind" else None
                t = (tag + "." if tag else "") + nm if nm else tag
                if nm in ("buf", "placements") and tag:
                    t = tag if nm == "buf" else t
                vb = isinstance(s.get("init"), dict) and L.strip_try(s["init"]).get("k") == "Block"
                if vb:
                    self._value_block = getattr(self, "_value_block", 0) + 1
                try:
                    self.ev(s.get("init"), t, tail)
                finally:
                    if vb:
                        self._value_block -= 1
            elif s.get("k") == "Expr":
                # `r.read_exact(&mut scratch)?; let x = decode(&scratch);`: the bytes are destined for x
                t = tag
                e0 = L.strip_try(s["e"])
                if e0.get("k") == "MethodCall" and e0.get("method") == "read_exact" and self.is_cursor(e0["recv"]):
                    tgt = strip(e0["args"][0])
                    if tgt.get("k") == "Path" and tgt.get("res") == "local" and not (tgt.get("name") or "").startswith("unmapped"):
                        users = [s2 for s2 in stmts[si + 1:] if s2.get("k") == "Let" and s2["pat"].get("k") == "Bind" and any(x.get("k") == "Path" and x.get("id") == tgt.get("id") for x in tir.walk(s2.get("init") or {}))]
                        tails_use = n2.get("tail") is not None and any(x.get("k") == "Path" and x.get("id") == tgt.get("id") for x in tir.walk(n2["tail"]))
                        if getattr(self, "_value_block", 0) > 0:
                            # inside `let x = { let mut buf = ..; r.read_exact(&mut buf)?; .. }`: the bytes are destined for x
                            if len(users) == 1 and not tails_use:
                                t = (tag + "." if tag else "") + users[0]["pat"]["name"]
                        else:
                            # lets that only compute an index into the buffer (`let first_null: usize = buf.iter().position(..)`) are not its consumers
                            consumers = [u for u in users if (u["pat"].get("ty") or "") != "usize"]
                            if len(consumers) == 1 and not tails_use:
                                t = (tag + "." if tag else "") + consumers[0]["pat"]["name"]
                            elif not users:
                                # `let mut bitfield = [0; 4]; r.read_exact(&mut bitfield)?;`: the named buffer is the value itself
                                t = (tag + "." if tag else "") + (tgt.get("name") or "")
                self.ev(s["e"], t, tail)
        if n2.get("tail"):
            self.ev(n2["tail"], tag, tail)

    def const_int(self, s):
        try:
            return int(s)
        except (ValueError, TypeError):
            pass
        m = re.search(r"(\d+)", str(s))
        for c in self.F.items["consts"]:
            if c["path"].split("::")[-1] == str(s).split("::")[-1]:
                b = self.F.const_body(c["path"])
                return tir.lit_int(b["tir"]["value"])
        return int(m.group(1)) if m else None

    def run(self, start_off=0, block=None):
        self.off = start_off
        val = block or self.body["tir"]["value"]
        self.block(val, "", 0)
        return self.segs
