"""Frame bracketing typestate (C01 clause 5 / C04 clause 3): path-sensitive walk of the typed tree per version class."""
import layout as L
import reach
import tir
from tir import strip, declared, callee


def openers_closers(F, G):
    """local fns that open a frame (push onto frames.id) / close one (pad characters with push_null)"""
    op, cl = set(), set()
    for b in F.fn_bodies():
        if not b["path"].startswith("io::slippi::de::"):
            continue
        for x in tir.walk(b["tir"]["value"]):
            if x.get("k") == "MethodCall" and x["method"] == "push" and (tir.place(x["recv"]) or "").endswith("frames.id"):
                op.add(b["path"])
            if x.get("k") == "MethodCall" and (callee(x) or "") == "frame::mutable::Data::push_null":
                cl.add(b["path"])
    return op, cl


class Counter:
    """number of frames opened along each path that completes normally (path-sensitive on version gates only)"""

    def __init__(self, F, v, openers, is_event=lambda n: False):
        self.F, self.v, self.openers, self.is_event = F, v, openers, is_event

    def run(self, n, st):
        """st: frozenset of (opens, events) pairs"""
        if not isinstance(n, dict) or not st:
            return st
        k = n.get("k")
        if k == "Block":
            for s in n.get("stmts", []):
                st = self.run(s, st)
            return self.run(n.get("tail"), st) if n.get("tail") else st
        if k == "Let":
            st = self.run(n.get("init"), st) if n.get("init") else st
            if n.get("els") is not None:
                self.run(n["els"], st)
            return st
        if k == "Expr":
            return self.run(n["e"], st)
        if k == "If":
            st = self.run(n["cond"], st)
            f = L.vcond(n["cond"])
            if f is not None:
                if L.feval(f, self.v):
                    return self.run(n["then"], st)
                return self.run(n["else"], st) if n.get("else") else st
            return self.run(n["then"], st) | (self.run(n["else"], st) if n.get("else") else st)
        if k == "Match":
            st = self.run(n["scrut"], st)
            f = L.vcond(n["scrut"])
            out = frozenset()
            for a in n["arms"]:
                if f is not None and a["pat"].get("k") == "Lit" and a["pat"]["e"].get("lit") == "bool" and bool(a["pat"]["e"]["v"]) != L.feval(f, self.v):
                    continue
                out = out | self.run(a["body"], st)
            return out
        if k in ("Ret", "Break", "Continue"):
            if n.get("e"):
                self.run(n["e"], st)
            return frozenset()
        if k == "Try":
            return self.run(n["e"], st)
        if k in ("Loop", "For"):
            if k == "For":
                st = self.run(n["iter"], st)
            return st | self.run(n["body"], st)
        if k == "Closure":
            return st
        if k in ("Call", "MethodCall"):
            for a in tir.call_args(n):
                st = self.run(a, st)
            c = reach.owner_of(callee(n) or "")
            is_open = c in self.openers or (n.get("k") == "MethodCall" and n["method"] == "push" and (tir.place(n["recv"]) or "").endswith("frames.id"))
            if is_open:
                st = frozenset((min(o + 1, 3), e) for o, e in st)
            if self.is_event(n):
                st = frozenset((o, min(e + 1, 3)) for o, e in st)
            return st
        for c in tir.children(n):
            st = self.run(c, st)
        return st


class Walker:
    def __init__(self, F, v, openers, closers):
        self.F = F
        self.v = v
        self.openers = openers
        self.closers = closers
        self.problems = []     # (node) opener reached with the previous frame possibly still open
        self.n_open = 0

    def run(self, n, st):
        """st: frozenset of 'closed' booleans over paths; returns states after normal completion"""
        if not isinstance(n, dict) or not st:
            return st
        k = n.get("k")
        if k == "Block":
            for s in n.get("stmts", []):
                st = self.run(s, st)
            return self.run(n.get("tail"), st) if n.get("tail") else st
        if k == "Let":
            st = self.run(n.get("init"), st) if n.get("init") else st
            return st
        if k == "Expr":
            return self.run(n["e"], st)
        if k == "If":
            st = self.run(n["cond"], st)
            f = L.vcond(n["cond"])
            if f is not None:
                taken = L.feval(f, self.v)
                if taken:
                    return self.run(n["then"], st)
                return self.run(n["else"], st) if n.get("else") else st
            a = self.run(n["then"], st)
            b = self.run(n["else"], st) if n.get("else") else st
            return a | b
        if k == "Match":
            st = self.run(n["scrut"], st)
            f = L.vcond(n["scrut"])
            out = frozenset()
            for a in n["arms"]:
                if f is not None and a["pat"].get("k") == "Lit" and a["pat"]["e"].get("lit") == "bool":
                    if bool(a["pat"]["e"]["v"]) != L.feval(f, self.v):
                        continue
                out = out | self.run(a["body"], st)
            return out
        if k in ("Ret", "Break", "Continue"):
            if n.get("e"):
                self.run(n["e"], st)
            return frozenset()
        if k in ("Loop", "For"):
            if k == "For":
                st = self.run(n["iter"], st)
            return st | self.run(n["body"], st)
        if k == "Closure":
            return st | self.run(n["body"], st)
        if k in ("Call", "MethodCall"):
            for a in tir.call_args(n):
                st = self.run(a, st)
            if n.get("f") is not None:
                st = self.run(n["f"], st)
            c = reach.owner_of(callee(n) or "")
            if c in self.closers:
                return frozenset([True])
            is_open = c in self.openers or (n.get("k") == "MethodCall" and n["method"] == "push" and (tir.place(n["recv"]) or "").endswith("frames.id"))
            if is_open:
                self.n_open += 1
                if self.v < (3, 0) and False in st:
                    self.problems.append(n)
                return frozenset([False])
            return st
        for c in tir.children(n):
            st = self.run(c, st)
        return st
