"""E4 — path rules on the MIR CFG: success-edge dominance of a guard call, must-pass-through, ordered effects."""
import reach
from reach import dominators, defs_of, operand_local, trace

NOISE = ("std::ops::Try::branch", "std::ops::FromResidual::from_residual", "std::convert::From::from", "std::convert::Into::into")


def find_calls(mir, pred):
    out = []
    for i, blk in enumerate(mir["blocks"]):
        t = blk["term"]
        if t.get("t") == "call" and not blk.get("cleanup"):
            c = t.get("resolved") or t.get("fn") or ""
            if pred(c, t):
                out.append((i, t))
    return out


def success_edge(mir, call_block):
    """For a call returning Result (possibly followed by `?`), find (success_block, failure_block) of the first
    switch on the discriminant of its result (directly, or through Try::branch). Returns None if not found."""
    t = mir["blocks"][call_block]["term"]
    val = t["dest"]["l"]
    cur = t.get("target")
    seen = set()
    vals = {val}
    while cur is not None and cur not in seen:
        seen.add(cur)
        blk = mir["blocks"][cur]
        # track moves of the result
        discr_locals = set()
        for s in blk["stmts"]:
            r = s["r"]
            if r.get("rv") == "use":
                l = operand_local(r["a"])
                if l in vals and not s["lhs"].get("pr"):
                    vals.add(s["lhs"]["l"])
            if r.get("rv") == "discr" and r["p"]["l"] in vals:
                discr_locals.add(s["lhs"]["l"])
        tt = blk["term"]
        k = tt.get("t")
        if k == "call":
            c = tt.get("fn") or ""
            if c == "std::ops::Try::branch" and any(operand_local(a) in vals for a in tt["args"]):
                vals = {tt["dest"]["l"]}
                cur = tt.get("target")
                continue
            return None
        if k == "switch":
            l = operand_local(tt["discr"])
            if l in discr_locals:
                tg = dict((v, b) for v, b in tt["targets"])
                ok = tg.get(0)
                bad = tg.get(1, tt["otherwise"])
                if ok is not None:
                    return ok, bad
            return None
        if k == "goto":
            cur = tt["target"]
            continue
        return None
    return None


def guard_dominates(mir, guard_block, allow_before=()):
    """Returns (ok, offenders): every non-cleanup Call terminator is dominated by the guard's success block,
    or lies on the guard's failure path, or is the guard chain itself. Calls that execute before the guard are offenders
    unless their callee is in allow_before."""
    se = success_edge(mir, guard_block)
    if se is None:
        return False, [("no-success-edge", guard_block, None)]
    ok_b, bad_b = se
    dom, succ, pred, reach_set = dominators(mir)
    offenders = []
    for i, blk in enumerate(mir["blocks"]):
        if blk.get("cleanup") or i not in reach_set:
            continue
        t = blk["term"]
        if t.get("t") != "call" or i == guard_block:
            continue
        c = t.get("resolved") or t.get("fn") or ""
        if ok_b in dom[i]:
            continue
        if bad_b in dom[i]:
            continue
        if guard_block in dom[i]:
            # between the guard call and its switch: the Try::branch plumbing
            if (t.get("fn") or "") in NOISE:
                continue
        if any(c.startswith(a) or (t.get("fn") or "").startswith(a) for a in allow_before):
            continue
        offenders.append(("not-dominated", i, t))
    return not offenders, offenders


def must_pass(mir, through_blocks, to_blocks):
    """every path from entry to any block in to_blocks passes through one of through_blocks"""
    dom, succ, pred, reach_set = dominators(mir)
    # remove through blocks and test reachability
    blocked = set(through_blocks)
    seen = set()
    st = [0]
    while st:
        x = st.pop()
        if x in seen or x in blocked:
            continue
        seen.add(x)
        st.extend(succ[x])
    return [b for b in to_blocks if b in seen]


def return_blocks(mir):
    return [i for i, b in enumerate(mir["blocks"]) if b["term"].get("t") == "return" and not b.get("cleanup")]


# ------------------------------------------------------------------------------------------------ ordered effects on the typed tree

import tir as _tir


def ordered_calls(node, pred, guards=()):
    """Calls matching `pred` in evaluation order, each with the stack of enclosing conditions:
       [(guards, call)] where guards = ((kind, text, polarity), ...); kind in if/iflet/match/loop."""
    out = []
    n = node
    if not isinstance(n, dict):
        return out
    k = n.get("k")
    if k in ("Call", "MethodCall"):
        for c in _tir.call_args(n):
            out += ordered_calls(c, pred, guards)
        if n.get("f") is not None:
            out += ordered_calls(n["f"], pred, guards)
        if pred(n):
            out.append((guards, n))
        return out
    if k == "If":
        c = n["cond"]
        out += ordered_calls(c, pred, guards)
        cs = _tir.strip(c)
        if cs.get("k") == "LetCond":
            g = ("iflet", "%s = %s" % (_tir.pat(cs["pat"]), _tir.place(cs["init"]) or _tir.pretty(cs["init"])[:60]))
        else:
            g = ("if", _tir.pretty(c)[:80])
        out += ordered_calls(n["then"], pred, guards + ((g[0], g[1], True),))
        if n.get("else"):
            out += ordered_calls(n["else"], pred, guards + ((g[0], g[1], False),))
        return out
    if k == "Match":
        out += ordered_calls(n["scrut"], pred, guards)
        for a in n["arms"]:
            g = ("match", "%s ~ %s" % (_tir.pretty(n["scrut"])[:50], _tir.pat(a["pat"])), True)
            out += ordered_calls(a.get("guard"), pred, guards + (g,))
            out += ordered_calls(a["body"], pred, guards + (g,))
        return out
    if k in ("Loop", "For"):
        if k == "For":
            out += ordered_calls(n["iter"], pred, guards)
        out += ordered_calls(n["body"], pred, guards + (("loop", _tir.sp(n), True),))
        return out
    if k == "Closure":
        out += ordered_calls(n["body"], pred, guards + (("closure", _tir.sp(n), True),))
        return out
    for c in _tir.children(n):
        out += ordered_calls(c, pred, guards)
    return out
