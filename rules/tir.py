"""Helpers over the typed trees (TIR) and item tables emitted by the driver."""
import re

CHILD_KEYS = ("f", "recv", "args", "base", "index", "e", "l", "r", "elems", "init", "cond", "then", "else",
              "iter", "stmts", "tail", "body", "scrut", "arms", "fields", "els", "guard")


def children(n):
    """Direct sub-expressions of a node (statements, arms and struct fields unwrapped)."""
    if not isinstance(n, dict):
        return
    for k in CHILD_KEYS:
        v = n.get(k)
        if v is None:
            continue
        if isinstance(v, dict):
            if "k" in v:
                yield v
            else:
                # arm or field wrapper
                for kk in ("e", "body", "guard"):
                    if isinstance(v.get(kk), dict):
                        yield v[kk]
        elif isinstance(v, list):
            for x in v:
                if not isinstance(x, dict):
                    continue
                if "k" in x:
                    yield x
                else:
                    for kk in ("e", "body", "guard"):
                        if isinstance(x.get(kk), dict):
                            yield x[kk]


def walk(n):
    """Pre-order traversal of all nodes below (and including) n. Statements (Let/Expr) are yielded too."""
    stack = [n]
    while stack:
        x = stack.pop()
        if not isinstance(x, dict):
            continue
        yield x
        ch = list(children(x))
        stack.extend(reversed(ch))


def callee(n):
    """Resolved callee path of a Call/MethodCall node (impl-resolved when the driver could)."""
    if n.get("k") in ("Call", "MethodCall"):
        return n.get("resolved") or n.get("path")
    return None


def declared(n):
    if n.get("k") in ("Call", "MethodCall"):
        return n.get("path")
    return None


def is_call(n, *suffixes):
    c = callee(n)
    d = declared(n)
    for s in suffixes:
        for p in (c, d):
            if p and (p == s or p.endswith("::" + s) or p.endswith(s)):
                return True
    return False


def call_args(n):
    """All operands of a call, receiver first."""
    if n.get("k") == "MethodCall":
        return [n["recv"]] + list(n.get("args", []))
    return list(n.get("args", []))


def strip(n):
    """Peel reference/deref/block wrappers that do not change the value."""
    while isinstance(n, dict):
        k = n.get("k")
        if k == "AddrOf":
            n = n["e"]
        elif k == "Unary" and n.get("op") == "Deref" and not n.get("overloaded"):
            n = n["e"]
        elif k == "Block" and not n.get("stmts") and n.get("tail"):
            n = n["tail"]
        elif k == "Block" and n.get("inlined") and n.get("tail") and all(s.get("k") == "Let" and not s.get("els") for s in n.get("stmts", [])):
            n = n["tail"]       # an inlined helper in expression position: its lets stay visible to LetEnv, its value is its tail
        elif k == "MethodCall" and n.get("method") in ("as_slice", "as_mut_slice", "by_ref") and not n.get("args") and (
                (n.get("path") or "").startswith(("std::vec::Vec", "core::slice::", "core::array::", "std::array::", "std::slice::", "alloc::vec::Vec", "std::io::Read::by_ref", "std::io::Write::by_ref"))):
            n = n["recv"]       # the same bytes / the same stream
        elif k == "Index" and is_full_range(n.get("index")):
            n = n["base"]       # x[..] is x viewed as a slice
        elif k == "Field" and n.get("idx") is not None and isinstance(n.get("base"), dict) and _tuple_lit(n["base"]) is not None and n["idx"] < len(_tuple_lit(n["base"])["elems"]):
            n = _tuple_lit(n["base"])["elems"][n["idx"]]      # (a, b).1 is b
        else:
            break
    return n


def _tuple_lit(b):
    while isinstance(b, dict) and (b.get("k") == "AddrOf" or (b.get("k") == "Block" and not b.get("stmts") and b.get("tail"))):
        b = b.get("e") if b.get("k") == "AddrOf" else b["tail"]
    return b if isinstance(b, dict) and b.get("k") == "Tup" else None


def is_full_range(i):
    if not isinstance(i, dict):
        return False
    if i.get("k") == "Struct" and (i.get("path") or "").endswith("ops::RangeFull"):
        return True
    if i.get("k") == "Path" and (i.get("path") or "").endswith("ops::RangeFull"):
        return True
    return False


def place(n):
    """Render a place expression (path of fields from a local) as 'self.a.b' or None."""
    n = strip(n)
    k = n.get("k")
    if k == "Path" and n.get("res") == "local":
        return n["name"]
    if k == "Field":
        b = place(n["base"])
        return None if b is None else b + "." + n["name"]
    if k == "MethodCall" and n.get("method") in ("as_ref", "as_mut", "unwrap", "as_deref", "as_deref_mut", "clone", "by_ref") and not n.get("args"):
        return place(n["recv"])
    if k == "Index":
        b = place(n["base"])
        i = place(n["index"])
        if i is None and strip(n["index"]).get("k") == "Cast":
            i = place(strip(n["index"])["e"])
        if i is None and lit_int(n["index"]) is not None:
            i = str(lit_int(n["index"]))
        return None if b is None else "%s[%s]" % (b, i if i is not None else "?")
    return None


def lit_int(n):
    n = strip(n)
    if n.get("k") == "Lit" and n.get("lit") in ("int", "char"):
        return n["v"]
    if n.get("k") == "Cast":
        return lit_int(n["e"])
    if n.get("k") == "Unary" and n.get("op") == "Neg":
        v = lit_int(n["e"])
        return None if v is None else -v
    return None


def bool_branch(n):
    """(cond, value when true, value when false) for `if c {A} else {B}` and `match c {true => A, _ => B}`; `!c` is flipped.
    None for anything else (if-let, guards, non-bool scrutinee)."""
    n = strip(n)
    k = n.get("k")
    c = t = f = None
    if k == "If" and n["cond"].get("k") != "LetCond":
        c, t, f = n["cond"], n["then"], n.get("else")
    elif k == "Match" and len(n.get("arms", [])) == 2 and not any(a.get("guard") for a in n["arms"]):
        a0, a1 = n["arms"]

        def lit(p):
            return p["e"].get("v") if p.get("k") == "Lit" and p["e"].get("lit") == "bool" else None
        if lit(a0["pat"]) is True and (a1["pat"].get("k") == "Wild" or lit(a1["pat"]) is False):
            c, t, f = n["scrut"], a0["body"], a1["body"]
        elif lit(a0["pat"]) is False and (a1["pat"].get("k") == "Wild" or lit(a1["pat"]) is True):
            c, t, f = n["scrut"], a1["body"], a0["body"]
    if c is None:
        return None
    cs = strip(c)
    while cs.get("k") == "Unary" and cs.get("op") == "Not":
        c, t, f = cs["e"], f, t
        cs = strip(c)
    return c, t, f


def opt_field_flag(e):
    """(place of the Option, field) when e means `opt.map_or(false, |q| q.field)` in any of its spellings
    (map_or, is_some_and, map(..).unwrap_or(false), match/if-let with a false default); None otherwise"""
    e = strip(e)
    k = e.get("k")

    def closure_field(cl):
        cl = strip(cl)
        if cl.get("k") == "Closure" and len(cl["params"]) == 1 and cl["params"][0].get("k") == "Bind":
            b = strip(cl["body"])
            if b.get("k") == "Field" and strip(b["base"]).get("k") == "Path" and strip(b["base"]).get("id") == cl["params"][0].get("id"):
                return b["name"]
        return None

    def is_false(x):
        x = strip(x)
        return x.get("k") == "Lit" and x.get("lit") == "bool" and x.get("v") is False
    if k == "MethodCall":
        m = e["method"]
        if m == "map_or" and len(e["args"]) == 2 and is_false(e["args"][0]):
            f = closure_field(e["args"][1])
            if f:
                return place(e["recv"]), f
        if m == "is_some_and" and len(e["args"]) == 1:
            f = closure_field(e["args"][0])
            if f:
                return place(e["recv"]), f
        if m == "unwrap_or" and len(e["args"]) == 1 and is_false(e["args"][0]):
            r = strip(e["recv"])
            if r.get("k") == "MethodCall" and r["method"] == "map" and len(r["args"]) == 1:
                f = closure_field(r["args"][0])
                if f:
                    return place(r["recv"]), f
    if k == "Match" and len(e["arms"]) == 2 and not any(a.get("guard") for a in e["arms"]):
        some = none = None
        for a in e["arms"]:
            p = a["pat"]
            while p.get("k") == "Ref":
                p = p["pat"]
            if p.get("k") == "TupleStruct" and (p.get("path") or "").endswith("Some") and len(p["pats"]) == 1 and p["pats"][0].get("k") == "Bind":
                some = (p["pats"][0], a["body"])
            else:
                none = a["body"]
        if some and none is not None and is_false(none):
            b = strip(some[1])
            if b.get("k") == "Field" and strip(b["base"]).get("k") == "Path" and strip(b["base"]).get("id") == some[0].get("id"):
                return place(e["scrut"]), b["name"]
    return None


class LetEnv:
    """immutable `let x = e` bindings of a body, for following a value back to where it was computed"""

    ADAPTORS = ("as_ref", "as_mut", "as_deref", "ok_or", "ok_or_else", "unwrap", "expect", "clone", "copied", "cloned", "map_err", "to_owned")

    def __init__(self, root):
        self.lets = {}
        assigned = set()
        for n in walk(root):
            if n.get("k") in ("Assign", "AssignOp"):
                l = strip(n["l"])
                if l.get("k") == "Path" and l.get("res") == "local":
                    assigned.add(l.get("id"))
        self.payloads = {}      # x bound by Some(x)/Ok(x) against an expression: x is that expression's payload
        for n in walk(root):
            if n.get("k") == "Let" and n["pat"].get("k") == "Bind" and n.get("init") is not None and not n.get("els") and n["pat"]["id"] not in assigned:
                self.lets[n["pat"]["id"]] = n["init"]
            src = pat_ = None
            if n.get("k") in ("Let", "LetCond") and n.get("init") is not None:
                src, pat_ = n["init"], n["pat"]
                self._payload(pat_, src, assigned)
                # `let S { a, b: c, .. } = e;` / `let (a, b) = (x, y);`: each binding is that field / element of e
                if pat_.get("k") == "Struct" and not n.get("els"):
                    for fp in pat_.get("fields", []) or []:
                        q = fp.get("pat") if isinstance(fp, dict) else None
                        if isinstance(q, dict) and q.get("k") == "Bind" and q["id"] not in assigned and fp.get("name"):
                            self.lets[q["id"]] = {"k": "Field", "name": fp["name"], "base": src, "ty": q.get("ty"), "sp": q.get("sp")}
                # `let Self(a, b, c) = e;` / `let Version(a, b, c) = e;`: positional fields of a tuple struct
                if pat_.get("k") == "TupleStruct" and not n.get("els") and n.get("k") == "Let" and not (pat_.get("path") or "").endswith(("::Some", "::Ok", "::Err")) and pat_.get("dd") is None:
                    for i_, q in enumerate(pat_.get("pats", []) or []):
                        while isinstance(q, dict) and q.get("k") == "Ref":
                            q = q["pat"]
                        if isinstance(q, dict) and q.get("k") == "Bind" and q["id"] not in assigned and not q.get("sub"):
                            self.lets[q["id"]] = {"k": "Field", "name": str(i_), "base": src, "ty": q.get("ty"), "sp": q.get("sp")}
                if pat_.get("k") == "Tuple" and not n.get("els") and strip(src).get("k") == "Tup" and len(strip(src)["elems"]) == len(pat_["pats"]):
                    for q, e_ in zip(pat_["pats"], strip(src)["elems"]):
                        if q.get("k") == "Bind" and q["id"] not in assigned:
                            self.lets[q["id"]] = e_
            if n.get("k") == "Match":
                for a in n["arms"]:
                    self._payload(a["pat"], n["scrut"], assigned)

    def _payload(self, p, src, assigned):
        while isinstance(p, dict) and p.get("k") == "Ref":
            p = p["pat"]
        if isinstance(p, dict) and p.get("k") == "TupleStruct" and (p.get("path") or "").endswith(("::Some", "::Ok")) and len(p.get("pats", [])) == 1:
            q = p["pats"][0]
            while q.get("k") == "Ref":
                q = q["pat"]
            if q.get("k") == "Bind" and q["id"] not in assigned and not q.get("sub"):
                self.payloads[q["id"]] = src

    def resolve(self, e, peel=False, depth=0):
        """follow locals to their initialisers; with peel=True also look through `?` and Option/Result adaptors that keep the payload"""
        s = strip(e)
        while depth < 12:
            if peel and s.get("k") == "Try":
                s = strip(s["e"])
            elif peel and s.get("k") == "MethodCall" and s["method"] in self.ADAPTORS:
                s = strip(s["recv"])
            elif s.get("k") == "Path" and s.get("res") == "local" and s.get("id") in self.lets:
                s = strip(self.lets[s["id"]])
                depth += 1
            elif peel and s.get("k") == "Path" and s.get("res") == "local" and s.get("id") in self.payloads:
                s = strip(self.payloads[s["id"]])
                depth += 1
            else:
                break
        return s

    def place(self, e, peel=True):
        """place string of e after resolution, resolving the root local of a field path as well"""
        s = self.resolve(e, peel)
        if s.get("k") == "Field":
            b = self.place(s["base"], peel)
            return None if b is None else b + "." + s["name"]
        return place(s)


def sp(n):
    s = n.get("sp")
    if not s:
        return "?"
    return "%s:%d" % (s[0], s[1])


def in_macro(n, *names):
    m = [x.split("::")[-1] for x in (n.get("mac") or [])]
    return any(x in m for x in names)


def pretty(n, depth=0, maxdepth=40):
    """Compact pseudo-Rust rendering for reports."""
    if n is None:
        return ""
    if isinstance(n, list):
        return ", ".join(pretty(x, depth, maxdepth) for x in n)
    if depth > maxdepth:
        return "…"
    k = n.get("k")
    P = lambda x: pretty(x, depth + 1, maxdepth)
    if k == "Call":
        name = n.get("path") or P(n.get("f"))
        return "%s(%s)" % (short(name), P(n.get("args", [])))
    if k == "MethodCall":
        return "%s.%s(%s)" % (P(n["recv"]), n["method"], P(n.get("args", [])))
    if k == "Path":
        return n.get("name") or short(n.get("path", "?"))
    if k == "Lit":
        return repr(n.get("v"))
    if k == "Field":
        return "%s.%s" % (P(n["base"]), n["name"])
    if k == "Index":
        return "%s[%s]" % (P(n["base"]), P(n["index"]))
    if k == "Unary":
        return {"Not": "!", "Neg": "-", "Deref": "*"}.get(n["op"], n["op"]) + P(n["e"])
    if k == "Binary":
        return "(%s %s %s)" % (P(n["l"]), n["op"], P(n["r"]))
    if k == "Cast":
        return "(%s as %s)" % (P(n["e"]), n.get("ty"))
    if k == "AddrOf":
        return ("&mut " if n.get("mut") else "&") + P(n["e"])
    if k == "Assign":
        return "%s = %s" % (P(n["l"]), P(n["r"]))
    if k == "AssignOp":
        return "%s %s= %s" % (P(n["l"]), n["op"], P(n["r"]))
    if k == "Try":
        return P(n["e"]) + "?"
    if k == "If":
        s = "if %s {%s}" % (P(n["cond"]), P(n["then"]))
        if n.get("else"):
            s += " else {%s}" % P(n["else"])
        return s
    if k == "Match":
        return "match %s {%s}" % (P(n["scrut"]), "; ".join("%s%s => %s" % (pat(a["pat"]), (" if " + P(a["guard"])) if a.get("guard") else "", P(a["body"])) for a in n["arms"]))
    if k == "Block":
        parts = [P(s) for s in n.get("stmts", [])]
        if n.get("tail"):
            parts.append(P(n["tail"]))
        return "{ " + "; ".join(parts) + " }"
    if k == "Let":
        return "let %s = %s" % (pat(n["pat"]), P(n.get("init")))
    if k == "Expr":
        return P(n["e"])
    if k == "Closure":
        return "|%s| %s" % (", ".join(pat(p) for p in n["params"]), P(n["body"]))
    if k == "Struct":
        return "%s {%s}" % (short(n.get("path", "?")), ", ".join("%s: %s" % (f["name"], P(f["e"])) for f in n["fields"]))
    if k in ("Tup", "Array"):
        return "(%s)" % P(n["elems"])
    if k == "Ret":
        return "return %s" % P(n.get("e"))
    if k == "For":
        return "for %s in %s %s" % (pat(n["pat"]), P(n["iter"]), P(n["body"]))
    if k == "Loop":
        return "loop[%s] %s" % (n.get("src"), P(n["body"]))
    if k == "Break":
        return "break"
    if k == "LetCond":
        return "let %s = %s" % (pat(n["pat"]), P(n["init"]))
    return "<%s>" % k


def pat(p):
    if p is None:
        return "_"
    k = p.get("k")
    if k == "Bind":
        return p["name"]
    if k == "Wild":
        return "_"
    if k == "TupleStruct":
        return "%s(%s)" % (short(p.get("path", "?")), ", ".join(pat(x) for x in p["pats"]))
    if k == "Tuple":
        return "(%s)" % ", ".join(pat(x) for x in p["pats"])
    if k == "Lit":
        e = p["e"]
        if e.get("k") == "Lit":
            v = e.get("v")
            return repr(-v if e.get("neg") and isinstance(v, int) else v)
        return short(e.get("path", "?"))
    if k == "Range":
        return "%s..=%s" % ((p.get("lo") or {}).get("v"), (p.get("hi") or {}).get("v"))
    if k == "Struct":
        return "%s{..}" % short(p.get("path", "?"))
    if k == "Ref":
        return "&" + pat(p["pat"])
    if k == "Or":
        return " | ".join(pat(x) for x in p["pats"])
    if k == "Slice":
        return "[%s]" % ", ".join([pat(x) for x in p.get("before", []) or []] + ([".."] if p.get("mid") is not None else []) + [pat(x) for x in p.get("after", []) or []])
    return "<%s>" % k


def short(path):
    if not path:
        return "?"
    return re.sub(r"[A-Za-z_0-9]+::", "", path) if len(path) > 60 else path


class Facts:
    def __init__(self, doc):
        self.doc = doc
        self.bodies = {}
        for b in doc["bodies"]:
            self.bodies.setdefault(b["path"], []).append(b)
        self.items = doc["items"]
        self.structs = {s["path"]: s for s in self.items["structs"]}
        self.enums = {e["path"]: e for e in self.items["enums"]}
        self.fns = {f["path"]: f for f in self.items["fns"]}

    def body(self, path):
        """The unique fn/assoc-fn body with this def path, or None."""
        bs = [b for b in self.bodies.get(path, []) if b["kind"] in ("Fn", "AssocFn")]
        return bs[0] if len(bs) == 1 else None

    def fn_bodies(self, with_inlined=False):
        """function bodies with a typed tree; helpers whose every use was inlined by the canonicalisation are skipped (their
        code stands in their callers)"""
        for b in self.doc["bodies"]:
            if b["kind"] in ("Fn", "AssocFn") and b.get("tir") and (with_inlined or not b.get("fully_inlined")):
                yield b

    def find_bodies(self, regex):
        r = re.compile(regex)
        return [b for b in self.fn_bodies() if r.search(b["path"])]

    def const_body(self, path):
        bs = [b for b in self.bodies.get(path, []) if b["kind"].startswith("Const") or b["kind"].startswith("Static")]
        return bs[0] if bs else None

    def bytes_of(self, e, depth=0):
        """the constant byte sequence an expression denotes ([1, 2], b"..", a const item, any of them borrowed/sliced whole); None otherwise"""
        e = strip(e)
        k = e.get("k")
        if k == "Array":
            out = [lit_int(x) for x in e["elems"]]
            return None if any(v is None for v in out) else out
        if k == "Lit" and e.get("lit") == "bytes":
            return list(e["v"])
        if k == "Lit" and e.get("lit") == "str" and isinstance(e.get("v"), str):
            return list(e["v"].encode())
        if k == "MethodCall" and e.get("method") in ("as_bytes", "as_ref", "to_vec", "as_slice") and not e.get("args"):
            return self.bytes_of(e["recv"], depth + 1)
        if k == "Path" and e.get("res") == "def" and (e.get("dk") or "").startswith(("Const", "Static")) and depth < 4:
            b = self.const_body(e.get("path"))
            if b is not None and b.get("tir"):
                return self.bytes_of(b["tir"]["value"], depth + 1)
        return None

    def impls_of(self, self_ty, trait_suffix=None):
        return [i for i in self.items["impls"] if i["self"] == self_ty and (trait_suffix is None or i["trait"].endswith(trait_suffix))]


def mutable_projections(root, ty_rx):
    """field projections `base.f` in a typed tree whose base type matches ty_rx, each with whether the projected place is
    borrowed mutably (auto-ref included, via the adjusted type), explicitly `&mut`-borrowed, or assigned to. For a chain
    `a.b.c` over matching bases the outermost projection is judged. Yields (field node, is_mutable)."""
    par = {}
    for x in walk(root):
        for c in children(x):
            par[id(c)] = x
    for x in walk(root):
        if x.get("k") != "Field" or not ty_rx.match(x["base"].get("ty") or ""):
            continue
        first = x
        p = par.get(id(x)) or {}
        while p.get("k") in ("Field", "Index") and p.get("base") is x:
            x, p = p, par.get(id(p)) or {}
        mut = (x.get("aty") or "").startswith("&mut") or (p.get("k") == "AddrOf" and bool(p.get("mut"))) or (p.get("k") in ("Assign", "AssignOp") and p.get("l") is x)
        yield first, mut
