"""Panic inventory discharge (C06 family): classes R (range, decided from types/constants/dominating comparisons),
G (gate-consistent unwraps, via L2/G of the layout model) and I (frozen invariant table with machine-checked side conditions)."""
import json
import os
import re

import reach
from reach import defs_of, operand_local, dominators

VERIF = os.path.dirname(os.path.dirname(os.path.abspath(__file__)))

INT_RANGE = {
    "u8": (0, 2**8 - 1), "u16": (0, 2**16 - 1), "u32": (0, 2**32 - 1), "u64": (0, 2**64 - 1), "usize": (0, 2**64 - 1),
    "i8": (-2**7, 2**7 - 1), "i16": (-2**15, 2**15 - 1), "i32": (-2**31, 2**31 - 1), "i64": (-2**63, 2**63 - 1), "isize": (-2**63, 2**63 - 1),
    "bool": (0, 1),
}


def signed_const(o):
    ty = o.get("ty")
    v = o.get("bits")
    if v is None:
        return None
    if ty in INT_RANGE and INT_RANGE[ty][0] < 0:
        bits = o.get("bytes", 8) * 8
        if v >= 2 ** (bits - 1):
            v -= 2 ** bits
    return v


class Ctx:
    def __init__(self, F, G):
        self.F = F
        self.G = G
        self.enum_max = {}
        for e in F.items["enums"]:
            if e["variants"] and all(v["nfields"] == 0 for v in e["variants"]):
                self.enum_max[e["path"]] = (min(v["discr"] for v in e["variants"]), max(v["discr"] for v in e["variants"]))
        self._const_ret = {}
        self.sizes = {"u8": 1, "i8": 1, "bool": 1, "u16": 2, "i16": 2, "u32": 4, "i32": 4, "f32": 4, "char": 4, "u64": 8, "i64": 8, "f64": 8, "usize": 8, "isize": 8}
        for s in F.items["structs"] + F.items["enums"]:
            if isinstance(s.get("size"), int):
                self.sizes[s["path"]] = s["size"]

    def elem_size(self, ty):
        """size in bytes of the element type of `&[T]`, `[T; N]`, `Vec<T>` or of T itself, when known"""
        ty = (ty or "").strip()
        while ty.startswith("&"):
            ty = ty[1:].lstrip()
            if ty.startswith("mut "):
                ty = ty[4:]
        m = re.match(r"^\[(.+?)(; \d+)?\]$", ty) or re.match(r"^(?:std|alloc)::vec::Vec<(.+?)(, .*)?>$", ty)
        if m:
            ty = m.group(1)
        return self.sizes.get(ty)

    def ok_return_range(self, path, depth=0):
        """range of v over every `Ok(v)` a local fn returning Result<int, _> can return (its `?` exits return errors)"""
        key = ("ok", path)
        if key in self._const_ret:
            return self._const_ret[key]
        self._const_ret[key] = None          # recursion guard
        out = None
        bodies = [m for p, m, _ in self.G.bodies.get(path, []) if p == path]
        if bodies and depth < 4:
            mir = bodies[0]
            work = [0]
            seen = set()
            ok = True
            while work and ok:
                l = work.pop()
                if l in seen:
                    continue
                seen.add(l)
                dd = defs_of(mir, l)
                if not dd or len(seen) > 12:
                    ok = False
                    break
                for _, d in dd:
                    if "r" in d:
                        r = d["r"]
                        if r.get("rv") == "use" and operand_local(r["a"]) is not None:
                            work.append(operand_local(r["a"]))
                        elif r.get("rv") == "agg" and re.search(r"Result#0$", r.get("kind") or "") and len(r["ops"]) == 1:
                            x = rng(self, mir, r["ops"][0], depth + 1)
                            if x is None:
                                ok = False
                            else:
                                out = x if out is None else (min(out[0], x[0]), max(out[1], x[1]))
                        elif r.get("rv") == "agg" and re.search(r"Result#1$", r.get("kind") or ""):
                            continue
                        else:
                            ok = False
                    elif d.get("t") == "call" and (d.get("fn") or "").endswith("FromResidual::from_residual"):
                        continue             # the `?` exit: an Err
                    else:
                        ok = False
            if not ok:
                out = None
        self._const_ret[key] = out
        return out

    def const_return(self, path):
        """range of a local fn whose every assignment to the return place is an integer constant"""
        if path in self._const_ret:
            return self._const_ret[path]
        r = None
        bodies = [m for p, m, _ in self.G.bodies.get(path, []) if p == path]
        if bodies:
            mir = bodies[0]
            vals = []
            ok = True
            for i, s in defs_of(mir, 0):
                if "r" in s and s["r"].get("rv") == "use" and s["r"]["a"].get("o") == "const" and s["r"]["a"].get("bits") is not None:
                    vals.append(signed_const(s["r"]["a"]))
                elif "r" in s and s["r"].get("rv") == "use":
                    # `_0 = move _k` where _k only receives constants / checked adds of constants: give up unless const
                    src = operand_local(s["r"]["a"])
                    sub = [d for _, d in defs_of(mir, src)] if src is not None else []
                    if sub and all("r" in d and d["r"].get("rv") == "use" and d["r"]["a"].get("o") == "const" and d["r"]["a"].get("bits") is not None for d in sub):
                        vals.extend(signed_const(d["r"]["a"]) for d in sub)
                    else:
                        ok = False
                else:
                    ok = False
            if ok and vals:
                r = (min(vals), max(vals))
        self._const_ret[path] = r
        return r


def local_ty(mir, l):
    return mir["locals"][l] if l is not None and l < len(mir["locals"]) else None


def rng(ctx, mir, o, depth=0):
    """interval of an integer operand, from constants, types, casts and checked arithmetic"""
    if depth > 10:
        return None
    if o.get("o") == "const":
        v = signed_const(o)
        if v is not None:
            return (v, v)
        return INT_RANGE.get(o.get("ty"))
    p = o.get("p") or {}
    l = p.get("l")
    ty = local_ty(mir, l)
    pr = p.get("pr") or []
    if pr:
        # `.0` of a checked-arithmetic tuple
        if pr == [".0"]:
            ds = defs_of(mir, l)
            if len(ds) == 1 and "r" in ds[0][1] and ds[0][1]["r"].get("rv") == "bin":
                rb = rng_bin(ctx, mir, ds[0][1]["r"], depth)
                tr0 = INT_RANGE.get(o.get("ty"))
                if rb is not None and tr0 is not None and "WithOverflow" in ds[0][1]["r"].get("op", ""):
                    # the value of a checked operation is only used past its overflow assert: it lies in the type's range
                    lo, hi = max(rb[0], tr0[0]), min(rb[1], tr0[1])
                    return (lo, hi) if lo <= hi else tr0
                return rb
        pty = o.get("ty")
        if pr == ["as Continue#0", ".0"]:
            # the payload of `x?`: follow x back to the Ok(..) values it can hold
            r = try_payload_range(ctx, mir, l, depth)
            if r is not None:
                return r
        if pty in ctx.enum_max:
            return ctx.enum_max[pty]
        return INT_RANGE.get(pty)
    tr = INT_RANGE.get(ty)
    ds = defs_of(mir, l)
    if len(ds) != 1:
        return tr
    d = ds[0][1]
    if "r" in d:
        r = d["r"]
        k = r.get("rv")
        if k == "use":
            return rng(ctx, mir, r["a"], depth + 1) or tr
        if k == "cast":
            src = r["a"]
            sr = rng(ctx, mir, src, depth + 1)
            st = src.get("ty") or local_ty(mir, (src.get("p") or {}).get("l"))
            if sr is None and st in ctx.enum_max:
                sr = ctx.enum_max[st]
            if sr is None:
                sr = INT_RANGE.get(st)
            if sr is not None and tr is not None and sr[0] >= tr[0] and sr[1] <= tr[1]:
                return sr
            return tr
        if k == "bin":
            return rng_bin(ctx, mir, r, depth) or tr
        if k == "discr":
            if r.get("ty") in ctx.enum_max:
                return ctx.enum_max[r["ty"]]
            return tr
        return tr
    if d.get("t") == "call":
        c = d.get("resolved") or d.get("fn") or ""
        if re.search(r"NonZero<\w+>::get$|NonZeroU\d+::get$|num::nonzero::NonZero::<T>::get$", c) or c.endswith("NonZero::<T>::get"):
            return (1, tr[1]) if tr else None
        if c.endswith("::len") and d.get("args"):
            # a live slice / Vec of n elements occupies n * size_of::<T>() <= isize::MAX bytes
            a0 = d["args"][0]
            aty = a0.get("ty") or local_ty(mir, (a0.get("p") or {}).get("l"))
            es = ctx.elem_size(aty)
            if es:
                return (0, (2**63 - 1) // es)
            return (0, 2**63 - 1)
        if c.endswith("::len") or c.endswith("::count") or c.endswith("unset_bits"):
            return (0, 2**63 - 1)
        if c.endswith("convert::From::from") or re.search(r"<impl std::convert::From<[\w:]+> for \w+>::from$", c):
            # lossless integer widening: the argument's range
            a = rng(ctx, mir, d["args"][0], depth + 1) if d.get("args") else None
            if a is None and d.get("args"):
                # `u8::from(enum)` (num_enum's IntoPrimitive: the discriminant): the enum's largest discriminant bounds it
                a0 = d["args"][0]
                aty = a0.get("ty") or local_ty(mir, (a0.get("p") or {}).get("l"))
                if aty in ctx.enum_max and reach.owner_of(c) in ctx.G.local:
                    a = ctx.enum_max[aty]
            if a is not None and tr is not None and a[0] >= tr[0] and a[1] <= tr[1]:
                return a
        if reach.owner_of(c) in ctx.G.local:
            cr = ctx.const_return(reach.owner_of(c))
            if cr:
                return cr
        if c.endswith("cmp::min") or c.endswith("Ord::min"):
            a = [rng(ctx, mir, x, depth + 1) for x in d["args"]]
            if all(a):
                return (min(x[0] for x in a), min(x[1] for x in a))
        return tr
    return tr


def try_payload_range(ctx, mir, cf_local, depth):
    """range of v in `let v = x?` where cf_local holds Try::branch(x): union over the Ok(..) aggregates x can be built from"""
    ds = defs_of(mir, cf_local)
    if len(ds) != 1 or ds[0][1].get("t") != "call" or not (ds[0][1].get("fn") or "").endswith("Try::branch"):
        return None
    src = ds[0][1]["args"][0]
    seen = set()
    work = [src]
    out = None
    while work:
        o = work.pop()
        l = operand_local(o)
        if l is None or l in seen or len(seen) > 12:
            return None
        seen.add(l)
        dd = defs_of(mir, l)
        if not dd:
            return None
        for _, d in dd:
            if "r" not in d:
                # a call result: a local function's Ok payload range, when every value it returns is visibly Ok(bounded) / an error
                if d.get("t") == "call" and (d.get("fn") or "").endswith("FromResidual::from_residual") and "Result<" in ((d.get("gargs") or [""])[0] or ""):
                    continue         # the `?` exit of an inlined helper: always an Err, never the Continue payload
                if d.get("t") == "call":
                    c = d.get("resolved") or d.get("fn") or ""
                    x = ctx.ok_return_range(reach.owner_of(c), depth) if reach.owner_of(c) in ctx.G.local else None
                    if x is not None:
                        out = x if out is None else (min(out[0], x[0]), max(out[1], x[1]))
                        continue
                return None
            r = d["r"]
            if r.get("rv") == "use":
                work.append(r["a"])
            elif r.get("rv") == "agg" and re.search(r"Result#0$", r.get("kind") or ""):
                if len(r["ops"]) != 1:
                    return None
                x = rng(ctx, mir, r["ops"][0], depth + 1)
                if x is None:
                    return None
                out = x if out is None else (min(out[0], x[0]), max(out[1], x[1]))
            elif r.get("rv") == "agg" and re.search(r"Result#1$", r.get("kind") or ""):
                continue             # the Err value never reaches the Continue payload
            else:
                return None
    return out


def rng_bin(ctx, mir, r, depth):
    a = rng(ctx, mir, r["a"], depth + 1)
    b = rng(ctx, mir, r["b"], depth + 1)
    if a is None or b is None:
        return None
    op = r["op"].replace("WithOverflow", "")
    if op == "Add":
        return (a[0] + b[0], a[1] + b[1])
    if op == "Sub":
        return (a[0] - b[1], a[1] - b[0])
    if op == "Mul":
        c = [a[0] * b[0], a[0] * b[1], a[1] * b[0], a[1] * b[1]]
        return (min(c), max(c))
    if op == "Rem" and b[0] > 0:
        return (0, b[1] - 1)
    if op == "Div" and b[0] > 0 and a[0] >= 0:
        return (a[0] // b[1], a[1] // b[0])
    return None


def place_str(mir, o, depth=0):
    """canonical place an operand was copied from (through temporaries): '_51.1' / '_9'"""
    if o.get("o") not in ("copy", "move"):
        return None
    p = o["p"]
    if p.get("pr"):
        return "_%d%s" % (p["l"], "".join(p["pr"]))
    if depth > 6:
        return "_%d" % p["l"]
    ds = defs_of(mir, p["l"])
    if len(ds) == 1 and "r" in ds[0][1] and ds[0][1]["r"].get("rv") == "use" and ds[0][1]["r"]["a"].get("o") in ("copy", "move"):
        # only look through compiler temporaries (unnamed locals)
        named = set(n["p"]["l"] for n in mir.get("names", []) if not n["p"].get("pr"))
        if p["l"] not in named:
            return place_str(mir, ds[0][1]["r"]["a"], depth + 1)
    return "_%d" % p["l"]


GE_TRUE = {("Lt", 1, 0), ("Le", 1, 0), ("Gt", 0, 1), ("Ge", 0, 1)}    # (op, pos of A, pos of B) such that op true => A >= B
GE_FALSE = {("Lt", 0, 1), ("Le", 0, 1), ("Gt", 1, 0), ("Ge", 1, 0)}   # op false => A >= B


def ref_target(mir, o, depth=0):
    """place string a reference operand points to (`&x`, `&*&x`), following single definitions"""
    l = operand_local(o) if isinstance(o, dict) and "o" in o else None
    if l is None or depth > 6:
        return None
    ds = defs_of(mir, l)
    if len(ds) != 1 or "r" not in ds[0][1]:
        return None
    r = ds[0][1]["r"]
    if r.get("rv") == "use":
        return ref_target(mir, r["a"], depth + 1)
    if r.get("rv") == "ref":
        pl = r["p"]
        pr = pl.get("pr") or []
        if pr and pr[0] == "*" and len(pr) == 1:
            return ref_target(mir, {"o": "copy", "p": {"l": pl["l"]}}, depth + 1)
        if "*" in pr:
            return None
        return "_%d%s" % (pl["l"], "".join(pr))
    return None


def ordering_edge(mir, p, cur):
    """when block p switches on the discriminant of `Ord::cmp(&X, &Y)` for integers: (X, Y, relation taken on the edge to cur)"""
    pb = mir["blocks"][p]
    t = pb["term"]
    dl = operand_local(t["discr"])
    src = None
    for s in pb["stmts"]:
        if s["lhs"]["l"] == dl and s["r"].get("rv") == "discr" and "cmp::Ordering" in (s["r"].get("ty") or ""):
            src = s["r"]["p"]["l"]
    if src is None:
        return None
    call = None
    for blk in mir["blocks"]:
        tt = blk["term"]
        if tt.get("t") == "call" and tt["dest"]["l"] == src and not tt["dest"].get("pr"):
            call = tt if call is None else False
    if not call:
        return None
    fn = call.get("resolved") or call.get("fn") or ""
    if not re.search(r"impl std::cmp::Ord for (u8|u16|u32|u64|usize|i8|i16|i32|i64|isize)>::cmp$", fn) or len(call["args"]) != 2:
        return None
    X, Y = ref_target(mir, call["args"][0]), ref_target(mir, call["args"][1])
    if not X or not Y:
        return None
    tg = [v for v, b in t["targets"] if b == cur]
    if len(tg) == 1 and t["otherwise"] != cur:
        rel = {255: "lt", 0: "eq", 1: "gt", -1: "lt"}.get(tg[0])
    elif not tg and t["otherwise"] == cur:
        named = set(v for v, b in t["targets"])
        rest = {255, 0, 1} - set(255 if v == -1 else v for v in named)
        rel = {frozenset([255]): "lt", frozenset([0]): "eq", frozenset([1]): "gt", frozenset([0, 1]): "ge", frozenset([255, 0]): "le"}.get(frozenset(rest))
    else:
        rel = None
    return (X, Y, rel) if rel else None


def dominated_ge(mir, block, A, B, preds):
    """walk back through unique predecessors looking for a branch whose taken edge implies A >= B"""
    cur = block
    for _ in range(16):
        ps = [p for p in preds[cur] if not mir["blocks"][p].get("cleanup")]
        if len(ps) != 1:
            return False
        p = ps[0]
        pb = mir["blocks"][p]
        t = pb["term"]
        if t.get("t") == "switch":
            oe = ordering_edge(mir, p, cur)
            if oe is not None:
                X, Y, rel = oe
                if (X, Y) == (A, B) and rel in ("gt", "ge", "eq"):
                    return True
                if (X, Y) == (B, A) and rel in ("lt", "le", "eq"):
                    return True
            dl = operand_local(t["discr"])
            cmp_ = None
            for s in pb["stmts"]:
                if s["lhs"]["l"] == dl and s["r"].get("rv") == "bin" and s["r"]["op"] in ("Lt", "Le", "Gt", "Ge"):
                    cmp_ = s["r"]
            if cmp_ is not None:
                X, Y = place_str(mir, cmp_["a"]), place_str(mir, cmp_["b"])
                cx = signed_const(cmp_["a"]) if cmp_["a"].get("o") == "const" else None
                taken_true = None
                tg = dict((v, b) for v, b in t["targets"])
                if tg.get(0) == cur and t["otherwise"] != cur:
                    taken_true = False
                elif t["otherwise"] == cur and tg.get(0) != cur:
                    taken_true = True
                if taken_true is not None and {X, Y} == {A, B} and X != Y:
                    key = (cmp_["op"], 0 if X == A else 1, 0 if X == B else 1)
                    if (taken_true and key in GE_TRUE) or ((not taken_true) and key in GE_FALSE):
                        return True
        # do not look past a block that may change A or B
        bases = set(int(re.match(r"_(\d+)", x).group(1)) for x in (A, B) if x)
        for s in pb["stmts"]:
            if s["lhs"]["l"] in bases:
                return False
            r = s["r"]
            if r.get("rv") == "ref" and r.get("mut") and r["p"]["l"] in bases:
                return False
        if t.get("t") == "call" and t["dest"]["l"] in bases:
            return False
        cur = p
    return False



def walk_back(mir, block, preds, limit=10):
    """yield (pred_block_index, taken_true) for branch edges on the unique-predecessor chain above `block`"""
    cur = block
    for _ in range(limit):
        ps = [p for p in preds[cur] if not mir["blocks"][p].get("cleanup")]
        if len(ps) != 1:
            return
        p = ps[0]
        t = mir["blocks"][p]["term"]
        if t.get("t") == "switch":
            tg = dict((v, b) for v, b in t["targets"])
            if tg.get(0) == cur and t["otherwise"] != cur:
                yield p, False
            elif t["otherwise"] == cur and tg.get(0) != cur:
                yield p, True
            else:
                yield p, None
        else:
            yield p, None
        cur = p


def single_def(mir, l):
    """local assigned at most once and never mutably borrowed: its value is stable wherever it is live"""
    if l is None:
        return False
    n = 0
    for blk in mir["blocks"]:
        for st in blk["stmts"]:
            if st["lhs"]["l"] == l:
                n += 1
            r = st["r"]
            if r.get("rv") in ("ref", "rawptr") and r.get("mut", True) and r["p"]["l"] == l:
                return False
        t = blk["term"]
        if t.get("t") == "call" and t["dest"]["l"] == l:
            n += 1
    return n <= 1


def dom_edges(mir, block):
    """(D, taken_true) for every dominating switch one of whose successors dominates `block`"""
    dom, succ, preds, _ = dominators(mir)
    out = []
    for d in sorted(dom.get(block, ()), reverse=True):
        t = mir["blocks"][d]["term"]
        if t.get("t") != "switch" or d == block:
            continue
        tg = dict((v, b) for v, b in t["targets"])
        f_t, t_t = tg.get(0), t["otherwise"]
        if f_t is None or f_t == t_t:
            continue
        fd = f_t in dom[block]
        td = t_t in dom[block]
        if fd != td:
            out.append((d, td))
    return out


def switch_cmp(mir, p):
    """the comparison rvalue a switch block branches on, or None"""
    pb = mir["blocks"][p]
    t = pb["term"]
    if t.get("t") != "switch":
        return None
    dl = operand_local(t["discr"])
    for s in pb["stmts"]:
        if s["lhs"]["l"] == dl and not s["lhs"].get("pr") and s["r"].get("rv") == "bin":
            return s["r"]
    return None


def modifies(mir, p, bases):
    pb = mir["blocks"][p]
    for s in pb["stmts"]:
        if s["lhs"]["l"] in bases:
            return True
        r = s["r"]
        if r.get("rv") == "ref" and r.get("mut") and r["p"]["l"] in bases:
            return True
    t = pb["term"]
    return t.get("t") == "call" and t["dest"]["l"] in bases


def base_of(pl):
    m = re.match(r"_(\d+)", pl or "")
    return int(m.group(1)) if m else None


def refine_by_const(ctx, mir, block, A, preds):
    """range of place A implied by dominating comparisons with constants on the unique-predecessor chain"""
    lo, hi = None, None
    bases = {base_of(A)}
    edges = dom_edges(mir, block) if ("." not in A and single_def(mir, base_of(A))) else list(walk_back(mir, block, preds))
    stable = "." not in A and single_def(mir, base_of(A))
    for p, taken in edges:
        c = switch_cmp(mir, p)
        if c is not None and taken is not None and c["op"] in ("Lt", "Le", "Gt", "Ge"):
            X, Y = place_str(mir, c["a"]), place_str(mir, c["b"])
            ra, rb = rng(ctx, mir, c["a"]), rng(ctx, mir, c["b"])
            op = c["op"]
            if not taken:
                op = {"Lt": "Ge", "Le": "Gt", "Gt": "Le", "Ge": "Lt"}[op]
            if X == A and rb:
                if op == "Lt":
                    hi = rb[1] - 1 if hi is None else min(hi, rb[1] - 1)
                elif op == "Le":
                    hi = rb[1] if hi is None else min(hi, rb[1])
                elif op == "Gt":
                    lo = rb[0] + 1 if lo is None else max(lo, rb[0] + 1)
                elif op == "Ge":
                    lo = rb[0] if lo is None else max(lo, rb[0])
            elif Y == A and ra:
                if op == "Gt":
                    hi = ra[1] - 1 if hi is None else min(hi, ra[1] - 1)
                elif op == "Ge":
                    hi = ra[1] if hi is None else min(hi, ra[1])
                elif op == "Lt":
                    lo = ra[0] + 1 if lo is None else max(lo, ra[0] + 1)
                elif op == "Le":
                    lo = ra[0] if lo is None else max(lo, ra[0])
        if not stable and modifies(mir, p, bases):
            break
    return lo, hi


def rem_dominated(ctx, mir, block, A, need, preds):
    """A % k == r (r >= need) holds on the chain above `block` => A >= need"""
    bases = {base_of(A)}
    stable = "." not in A and single_def(mir, base_of(A))
    edges = dom_edges(mir, block) if stable else list(walk_back(mir, block, preds))
    for p, taken in edges:
        c = switch_cmp(mir, p)
        if c is not None and taken is not None and c["op"] in ("Eq", "Ne"):
            # one side is a constant r, the other traces to Rem(A, k)
            for x, y in ((c["a"], c["b"]), (c["b"], c["a"])):
                r = rng(ctx, mir, y)
                xl = operand_local(x)
                if r and r[0] == r[1] and xl is not None:
                    ds = defs_of(mir, xl)
                    if len(ds) == 1 and "r" in ds[0][1] and ds[0][1]["r"].get("rv") == "bin" and ds[0][1]["r"]["op"] == "Rem":
                        if place_str(mir, ds[0][1]["r"]["a"]) == A:
                            eq_holds = (c["op"] == "Eq") == taken
                            if eq_holds and r[0] >= need:
                                return True
        if not stable and modifies(mir, p, bases):
            break
    return False


def array_len(ty):
    m = re.match(r"^&?(?:mut )?\[.*; (\d+)\]$", ty or "")
    return int(m.group(1)) if m else None


def discharge_R(ctx, site):
    """returns a reason string if the site cannot fire, decided from constants/types/dominating comparisons"""
    if site["kind"] == "alloc":
        t = site["term"]
        fn = t.get("fn") or ""
        arg = t["args"][1] if fn.endswith("from_elem") and len(t["args"]) == 2 else (t["args"][-1] if t.get("args") else None)
        elem = (t.get("gargs") or ["u8"])[0]
        size = ctx.sizes.get(elem)
        if arg is not None and size:
            r = rng(ctx, site["mir"], arg)
            if r is not None and r[0] >= 0 and r[1] * size <= 2**63 - 1:
                return "requested length in [%d, %d] x %d bytes: cannot exceed isize::MAX (allocation failure itself is outside the inventory)" % (r[0], r[1], size)
        return None

    mir, t = site["mir"], site["term"]
    k = site["kind"]
    if k.startswith("overflow:"):
        op = k.split(":")[1]
        a, b = rng(ctx, mir, t["a"]), rng(ctx, mir, t["b"])
        # result type = type of operand a
        aty = t["a"].get("ty") if t["a"].get("o") == "const" else local_ty(mir, (t["a"].get("p") or {}).get("l"))
        tr = INT_RANGE.get(aty)
        if a and b and tr:
            res = {"Add": (a[0] + b[0], a[1] + b[1]), "Sub": (a[0] - b[1], a[1] - b[0]),
                   "Mul": (min(a[0] * b[0], a[0] * b[1], a[1] * b[0], a[1] * b[1]), max(a[0] * b[0], a[0] * b[1], a[1] * b[0], a[1] * b[1]))}.get(op)
            if res and res[0] >= tr[0] and res[1] <= tr[1]:
                return "interval %s %s %s = %s within %s" % (a, op, b, res, aty)
        _, _, preds, _ = dominators(mir)
        if op == "Sub":
            A, B = place_str(mir, t["a"]), place_str(mir, t["b"])
            if A and B and dominated_ge(mir, site["block"], A, B, preds):
                return "dominated by a comparison establishing %s >= %s" % (A, B)
            if A and b and b[0] == b[1] and rem_dominated(ctx, mir, site["block"], A, b[1], preds):
                return "dominated by %s %% k == r with r >= %d" % (A, b[1])
        # refine operand ranges by dominating comparisons with constants
        if tr and a and b:
            ra, rb = list(a), list(b)
            for which, o_ in ((ra, t["a"]), (rb, t["b"])):
                P = place_str(mir, o_)
                if P:
                    lo, hi = refine_by_const(ctx, mir, site["block"], P, preds)
                    if lo is not None:
                        which[0] = max(which[0], lo)
                    if hi is not None:
                        which[1] = min(which[1], hi)
            res = {"Add": (ra[0] + rb[0], ra[1] + rb[1]), "Sub": (ra[0] - rb[1], ra[1] - rb[0])}.get(op)
            if res and res[0] >= tr[0] and res[1] <= tr[1]:
                return "interval refined by dominating comparisons: %s %s %s within %s" % (tuple(ra), op, tuple(rb), aty)
        return None
    if k in ("rem_zero", "div_zero"):
        # the divisor is operand of the Rem/Div that follows; the assert's cond is `Eq(divisor, 0)`: find a constant divisor
        blk = mir["blocks"][site["block"]]
        for s in blk["stmts"]:
            if s["r"].get("rv") == "bin" and s["r"]["op"] == "Eq":
                for x in (s["r"]["a"], s["r"]["b"]):
                    pass
        nxt = mir["blocks"][t["target"]]
        for s in nxt["stmts"]:
            if s["r"].get("rv") == "bin" and s["r"]["op"] in ("Rem", "Div"):
                d = rng(ctx, mir, s["r"]["b"])
                if d and (d[0] > 0 or d[1] < 0):
                    return "divisor range %s excludes zero" % (d,)
        return None
    if k == "bounds":
        ln = rng(ctx, mir, t["len"]) if t.get("len") else None
        ix = rng(ctx, mir, t["index"]) if t.get("index") else None
        if ln and ix and ix[0] >= 0 and ix[1] < ln[0]:
            return "index range %s below length %s" % (ix, ln)
        return None
    if k == "index":
        # Index::index(base, idx) through the trait: RangeFull never panics; constant ranges within a fixed array length
        args = t.get("args") or []
        g = t.get("gargs") or []
        if len(args) == 2:
            ity = g[1] if len(g) > 1 else ""
            if ity == "std::ops::RangeFull":
                return "full-range slice"
            n = array_len(g[0] if g else "")
            if n is None:
                # base may be a reference local
                bl = operand_local(args[0])
                n = array_len(local_ty(mir, bl))
                if n is None and bl is not None:
                    ds = defs_of(mir, bl)
                    if len(ds) == 1 and "r" in ds[0][1] and ds[0][1]["r"].get("rv") == "ref":
                        n = array_len(local_ty(mir, ds[0][1]["r"]["p"]["l"]))
            if n is not None and ity.startswith(("std::ops::RangeTo<", "std::ops::RangeToInclusive<", "std::ops::RangeFrom<")):
                # `..e` / `..=e` / `s..` with an evaluable bound inside a fixed array length
                il = operand_local(args[1])
                ds = defs_of(mir, il) if il is not None else []
                if len(ds) == 1 and "r" in ds[0][1] and ds[0][1]["r"].get("rv") == "agg":
                    ops = ds[0][1]["r"]["ops"]
                    rs = [rng(ctx, mir, x) for x in ops]
                    if len(rs) == 1 and rs[0] and rs[0][0] >= 0:
                        hi = rs[0][1] + (1 if "Inclusive" in ity else 0)
                        if hi <= n:
                            return "constant bound %s of a %s within array length %d" % (rs[0], ity.split("<")[0].split("::")[-1], n)
            if n is not None and ity.startswith("std::ops::Range<"):
                il = operand_local(args[1])
                ds = defs_of(mir, il) if il is not None else []
                if len(ds) == 1 and "r" in ds[0][1] and ds[0][1]["r"].get("rv") == "agg":
                    ops = ds[0][1]["r"]["ops"]
                    rs = [rng(ctx, mir, x) for x in ops]
                    if len(rs) == 2 and all(rs) and rs[0][1] <= rs[1][0] and rs[1][1] <= n and rs[0][0] >= 0:
                        return "constant range %s..%s within array length %d" % (rs[0], rs[1], n)
        return None
    if k == "step_by":
        args = t.get("args") or []
        if len(args) == 2:
            s = rng(ctx, mir, args[1])
            if s and s[0] > 0:
                return "step %s is non-zero" % (s,)
        return None
    return None


def load_invariants():
    with open(os.path.join(VERIF, "rules", "c06_invariants.json")) as fh:
        return json.load(fh)["invariants"]


def site_key(owner, site, ordinal):
    what = site["what"].split(" -> ")[0]
    what = re.sub(r"::<[^>]*>", "", what)
    return "%s|%s|%s|%d" % (owner, site["kind"], what.split("::")[-1] if site["kind"] not in ("panic",) else "panic:" + ",".join(m.split("::")[-1] for m in site["mac"][:1]), ordinal)
