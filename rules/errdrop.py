"""Error discipline: sites where a `Result` produced by the library's own code is consumed by a construct that discards its
`Err` instead of propagating it. The constructs are enumerated (the idioms Rust offers for dropping an error):

  D1  `.ok()` / `.unwrap_or*()` / `.is_ok()` / `.is_err()` / `.iter()` / `.into_iter()` / `.unwrap_or_default()` on a Result
  D2  an iterator adapter that flattens Results: `.flat_map(f)` with f returning a Result, `.flatten()` over Result items
      (`Result` is IntoIterator and an `Err` iterates as empty)
  D3  `Result::ok` / `Result::unwrap_or*` / `Result::is_ok` used as a function value (`.filter_map(Result::ok)`)
  D4  `if let Ok(..) = e` / `while let Ok(..)` / `let Ok(..) = e else { .. }` / `match e { Err(_) => .. }` whose error side
      does not itself yield or return an error
  D5  `let _ = e;` and the statement `e;`

Each site is reported with the set of local functions its operand's callee cone reaches, so that a property can select the
drops whose discarded error originates in a given source (e.g. the Shift-JIS decoder)."""
import re

import reach
import tir
from tir import strip, declared

DROP_METHODS = {"ok", "unwrap_or", "unwrap_or_else", "unwrap_or_default", "is_ok", "is_err", "iter", "into_iter", "iter_mut", "is_ok_and", "is_err_and"}
RESULT = "std::result::Result<"


def is_result(ty):
    ty = ty or ""
    while ty.startswith("&"):
        ty = ty[1:].lstrip("mut ").strip()
    return ty.startswith(RESULT)


def carries_result(ty):
    """Result itself, or Option<Result<..>> (what `.transpose()` produces and `filter_map` unwraps)"""
    ty = ty or ""
    return is_result(ty) or ty.startswith("std::option::Option<" + RESULT)


def closure_ret(c):
    c = strip(c)
    if c.get("k") == "Closure":
        return (c.get("body") or {}).get("ty") or ""
    if c.get("k") == "Path" and c.get("res") == "def":
        # a fn item: `fn(..) -> R {path}`
        m = re.search(r"\)\s*->\s*(.+?)(?:\s*\{|$)", c.get("ty") or "")
        return m.group(1) if m else ""
    return ""


def item_type(e, depth=0):
    """the item type of an iterator expression as far as the adapter chain shows it: `.map(f)` -> ret(f),
    `.filter_map(f)` / `.map_while(f)` -> ret(f) without its Option; adapters that keep the item are looked through"""
    e = strip(e)
    if e.get("k") != "MethodCall" or depth > 12:
        return ""
    m = e["method"]
    if m == "map" and e.get("args"):
        return closure_ret(e["args"][0])
    if m in ("filter_map", "map_while") and e.get("args"):
        r = closure_ret(e["args"][0])
        return r[len("std::option::Option<"):-1] if r.startswith("std::option::Option<") else ""
    if m in ("filter", "take", "skip", "rev", "peekable", "by_ref", "chain", "take_while", "skip_while", "step_by", "inspect", "fuse", "into_iter", "iter"):
        return item_type(e["recv"], depth + 1)
    return ""


def error_valued(n, err_fns=()):
    """does this expression (the error side of a match / if-let) yield or return an error on every path?"""
    n = strip(n)
    k = n.get("k")
    if k == "Block":
        last = n.get("tail") or (n.get("stmts") or [None])[-1]
        if last is None:
            return False
        if last.get("k") == "Expr":
            last = last.get("e") or last
        return error_valued(last, err_fns)
    if k == "Ret":
        return n.get("e") is not None and (error_valued(n["e"], err_fns) or is_result((n["e"].get("ty"))) and not _is_ok_ctor(n["e"]))
    if k == "Call":
        p = (n.get("path") or declared(n) or "")
        if p.endswith("::Err"):
            return True
        if p in err_fns or p.endswith(("::bad_data", "::invalid_data")):
            return True
        return False
    if k == "MethodCall" and n["method"] in ("into", "map_err"):
        return error_valued(n["recv"], err_fns)
    if k == "Try":
        return error_valued(n["e"], err_fns)
    if k == "If":
        return n.get("else") is not None and error_valued(n["then"], err_fns) and error_valued(n["else"], err_fns)
    if k == "Match":
        return all(error_valued(a["body"], err_fns) for a in n["arms"])
    if k == "Path" and n.get("res") == "local" and is_result(n.get("ty")):
        return True       # `Err(e) => Err(e)` spelt through a binding of the whole result
    if tir.in_macro(n, "panic", "unreachable", "unimplemented", "todo"):
        return True       # not a silent drop (C06 owns panics)
    return False


def _is_ok_ctor(n):
    n = strip(n)
    return n.get("k") == "Call" and (n.get("path") or "").endswith("::Ok")


def _err_pat(p):
    while p.get("k") == "Ref":
        p = p["pat"]
    return p.get("k") == "TupleStruct" and (p.get("path") or "").endswith("::Err")


def _ok_pat(p):
    while p.get("k") == "Ref":
        p = p["pat"]
    return p.get("k") == "TupleStruct" and (p.get("path") or "").endswith("::Ok")


def _catch_all(p):
    while p.get("k") == "Ref":
        p = p["pat"]
    return p.get("k") in ("Wild", "Bind") and not p.get("sub")


def walk_untried(e):
    """nodes below e whose errors can still be inside e's value: a `?` already propagated its operand's error, so the
    operand of a Try is not descended into"""
    stack = [e]
    while stack:
        x = stack.pop()
        if x.get("k") == "Closure":
            # a `?` inside a closure returns the error from the closure: it is still inside the operand's value
            for y in tir.walk(x):
                yield y
            continue
        yield x
        if x.get("k") == "Try":
            continue
        stack.extend(tir.children(x))


class Inventory:
    def __init__(self, F, graph=None):
        self.F = F
        self.G = graph or reach.Graph(F)
        self._cone = {}

    def cone(self, e):
        """local fns reachable from the calls inside expression e (closures included)"""
        direct = set()
        for n in walk_untried(e):
            if n.get("k") in ("Call", "MethodCall"):
                c = tir.callee(n) or declared(n)
                if c:
                    direct.add(reach.owner_of(c))
            if n.get("k") == "Path" and n.get("res") == "def" and (n.get("dk") or "") in ("Fn", "AssocFn"):
                direct.add(reach.owner_of(n.get("path") or ""))
        out = set(direct)
        for d in direct:
            if d in self.G.local:
                if d not in self._cone:
                    self._cone[d] = set(self.G.reachable([d]))
                out |= self._cone[d]
        return out

    def sites(self, body):
        """drop sites in one fn body: dicts(kind, what, operand, node, sp)"""
        out = []
        root = body["tir"]["value"]

        def add(kind, what, operand, node):
            out.append({"kind": kind, "what": what, "operand": operand, "node": node, "sp": tir.sp(node), "fn": body["path"]})

        for n in tir.walk(root):
            k = n.get("k")
            if k == "MethodCall":
                m = n["method"]
                rty = n["recv"].get("ty")
                if m in DROP_METHODS and is_result(rty) and (declared(n) or "").startswith(("std::result::Result", "core::result::Result", "std::iter::IntoIterator")):
                    add("D1", ".%s() on a Result" % m, n["recv"], n)
                elif m == "flat_map" and n.get("args") and carries_result(closure_ret(n["args"][0])):
                    add("D2", ".flat_map(f) with f returning %s: an Err iterates as empty" % closure_ret(n["args"][0])[:60], n, n)
                elif m == "flatten" and not n.get("args") and is_result(item_type(n["recv"])):
                    add("D2", ".flatten() over Result items: an Err iterates as empty", n["recv"], n)
                for a in n.get("args", []):
                    a0 = strip(a)
                    if a0.get("k") == "Path" and a0.get("res") == "def" and re.search(r"result::Result(::<.*>)?::(ok|unwrap_or\w*|is_ok|is_err)$", a0.get("path") or ""):
                        add("D3", "%s used as a function value" % tir.short(a0["path"]), n["recv"], n)
            elif k == "Call":
                for a in n.get("args", []):
                    a0 = strip(a)
                    if a0.get("k") == "Path" and a0.get("res") == "def" and re.search(r"result::Result(::<.*>)?::(ok|unwrap_or\w*|is_ok|is_err)$", a0.get("path") or ""):
                        add("D3", "%s used as a function value" % tir.short(a0["path"]), n, n)
            elif k == "Match" and is_result(n["scrut"].get("ty")):
                src = n.get("src") or "Normal"
                if src in ("TryDesugar", "QuestionMark", "Try"):
                    continue
                arms = n["arms"]
                err_arms = [a for a in arms if any(_err_pat(p) for p in (a["pat"]["pats"] if a["pat"].get("k") == "Or" else [a["pat"]]))]
                rest = [a for a in arms if _catch_all(a["pat"])]
                has_ok = any(_ok_pat(p) for a in arms for p in (a["pat"]["pats"] if a["pat"].get("k") == "Or" else [a["pat"]]))
                if not has_ok and not err_arms:
                    continue
                bad = [a for a in (err_arms + rest) if not error_valued(a["body"])]
                if bad:
                    add("D4", "match on a Result whose error side does not yield or return an error", n["scrut"], n)
            elif k == "If" and (n.get("cond") or {}).get("k") == "LetCond":
                c = n["cond"]
                if is_result(c["init"].get("ty")) and _ok_pat(c["pat"]):
                    if n.get("else") is None or not error_valued(n["else"]):
                        add("D4", "if let Ok(..) whose else side does not yield or return an error", c["init"], n)
            elif k == "Let" and n.get("init") is not None and is_result(n["init"].get("ty")):
                p = n["pat"]
                if p.get("k") == "Wild":
                    add("D5", "`let _ =` of a Result", n["init"], n)
                elif _ok_pat(p) and n.get("els") is not None and not error_valued(n["els"]):
                    add("D4", "let Ok(..) = e else {..} whose else side does not yield or return an error", n["init"], n)
            elif k == "Expr" and n.get("semi") and is_result((n.get("e") or {}).get("ty")) and (n["e"].get("k") not in ("Ret", "Break")):
                add("D5", "a Result-valued statement whose value is discarded", n["e"], n)
        return out

    def all_sites(self, pred=None):
        out = []
        for b in self.F.fn_bodies():
            if pred is not None and not pred(b):
                continue
            out += self.sites(b)
        return out


def site_key(s):
    """line-independent key: fn | kind | operand callee chain"""
    calls = []
    for n in tir.walk(s["operand"]):
        if n.get("k") in ("Call", "MethodCall"):
            c = tir.callee(n) or declared(n) or n.get("method") or ""
            calls.append(tir.short(reach.owner_of(c)))
    return "%s|%s|%s" % (s["fn"], s["kind"], ",".join(sorted(set(calls)))[:160])
