"""Canonicalisation of the typed trees toward the pinned tree's shape.

The rules anchor on the idioms of the pinned sources. A refactor that preserves behaviour (extracting a private helper,
hoisting a value into a `let`, renaming locals, spelling an API call differently) must not raise an alarm, so before
any rule runs the trees are rewritten by transformations that are semantics-preserving by construction:

  H  a function that does not exist on the pinned tree (not in anchors.json) and is called directly is inlined at its call
     sites (parameters substituted or let-bound, binding ids made fresh, `?`/`return Err(..)` kept only at `?` call sites)
  L  bindings are aligned with the pinned binding list of the same function (weighted LCS on type and name); aligned
     bindings take the pinned name (alpha-renaming by binding id); an extra immutable `let` is substituted into its uses
     when that cannot change evaluation (pure initialiser whose inputs are not written in between, or single use in the
     next statement with nothing evaluated before it)
  S  spelling: `match <bool> { true => A, _ => B }` becomes `if`; lossless `T::from(x)` between integer types becomes a
     cast; `!x.is_empty()` becomes `x.len() > 0`

Nothing here looks at what a rule wants to see; every rewrite is an equivalence of Rust semantics, so a rule that holds
on the canonical tree holds on the source."""
import copy
import json
import re
import os

import tir

VERIF = os.path.dirname(os.path.dirname(os.path.abspath(__file__)))

INT_RANGE = {"i8": (-128, 127), "i16": (-2**15, 2**15 - 1), "i32": (-2**31, 2**31 - 1), "i64": (-2**63, 2**63 - 1), "u8": (0, 255), "u16": (0, 2**16 - 1),
             "u32": (0, 2**32 - 1), "u64": (0, 2**64 - 1), "usize": (0, 2**64 - 1), "isize": (-2**63, 2**63 - 1), "u128": (0, 2**128 - 1), "i128": (-2**127, 2**127 - 1)}


# ------------------------------------------------------------------------------------------------ tree utilities

def map_children(n, f):
    """replace every direct child x of n by f(x) (in place); statements, arms and struct fields are unwrapped like tir.children"""
    for k in tir.CHILD_KEYS:
        v = n.get(k)
        if v is None:
            continue
        if isinstance(v, dict):
            if "k" in v:
                n[k] = f(v)
            else:
                for kk in ("e", "body", "guard"):
                    if isinstance(v.get(kk), dict):
                        v[kk] = f(v[kk])
        elif isinstance(v, list):
            for i, x in enumerate(v):
                if not isinstance(x, dict):
                    continue
                if "k" in x:
                    v[i] = f(x)
                else:
                    for kk in ("e", "body", "guard"):
                        if isinstance(x.get(kk), dict):
                            x[kk] = f(x[kk])


def rewrite(n, f):
    """bottom-up rewriting: children first, then f on the node; returns the new node"""
    if not isinstance(n, dict):
        return n
    map_children(n, lambda c: rewrite(c, f))
    return f(n)


def binding_pats(p, out):
    if not isinstance(p, dict):
        return
    if p.get("k") == "Bind":
        out.append(p)
    for k in ("sub", "pat", "mid"):
        if isinstance(p.get(k), dict):
            binding_pats(p[k], out)
    for k in ("pats", "before", "after"):
        for q in p.get(k, []) or []:
            binding_pats(q, out)
    for fl in p.get("fields", []) or []:
        if isinstance(fl, dict) and "pat" in fl:
            binding_pats(fl["pat"], out)


def all_binding_pats(t):
    """binding patterns of a body in source order (the order anchors.json records)"""
    pats = []
    for p in t["params"]:
        binding_pats(p, pats)
    for n in tir.walk(t["value"]):
        if n.get("k") in ("Let", "LetCond", "For"):
            binding_pats(n.get("pat"), pats)
        if n.get("k") == "Closure":
            for p in n["params"]:
                binding_pats(p, pats)
        if n.get("k") == "Match":
            for arm in n["arms"]:
                binding_pats(arm["pat"], pats)
    return pats


def parents_of(root):
    par = {}
    st = [root]
    while st:
        x = st.pop()
        for c in tir.children(x):
            par[id(c)] = x
            st.append(c)
    return par


# ------------------------------------------------------------------------------------------------ S: spelling

def _is_bool_lit(p, v=None):
    return p.get("k") == "Lit" and p["e"].get("lit") == "bool" and (v is None or bool(p["e"]["v"]) == v)


_GENERATED_BODY = [False]


def spell(n):
    k = n.get("k")
    if _GENERATED_BODY[0]:
        return n
    if k == "Match" and n.get("src") == "Normal" and (tir.strip(n["scrut"]).get("ty") == "bool" or n["scrut"].get("ty") == "bool") and len(n["arms"]) == 2 and not any(a.get("guard") for a in n["arms"]):
        a0, a1 = n["arms"]
        t = f = None
        if _is_bool_lit(a0["pat"], True) and (a1["pat"].get("k") == "Wild" or _is_bool_lit(a1["pat"], False)):
            t, f = a0["body"], a1["body"]
        elif _is_bool_lit(a0["pat"], False) and (a1["pat"].get("k") == "Wild" or _is_bool_lit(a1["pat"], True)):
            f, t = a0["body"], a1["body"]
        if t is not None:
            unit_else = f.get("k") == "Block" and not f.get("stmts") and not f.get("tail")
            out = {"k": "If", "ty": n.get("ty"), "sp": n.get("sp"), "cond": n["scrut"], "then": _as_block(t), "canon": "bool-match"}
            if not unit_else or n.get("ty") not in ("()", None):
                out["else"] = _as_block(f)
            if n.get("mac"):
                out["mac"] = n["mac"]
            return out
    if k == "Let" and isinstance(n.get("els"), dict) and n.get("init") is not None:
        # `let Some(x) = opt else { return Err(E) };` is `let x = opt.ok_or_else(|| E)?;`
        p = n["pat"]
        els = n["els"]
        r = None
        if els.get("k") == "Block" and not els.get("stmts") and (els.get("tail") or {}).get("k") == "Ret":
            r = els["tail"]
        elif els.get("k") == "Block" and len(els.get("stmts", [])) == 1 and els.get("tail") is None and (els["stmts"][0].get("e") or {}).get("k") == "Ret":
            r = els["stmts"][0]["e"]
        rv = tir.strip(r["e"]) if r is not None and r.get("e") is not None else None
        ity = n["init"].get("ty") or ""
        if (rv is not None and rv.get("k") == "Call" and (rv.get("path") or "").endswith("::Err") and len(rv.get("args", [])) == 1 and p.get("k") == "TupleStruct"
                and (p.get("path") or "").endswith("::Some") and len(p.get("pats", [])) == 1 and p["pats"][0].get("k") in ("Bind", "Wild") and not p["pats"][0].get("sub")
                and ity.startswith("std::option::Option<")):
            pay = ity[len("std::option::Option<"):-1]
            cl = {"k": "Closure", "ty": "{closure}", "sp": rv.get("sp"), "def": None, "params": [], "body": rv["args"][0], "canon": "let-else-err"}
            call = {"k": "MethodCall", "ty": "std::result::Result<%s, %s>" % (pay, rv["args"][0].get("ty")), "sp": n["init"].get("sp"), "method": "ok_or_else", "path": "std::option::Option::<T>::ok_or_else",
                    "resolved": None, "local": False, "gargs": [], "recv": n["init"], "args": [cl], "canon": "let-else-err"}
            out = dict(n)
            out["pat"] = p["pats"][0]
            out["init"] = {"k": "Try", "ty": pay, "sp": n["init"].get("sp"), "e": call, "canon": "let-else-err"}
            out["els"] = None
            out["canon"] = "let-else-err"
            return out
    if k == "MethodCall" and n.get("method") in ("unwrap_or", "unwrap_or_else", "ok_or", "ok_or_else") and len(n.get("args", [])) == 1:
        # `b.then(|| X).unwrap_or(D)` / `b.then_some(X).ok_or_else(|| E)`: the Option built from a bool is a two-way branch
        r = tir.strip(n["recv"])
        if r.get("k") == "MethodCall" and r.get("method") in ("then", "then_some") and len(r.get("args", [])) == 1 and (r["recv"].get("ty") or "").lstrip("&") == "bool" \
                and (r.get("path") or "").startswith(("std::bool", "core::bool", "bool::")):
            x = tir.strip(r["args"][0])
            lazy_x = r["method"] == "then"
            if lazy_x and x.get("k") == "Closure" and not x.get("params"):
                xv = x["body"]
            elif not lazy_x and pure_expr(r["args"][0]):
                xv = r["args"][0]
            else:
                xv = None
            d = tir.strip(n["args"][0])
            lazy_d = n["method"].endswith("_else")
            if lazy_d and d.get("k") == "Closure" and not d.get("params"):
                dv = d["body"]
            elif not lazy_d and pure_expr(n["args"][0]):
                dv = n["args"][0]
            else:
                dv = None
            if xv is not None and dv is not None and not _contains(xv, ("Ret", "Try", "Break", "Continue")) and not _contains(dv, ("Ret", "Try", "Break", "Continue")):
                if n["method"].startswith("ok_or"):
                    okc = {"k": "Call", "ty": n.get("ty"), "sp": xv.get("sp"), "res": "def", "dk": "Ctor(Variant, Fn)", "path": "std::prelude::v1::Ok", "args": [xv], "canon": "bool-then"}
                    erc = {"k": "Call", "ty": n.get("ty"), "sp": dv.get("sp"), "res": "def", "dk": "Ctor(Variant, Fn)", "path": "std::prelude::v1::Err", "args": [dv], "canon": "bool-then"}
                    xv, dv = okc, erc
                return {"k": "If", "ty": n.get("ty"), "sp": n.get("sp"), "cond": r["recv"], "then": _as_block(xv), "else": _as_block(dv), "canon": "bool-then"}
    if k == "Try":
        e = n["e"]
        # `(if c { Ok(a) } else { Err(e) })?` is `if c { a } else { return Err(e) }`
        if e.get("k") == "If" and e.get("else") is not None and e.get("canon") == "bool-then":
            t_, f_ = tir.strip(e["then"]), tir.strip(e["else"])
            if t_.get("k") == "Call" and (t_.get("path") or "").endswith("::Ok") and f_.get("k") == "Call" and (f_.get("path") or "").endswith("::Err") and len(t_["args"]) == 1:
                ret = {"k": "Ret", "ty": "!", "sp": f_.get("sp"), "e": f_, "canon": "bool-then"}
                return {"k": "If", "ty": n.get("ty"), "sp": n.get("sp"), "cond": e["cond"], "then": _as_block(t_["args"][0]),
                        "else": {"k": "Block", "ty": "!", "sp": f_.get("sp"), "stmts": [{"k": "Expr", "e": ret, "semi": True}], "tail": None}, "canon": "bool-then"}
        # `opt.map_or(Ok(()), |x| BODY)?;` is `if let Some(x) = opt { BODY?; }`
        if e.get("k") == "MethodCall" and e.get("method") == "map_or" and len(e.get("args", [])) == 2 and (e["recv"].get("ty") or "").startswith("std::option::Option<") and n.get("ty") == "()":
            d, cl = tir.strip(e["args"][0]), tir.strip(e["args"][1])
            unit_ok = d.get("k") == "Call" and (d.get("path") or "").endswith("::Ok") and len(d.get("args", [])) == 1 and tir.strip(d["args"][0]).get("k") == "Tup" and not tir.strip(d["args"][0]).get("elems")
            if unit_ok and cl.get("k") == "Closure" and len(cl.get("params", [])) == 1 and not any(x.get("k") == "Ret" for x in _strip_closures(cl["body"])):
                body = _as_block(cl["body"])
                stmts = list(body.get("stmts", []))
                if body.get("tail") is not None:
                    # the new `tail?` may itself be one of the forms above (a nested map_or): spell it again
                    stmts.append({"k": "Expr", "e": spell(spell({"k": "Try", "ty": "()", "sp": body["tail"].get("sp"), "e": body["tail"], "canon": "map_or-unit"})), "semi": True})
                p = cl["params"][0]
                pat = {"k": "TupleStruct", "ty": e["recv"].get("ty"), "sp": p.get("sp"), "path": "std::prelude::v1::Some", "pats": [p], "dd": None}
                return {"k": "If", "ty": "()", "sp": n.get("sp"), "cond": {"k": "LetCond", "ty": "bool", "sp": e["recv"].get("sp"), "pat": pat, "init": e["recv"]},
                        "then": {"k": "Block", "ty": "()", "sp": body.get("sp"), "stmts": stmts, "tail": None}, "canon": "map_or-unit"}
    if k == "If" and n["cond"].get("k") == "LetCond" and not n.get("else") and (n.get("ty") or "()") == "()":
        # `if let Some(P) = opt { if G { A } }` with pure opt and G, and A not using P, is `if opt.map_or(false, |P| G) { A }`
        c = n["cond"]
        p = c["pat"]
        while p.get("k") == "Ref":
            p = p["pat"]
        th = n["then"]
        inner = None
        if th.get("k") == "Block" and not th.get("stmts") and isinstance(th.get("tail"), dict):
            inner = th["tail"]
        elif th.get("k") == "Block" and len(th.get("stmts", [])) == 1 and th.get("tail") is None and th["stmts"][0].get("k") == "Expr":
            inner = th["stmts"][0]["e"]
        if (inner is not None and inner.get("k") == "If" and inner["cond"].get("k") != "LetCond" and not inner.get("else")
                and p.get("k") == "TupleStruct" and (p.get("path") or "").endswith("::Some") and len(p.get("pats", [])) == 1 and p["pats"][0].get("k") == "Bind" and not p["pats"][0].get("sub")
                and (c["init"].get("ty") or "").startswith("std::option::Option<") and pure_expr(c["init"]) and pure_expr(inner["cond"])
                and not any(x.get("k") == "Path" and x.get("id") == p["pats"][0].get("id") for x in tir.walk(inner["then"]))):
            cl = {"k": "Closure", "ty": "{closure}", "sp": inner["cond"].get("sp"), "def": None, "params": [p["pats"][0]], "body": inner["cond"], "canon": "iflet-if"}
            cond = {"k": "MethodCall", "ty": "bool", "sp": c.get("sp"), "method": "map_or", "path": "std::option::Option::<T>::map_or", "resolved": None, "local": False, "gargs": [],
                    "recv": c["init"], "args": [{"k": "Lit", "lit": "bool", "v": False, "ty": "bool", "sp": c.get("sp")}, cl], "canon": "iflet-if"}
            return {"k": "If", "ty": n.get("ty"), "sp": n.get("sp"), "cond": cond, "then": inner["then"], "canon": "iflet-if"}
    if k == "Match" and n.get("src") == "Normal" and len(n.get("arms", [])) == 2 and not any(a.get("guard") for a in n["arms"]) and (n.get("ty") or "()") not in ("()", "!"):
        # `match opt { Some(P) => A, None => return Err(E) }` with irrefutable P and A free of control flow is `opt.map(|P| A).ok_or_else(|| E)?`
        some = none = None
        for a in n["arms"]:
            p = a["pat"]
            while p.get("k") == "Ref":
                p = p["pat"]
            if p.get("k") == "TupleStruct" and (p.get("path") or "").endswith("::Some") and len(p.get("pats", [])) == 1:
                some = (p["pats"][0], a["body"])
            elif p.get("k") == "Wild" or (p.get("path") or (p.get("e") or {}).get("path") or "").endswith("::None"):
                none = a["body"]
        sty = n["scrut"].get("ty") or ""
        if some is not None and none is not None and sty.startswith("std::option::Option<") and some[0].get("k") in ("Bind", "Wild") and not some[0].get("sub"):
            nb = tir.strip(none)
            if nb.get("k") == "Block" and len(nb.get("stmts", [])) == 1 and nb.get("tail") is None and nb["stmts"][0].get("k") == "Expr":
                nb = tir.strip(nb["stmts"][0]["e"])
            rv = tir.strip(nb.get("e") or {}) if nb.get("k") == "Ret" else None
            if rv is not None and rv.get("k") == "Call" and (rv.get("path") or "").endswith("::Err") and len(rv.get("args", [])) == 1 and not _contains(some[1], ("Ret", "Try", "Break", "Continue")):
                sb = tir.strip(some[1])
                recv = n["scrut"]
                if not (some[0].get("k") == "Bind" and sb.get("k") == "Path" and sb.get("res") == "local" and sb.get("id") == some[0].get("id")):
                    cl = {"k": "Closure", "ty": "{closure}", "sp": some[1].get("sp"), "def": None, "params": [some[0]], "body": some[1], "canon": "match-or-err"}
                    recv = {"k": "MethodCall", "ty": "std::option::Option<%s>" % n.get("ty"), "sp": n.get("sp"), "method": "map", "path": "std::option::Option::<T>::map", "resolved": None, "local": False,
                            "gargs": [], "recv": n["scrut"], "args": [cl], "canon": "match-or-err"}
                ecl = {"k": "Closure", "ty": "{closure}", "sp": rv.get("sp"), "def": None, "params": [], "body": rv["args"][0], "canon": "match-or-err"}
                call = {"k": "MethodCall", "ty": "std::result::Result<%s, %s>" % (n.get("ty"), rv["args"][0].get("ty")), "sp": n.get("sp"), "method": "ok_or_else", "path": "std::option::Option::<T>::ok_or_else",
                        "resolved": None, "local": False, "gargs": [], "recv": recv, "args": [ecl], "canon": "match-or-err"}
                return {"k": "Try", "ty": n.get("ty"), "sp": n.get("sp"), "e": call, "canon": "match-or-err"}
    if k == "Match" and n.get("src") == "Normal" and n.get("ty") == "()" and len(n.get("arms", [])) == 2 and not any(a.get("guard") for a in n["arms"]):
        # a statement `match opt { Some(P) => A, None => {} }` is `if let Some(P) = opt { A }`
        some = none = None
        for a in n["arms"]:
            p = a["pat"]
            while p.get("k") == "Ref":
                p = p["pat"]
            if p.get("k") == "TupleStruct" and (p.get("path") or "").endswith("::Some") and len(p.get("pats", [])) == 1:
                some = a
            elif p.get("k") == "Wild" or (p.get("path") or (p.get("e") or {}).get("path") or "").endswith("::None"):
                none = a
        if some is not None and none is not None and (n["scrut"].get("ty") or "").lstrip("&").startswith("std::option::Option<"):
            nb = none["body"]
            empty = nb.get("k") == "Block" and not nb.get("stmts") and nb.get("tail") is None or nb.get("k") == "Tup" and not nb.get("elems")
            if empty:
                return {"k": "If", "ty": "()", "sp": n.get("sp"), "cond": {"k": "LetCond", "ty": "bool", "sp": n["scrut"].get("sp"), "pat": some["pat"], "init": n["scrut"]},
                        "then": _as_block(some["body"]), "canon": "match-option-unit"}
    if k == "Match" and n.get("src") == "Normal" and len(n.get("arms", [])) == 2 and not n["arms"][0].get("guard") and not n["arms"][1].get("guard") \
            and n["arms"][1]["pat"].get("k") == "Wild" and (n["scrut"].get("ty") or "").startswith("std::option::Option<"):
        # `match opt { Some(S { flag: true }) => A, _ => B }` is `if opt.map_or(false, |q| q.flag) { A } else { B }`
        p = n["arms"][0]["pat"]
        if p.get("k") == "TupleStruct" and (p.get("path") or "").endswith("::Some") and len(p.get("pats", [])) == 1:
            q = p["pats"][0]
            if q.get("k") == "Struct" and (q.get("dk") or "") == "Struct" and len(q.get("fields", [])) == 1:
                fl = q["fields"][0]
                fp = fl.get("pat") or {}
                if fp.get("k") == "Lit" and isinstance(fp.get("e"), dict) and fp["e"].get("lit") == "bool" and fp["e"].get("v") is True:
                    _closure_counter[0] += 1
                    bid = 900000 + _closure_counter[0]
                    order = _STRUCT_FIELDS.get(q.get("path") or "", [])
                    prm = {"k": "Bind", "ty": q.get("ty"), "sp": q.get("sp"), "name": "q", "id": bid, "mode": "BindingMode(No, Not)"}
                    body = {"k": "Field", "ty": "bool", "sp": q.get("sp"), "name": fl["name"], "idx": order.index(fl["name"]) if fl["name"] in order else None,
                            "base": {"k": "Path", "ty": q.get("ty"), "sp": q.get("sp"), "res": "local", "name": "q", "id": bid}}
                    cl = {"k": "Closure", "ty": "{closure}", "sp": q.get("sp"), "def": None, "params": [prm], "body": body, "canon": "flag-pattern"}
                    cond = {"k": "MethodCall", "ty": "bool", "sp": n.get("sp"), "method": "map_or", "path": "std::option::Option::<T>::map_or", "resolved": None, "local": False, "gargs": [],
                            "recv": n["scrut"], "args": [{"k": "Lit", "lit": "bool", "v": False, "ty": "bool", "sp": n.get("sp")}, cl], "canon": "flag-pattern"}
                    return {"k": "If", "ty": n.get("ty"), "sp": n.get("sp"), "cond": cond, "then": _as_block(n["arms"][0]["body"]), "else": _as_block(n["arms"][1]["body"]), "canon": "flag-pattern"}
    if k == "Match" and n.get("src") == "Normal" and len(n.get("arms", [])) == 2 and n["arms"][0].get("guard") is not None and not n["arms"][1].get("guard") \
            and n["arms"][1]["pat"].get("k") == "Wild" and n.get("ty") != "bool" and pure_expr(_unblock_simple(n["arms"][1]["body"])) \
            and not _contains(n["arms"][0]["guard"], ("Ret", "Try", "Break", "Continue")):
        # `match opt { Some(P) if G => A, _ => B }` with a pure, duplicable B is `match opt { Some(P) => if G { A } else { B }, _ => B }`
        a0, a1 = n["arms"]
        p = a0["pat"]
        while p.get("k") == "Ref":
            p = p["pat"]
        if p.get("k") == "TupleStruct" and (p.get("path") or "").endswith("::Some") and len(p.get("pats", [])) == 1 and p["pats"][0].get("k") == "Bind" \
                and any(x.get("k") == "Path" and x.get("id") == p["pats"][0].get("id") for x in tir.walk(a0["body"])):
            inner = {"k": "If", "ty": n.get("ty"), "sp": a0["guard"].get("sp"), "cond": a0["guard"], "then": _as_block(a0["body"]), "else": _as_block(copy.deepcopy(a1["body"])), "canon": "guard-arm"}
            o = dict(n)
            o["arms"] = [dict(a0, guard=None, body=inner), a1]
            o["canon"] = "guard-arm"
            return spell(o)
    if k == "Match" and n.get("src") == "Normal" and len(n.get("arms", [])) == 2 and n["arms"][0].get("guard") is not None and not n["arms"][1].get("guard") \
            and n["arms"][1]["pat"].get("k") == "Wild" and n.get("ty") != "bool":
        # `match opt { Some(P) if G => A, _ => B }` with A not using P's bindings is `if opt.map_or(false, |P| G) { A } else { B }`
        a0, a1 = n["arms"]
        p = a0["pat"]
        while p.get("k") == "Ref":
            p = p["pat"]
        sty = n["scrut"].get("ty") or ""
        if (p.get("k") == "TupleStruct" and (p.get("path") or "").endswith("::Some") and len(p.get("pats", [])) == 1 and p["pats"][0].get("k") in ("Bind", "Wild") and not p["pats"][0].get("sub")
                and sty.startswith("std::option::Option<") and not _contains(a0["guard"], ("Ret", "Try", "Break", "Continue"))
                and not (p["pats"][0].get("k") == "Bind" and any(x.get("k") == "Path" and x.get("id") == p["pats"][0].get("id") for x in tir.walk(a0["body"])))):
            cl = {"k": "Closure", "ty": "{closure}", "sp": a0["guard"].get("sp"), "def": None, "params": [p["pats"][0]], "body": a0["guard"], "canon": "guard-match"}
            cond = {"k": "MethodCall", "ty": "bool", "sp": n.get("sp"), "method": "map_or", "path": "std::option::Option::<T>::map_or", "resolved": None, "local": False, "gargs": [],
                    "recv": n["scrut"], "args": [{"k": "Lit", "lit": "bool", "v": False, "ty": "bool", "sp": n.get("sp")}, cl], "canon": "guard-match"}
            return {"k": "If", "ty": n.get("ty"), "sp": n.get("sp"), "cond": cond, "then": _as_block(a0["body"]), "else": _as_block(a1["body"]), "canon": "guard-match"}
    if k == "Match" and n.get("ty") == "bool" and len(n.get("arms", [])) == 2:
        # `matches!(opt, Some(P) if G)` = `match opt { Some(P) if G => true, _ => false }` with irrefutable P is `opt.map_or(false, |P| G)`
        a0, a1 = n["arms"]
        p = a0["pat"]
        while p.get("k") == "Ref":
            p = p["pat"]
        t = tir.strip(a0["body"])
        f_ = tir.strip(a1["body"])
        sty = n["scrut"].get("ty") or ""
        if (a0.get("guard") is not None and not a1.get("guard") and a1["pat"].get("k") == "Wild" and t.get("k") == "Lit" and t.get("v") is True and f_.get("k") == "Lit" and f_.get("v") is False
                and p.get("k") == "TupleStruct" and (p.get("path") or "").endswith("::Some") and len(p.get("pats", [])) == 1 and p["pats"][0].get("k") in ("Bind", "Wild") and not p["pats"][0].get("sub")
                and sty.startswith("std::option::Option<") and not _contains(a0["guard"], ("Ret", "Try", "Break", "Continue"))):
            cl = {"k": "Closure", "ty": "{closure}", "sp": a0["guard"].get("sp"), "def": None, "params": [p["pats"][0]], "body": a0["guard"], "canon": "matches"}
            return {"k": "MethodCall", "ty": "bool", "sp": n.get("sp"), "method": "map_or", "path": "std::option::Option::<T>::map_or", "resolved": None, "local": False, "gargs": [],
                    "recv": n["scrut"], "args": [f_, cl], "canon": "matches"}
    if k in ("Match", "If") and (n.get("ty") or "()") not in ("()", "!"):
        # a value computed by `match opt { Some(P) => A, None => B }` / `if let Some(P) = opt { A } else { B }` with B free of side
        # effects and A free of control flow leaving it is `opt.map_or(B, |P| A)`
        scrut = some = none = None
        if k == "Match" and n.get("src") == "Normal" and len(n["arms"]) == 2 and not any(a.get("guard") for a in n["arms"]):
            scrut = n["scrut"]
            for a in n["arms"]:
                p = a["pat"]
                while p.get("k") == "Ref":
                    p = p["pat"]
                if p.get("k") == "TupleStruct" and (p.get("path") or "").endswith("::Some") and len(p.get("pats", [])) == 1:
                    some = (p["pats"][0], a["body"])
                elif (p.get("k") == "Path" or p.get("k") == "Lit" and p["e"].get("k") == "Path") and ((p.get("path") or (p.get("e") or {}).get("path") or "").endswith("::None")):
                    none = a["body"]
                elif p.get("k") == "Wild":
                    none = a["body"]
        elif k == "If" and n["cond"].get("k") == "LetCond" and n.get("else") is not None:
            p = n["cond"]["pat"]
            while p.get("k") == "Ref":
                p = p["pat"]
            if p.get("k") == "TupleStruct" and (p.get("path") or "").endswith("::Some") and len(p.get("pats", [])) == 1:
                scrut, some, none = n["cond"]["init"], (p["pats"][0], n["then"]), n["else"]
        sty = (scrut or {}).get("ty") or ""
        def irrefutable(p):
            if p.get("k") in ("Wild",) or p.get("k") == "Bind" and not p.get("sub"):
                return True
            if p.get("k") == "Ref":
                return irrefutable(p["pat"])
            if p.get("k") == "Tuple":
                return all(irrefutable(x) for x in p.get("pats", []))
            if p.get("k") == "Struct" and (p.get("dk") or "") == "Struct":
                return all(irrefutable(f_.get("pat") or {}) for f_ in p.get("fields", []))
            if p.get("k") == "TupleStruct" and (p.get("dk") or "").startswith("Ctor(Struct"):
                return all(irrefutable(x) for x in p.get("pats", []))
            return False
        if scrut is not None and some is not None and none is not None and irrefutable(some[0]) and sty.lstrip("&").startswith("std::option::Option<") and pure_expr(none) \
                and not _contains(some[1], ("Ret", "Try", "Break", "Continue")) and not _contains(none, ("Ret", "Try", "Break", "Continue")):
            recv = scrut
            if sty.startswith("&"):
                inner = tir.strip(scrut)
                base = scrut["e"] if scrut.get("k") == "AddrOf" else scrut
                recv = {"k": "MethodCall", "ty": "std::option::Option<&%s>" % sty.lstrip("&")[len("std::option::Option<"):-1], "sp": scrut.get("sp"), "method": "as_ref",
                        "path": "std::option::Option::<T>::as_ref", "resolved": None, "local": False, "gargs": [], "recv": base, "args": [], "canon": "match-option"}
            nb = none
            if nb.get("k") == "Block" and not nb.get("stmts") and nb.get("tail") is not None:
                nb = nb["tail"]
            sb = some[1]
            if sb.get("k") == "Block" and not sb.get("stmts") and sb.get("tail") is not None and sb["tail"].get("k") != "Block":
                sb = sb["tail"]
            sbs, nbs = tir.strip(sb), tir.strip(nb)
            if some[0].get("k") == "Bind" and sbs.get("k") == "Path" and sbs.get("res") == "local" and sbs.get("id") == some[0].get("id"):
                # `Some(x) => x, None => D`: unwrap_or(D)
                return {"k": "MethodCall", "ty": n.get("ty"), "sp": n.get("sp"), "method": "unwrap_or", "path": "std::option::Option::<T>::unwrap_or", "resolved": None, "local": False,
                        "gargs": [], "recv": recv, "args": [nb], "canon": "match-option"}
            if (nbs.get("k") == "Path" and (nbs.get("path") or "").endswith("::None") and sbs.get("k") == "Call" and (sbs.get("path") or "").endswith("::Some") and len(sbs.get("args", [])) == 1):
                # `Some(P) => Some(X), None => None`: map(|P| X)
                cl = {"k": "Closure", "ty": "{closure}", "sp": some[1].get("sp"), "def": None, "params": [some[0]], "body": sbs["args"][0], "canon": "match-option"}
                return {"k": "MethodCall", "ty": n.get("ty"), "sp": n.get("sp"), "method": "map", "path": "std::option::Option::<T>::map", "resolved": None, "local": False,
                        "gargs": [], "recv": recv, "args": [cl], "canon": "match-option"}
            cl = {"k": "Closure", "ty": "{closure}", "sp": some[1].get("sp"), "def": None, "params": [some[0]], "body": sb, "canon": "match-option"}
            return {"k": "MethodCall", "ty": n.get("ty"), "sp": n.get("sp"), "method": "map_or", "path": "std::option::Option::<T>::map_or", "resolved": None, "local": False,
                    "gargs": [], "recv": recv, "args": [nb, cl], "canon": "match-option"}
    if k == "Call" and len(n.get("args", [])) == 1 and (n.get("path") or "") in ("std::convert::From::from",) and n.get("resolved") in _ENUM_CAST_FROMS and n.get("ty") in INT_RANGE:
        # `u8::from(port)` through a local `impl From<Enum> for u8` whose body is `enum_value as u8` (num_enum's IntoPrimitive)
        return {"k": "Cast", "ty": n.get("ty"), "sp": n.get("sp"), "e": n["args"][0], "canon": "from-enum"}
    if k == "Call" and len(n.get("args", [])) == 1 and (n.get("path") or "") in ("std::convert::From::from",) :
        dst = n.get("ty")
        src = tir.strip(n["args"][0]).get("ty") if n["args"][0].get("k") != "AddrOf" else None
        src = n["args"][0].get("ty")
        if dst in INT_RANGE and src in INT_RANGE and INT_RANGE[dst][0] <= INT_RANGE[src][0] and INT_RANGE[src][1] <= INT_RANGE[dst][1]:
            return {"k": "Cast", "ty": dst, "sp": n.get("sp"), "e": n["args"][0], "canon": "from"}
    if k == "MethodCall" and n.get("method") == "into" and (n.get("path") or "") == "std::convert::Into::into" and not n.get("args"):
        dst, src = n.get("ty"), n["recv"].get("ty")
        if dst in INT_RANGE and src in INT_RANGE and INT_RANGE[dst][0] <= INT_RANGE[src][0] and INT_RANGE[src][1] <= INT_RANGE[dst][1]:
            return {"k": "Cast", "ty": dst, "sp": n.get("sp"), "e": n["recv"], "canon": "into"}
    if k == "If" and n["cond"].get("k") == "LetCond" and not n.get("else"):
        # `if let P = opt.filter(|_| c) { b }` with pure opt and c: `if c { if let P = opt { b } }`
        c = n["cond"]
        init = c["init"]
        if init.get("k") == "MethodCall" and init.get("method") == "filter" and (init.get("path") or "").startswith("std::option::Option") and len(init.get("args", [])) == 1:
            cl = tir.strip(init["args"][0])
            pin = c["pat"]
            while pin.get("k") == "Ref":
                pin = pin["pat"]
            if (cl.get("k") == "Closure" and len(cl["params"]) == 1 and cl["params"][0].get("k") in ("Bind", "Ref") and pure_expr(cl["body"]) and pure_expr(init["recv"])
                    and pin.get("k") == "TupleStruct" and (pin.get("path") or "").endswith("::Some") and len(pin.get("pats", [])) == 1 and pin["pats"][0].get("k") == "Wild"):
                # `if let Some(_) = opt.filter(|q| G) { b }` is `if opt.map_or(false, |q| G) { b }`
                q = cl["params"][0]
                while q.get("k") == "Ref":
                    q = q["pat"]
                cl2 = {"k": "Closure", "ty": "{closure}", "sp": cl.get("sp"), "def": None, "params": [q], "body": cl["body"], "canon": "filter-some"}
                cond = {"k": "MethodCall", "ty": "bool", "sp": c.get("sp"), "method": "map_or", "path": "std::option::Option::<T>::map_or", "resolved": None, "local": False, "gargs": [],
                        "recv": init["recv"], "args": [{"k": "Lit", "lit": "bool", "v": False, "ty": "bool", "sp": c.get("sp")}, cl2], "canon": "filter-some"}
                return {"k": "If", "ty": n.get("ty"), "sp": n.get("sp"), "cond": cond, "then": n["then"], "canon": "filter-some"}
            if cl.get("k") == "Closure" and len(cl["params"]) == 1 and cl["params"][0].get("k") == "Wild" and pure_expr(cl["body"]) and pure_expr(init["recv"]):
                inner = dict(n)
                inner["cond"] = dict(c)
                inner["cond"]["init"] = init["recv"]
                return {"k": "If", "ty": n.get("ty"), "sp": n.get("sp"), "cond": cl["body"], "then": _as_block(inner), "canon": "filter-guard"}
    if k == "If" and n["cond"].get("k") == "LetCond" and not n.get("else"):
        # `if let (true, P) = (c, e) { b }` with pure c and e: `if c { if let P = e { b } }`
        c = n["cond"]
        p, init = c["pat"], tir.strip(c["init"])
        if p.get("k") == "Tuple" and len(p.get("pats", [])) == 2 and init.get("k") == "Tup" and len(init["elems"]) == 2:
            for bi in (0, 1):
                bp, be = p["pats"][bi], init["elems"][bi]
                op_, oe = p["pats"][1 - bi], init["elems"][1 - bi]
                if bp.get("k") == "Lit" and bp["e"].get("lit") == "bool" and bp["e"].get("v") is True and pure_expr(be) and pure_expr(oe):
                    inner = dict(n)
                    inner["cond"] = dict(c)
                    inner["cond"]["pat"] = op_
                    inner["cond"]["init"] = oe
                    return {"k": "If", "ty": n.get("ty"), "sp": n.get("sp"), "cond": be, "then": _as_block(inner), "canon": "tuple-guard"}
    if k == "Loop" and n.get("src") == "While":
        # `while let Some(x) = it.next() { body }` with `it` a plain local not mentioned in the body is `for x in it { body }`
        b = n.get("body") or {}
        t = b.get("tail") if b.get("k") == "Block" and not b.get("stmts") else None
        if isinstance(t, dict) and t.get("k") == "If" and t["cond"].get("k") == "LetCond" and t.get("else") is not None:
            c = t["cond"]
            p = c["pat"]
            init = c["init"]
            els = t["else"]
            only_break = els.get("k") == "Block" and not els.get("tail") and len(els.get("stmts", [])) == 1 and (els["stmts"][0].get("e") or {}).get("k") == "Break" or (
                els.get("k") == "Block" and not els.get("stmts") and (els.get("tail") or {}).get("k") == "Break")
            if (p.get("k") == "TupleStruct" and (p.get("path") or "").endswith("::Some") and len(p.get("pats", [])) == 1 and only_break
                    and init.get("k") == "MethodCall" and init.get("method") == "next" and (init.get("path") or "") == "std::iter::Iterator::next" and not init.get("args")):
                it = init["recv"]
                its = tir.strip(it)
                if its.get("k") == "Path" and its.get("res") == "local" and not any(x.get("k") == "Path" and x.get("id") == its.get("id") for x in tir.walk(t["then"])):
                    return {"k": "For", "ty": n.get("ty"), "sp": n.get("sp"), "pat": p["pats"][0], "iter": it, "body": t["then"], "canon": "while-let-next"}
    if k == "Struct" and (n.get("path") or "") == "std::ops::RangeTo" and len(n.get("fields", [])) == 1:
        end = n["fields"][0]
        out = dict(n)
        out["path"] = "std::ops::Range"
        out["ty"] = (n.get("ty") or "").replace("RangeTo<", "Range<")
        out["fields"] = [{"name": "start", "e": {"k": "Lit", "ty": end["e"].get("ty"), "sp": n.get("sp"), "lit": "int", "v": 0}}, end]
        out["canon"] = "range-to"
        return out
    if k == "Unary" and n.get("op") == "Not" and n.get("ty") == "bool":
        e = tir.strip(n["e"])
        if e.get("k") == "MethodCall" and e.get("method") == "is_empty" and not e.get("args"):
            ln = dict(e)
            ln["method"] = "len"
            ln["ty"] = "usize"
            if ln.get("path"):
                ln["path"] = ln["path"].rsplit("::", 1)[0] + "::len"
            if ln.get("resolved"):
                ln["resolved"] = ln["resolved"].rsplit("::", 1)[0] + "::len"
            return {"k": "Binary", "op": "Gt", "ty": "bool", "sp": n.get("sp"), "l": ln, "r": {"k": "Lit", "lit": "int", "v": 0, "ty": "usize", "sp": n.get("sp")}, "overloaded": False, "canon": "is_empty"}
        # negation normal form over integer / bool comparisons: `!(a == b)` -> `a != b`, `!(a < b)` -> `a >= b`, `!!x` -> `x`,
        # `!(a && b)` -> `!a || !b` (operands keep their order, so short-circuit evaluation is unchanged)
        if e.get("k") == "Unary" and e.get("op") == "Not" and e.get("ty") == "bool":
            return e["e"]
        if e.get("k") == "Binary" and not e.get("overloaded") and e.get("op") in ("Eq", "Ne", "Lt", "Le", "Gt", "Ge"):
            lt = tir.strip(e["l"]).get("ty") or ""
            if lt.lstrip("&") in INT_RANGE or lt.lstrip("&") in ("bool", "char"):
                o = dict(e)
                o["op"] = {"Eq": "Ne", "Ne": "Eq", "Lt": "Ge", "Ge": "Lt", "Gt": "Le", "Le": "Gt"}[e["op"]]
                o["canon"] = "not-cmp"
                return o
        if e.get("k") == "Binary" and not e.get("overloaded") and e.get("op") in ("And", "Or"):
            def neg(x):
                return spell({"k": "Unary", "op": "Not", "ty": "bool", "sp": x.get("sp"), "e": x, "canon": "de-morgan"})
            o = dict(e)
            o["op"] = "Or" if e["op"] == "And" else "And"
            o["l"], o["r"] = neg(e["l"]), neg(e["r"])
            o["canon"] = "de-morgan"
            return o
    if k == "Binary" and n.get("op") in ("Lt", "Le", "Gt", "Ge") and not n.get("overloaded"):
        # one orientation for integer comparisons: a literal stays on the right (`x > 0`); otherwise `a > b` is `b < a`, `a >= b` is `b <= a`
        l, r = tir.strip(n["l"]), tir.strip(n["r"])
        lt_ = (l.get("ty") or "").lstrip("&")
        if lt_ in INT_RANGE and pure_expr(n["l"]) and pure_expr(n["r"]):
            l_lit, r_lit = l.get("k") == "Lit", r.get("k") == "Lit"
            flip = {"Lt": "Gt", "Gt": "Lt", "Le": "Ge", "Ge": "Le"}
            if (l_lit and not r_lit) or (n["op"] in ("Gt", "Ge") and not r_lit and not l_lit):
                o = dict(n)
                o["l"], o["r"], o["op"] = n["r"], n["l"], flip[n["op"]]
                o["canon"] = "cmp-orientation"
                return o
    if k == "If" and n.get("else") is not None and n["else"].get("k") != "If" and n["cond"].get("k") == "Binary" and n["cond"].get("op") == "Or":
        # `if a != b || c != d { X } else { Y }` (every atom a negative comparison) is `if a == b && c == d { Y } else { X }`
        atoms = []
        work = [n["cond"]]
        okp = True
        while work:
            c = work.pop()
            cs = tir.strip(c)
            if cs.get("k") == "Binary" and cs.get("op") == "Or" and not cs.get("overloaded"):
                work += [cs["r"], cs["l"]]
            elif cs.get("k") == "Binary" and cs.get("op") == "Ne" and not cs.get("overloaded") and (tir.strip(cs["l"]).get("ty") or "").lstrip("&") in INT_RANGE:
                atoms.append(cs)
            else:
                okp = False
        if okp and len(atoms) >= 2:
            pos = None
            for a_ in atoms:
                e_ = dict(a_)
                e_["op"] = "Eq"
                e_["canon"] = "polarity"
                pos = e_ if pos is None else {"k": "Binary", "op": "And", "ty": "bool", "sp": n["cond"].get("sp"), "l": pos, "r": e_, "overloaded": False, "canon": "polarity"}
            o = dict(n)
            o["cond"] = pos
            o["then"], o["else"] = _as_block(n["else"]), _as_block(n["then"])
            o["canon"] = "polarity"
            return o
    if k == "Binary" and n.get("op") in ("Eq", "Ne") and not n.get("overloaded"):
        # `0 == x` -> `x == 0` (a literal on the left of an integer equality)
        l, r = tir.strip(n["l"]), tir.strip(n["r"])
        if l.get("k") == "Lit" and l.get("lit") == "int" and r.get("k") != "Lit" and (r.get("ty") or "").lstrip("&") in INT_RANGE:
            o = dict(n)
            o["l"], o["r"] = n["r"], n["l"]
            o["canon"] = "lit-right"
            return o
    if k == "If" and n.get("else") is not None and n["cond"].get("k") == "Unary" and n["cond"].get("op") == "Not" and n["cond"].get("ty") == "bool" and n["else"].get("k") != "If":
        # `if !c { A } else { B }` -> `if c { B } else { A }`
        o = dict(n)
        o["cond"] = n["cond"]["e"]
        o["then"], o["else"] = _as_block(n["else"]), _as_block(n["then"])
        o["canon"] = "if-not"
        return o
    if k == "MethodCall" and n.get("method") == "into" and (n.get("path") or "") == "std::convert::Into::into" and not n.get("args") \
            and (n.get("ty") or "").startswith("std::option::Option<") and (n.get("ty") or "")[len("std::option::Option<"):-1] == (n["recv"].get("ty") or "\0"):
        # `x.into()` into an Option<T> from a T is `Some(x)` (impl<T> From<T> for Option<T>)
        return {"k": "Call", "ty": n.get("ty"), "sp": n.get("sp"), "res": "def", "dk": "Ctor(Variant, Fn)", "path": "std::prelude::v1::Some", "local": False, "args": [n["recv"]], "canon": "into-some"}
    if k == "MethodCall" and n.get("method") == "collect" and not n.get("args") and (n.get("ty") or "").startswith("std::vec::Vec<"):
        # `std::iter::repeat(x).take(n).collect::<Vec<_>>()` with a literal x is `vec![x; n]`
        t_ = tir.strip(n["recv"])
        if t_.get("k") == "MethodCall" and t_.get("method") == "take" and len(t_.get("args", [])) == 1:
            rp = tir.strip(t_["recv"])
            if rp.get("k") == "Call" and (rp.get("path") or "").endswith("iter::repeat") and len(rp.get("args", [])) == 1 and tir.strip(rp["args"][0]).get("k") == "Lit":
                return {"k": "Call", "ty": n.get("ty"), "sp": n.get("sp"), "res": "def", "dk": "Fn", "path": "std::vec::from_elem", "local": False, "mac": ["vec"],
                        "args": [rp["args"][0], t_["args"][0]], "canon": "repeat-take"}
    return n


def _unblock_simple(b):
    b = tir.strip(b)
    while b.get("k") == "Block" and not b.get("stmts") and b.get("tail") is not None:
        b = tir.strip(b["tail"])
    return b


def _as_block(e):
    if e.get("k") == "Block":
        return e
    return {"k": "Block", "ty": e.get("ty"), "sp": e.get("sp"), "stmts": [], "tail": e}


# ------------------------------------------------------------------------------------------------ H: helper inlining

def _simple_arg(a):
    """an argument that may be duplicated at every use of the parameter: a place, a literal, a constant, or a reference to one"""
    s = a
    while s.get("k") == "AddrOf":
        s = s["e"]
    s = tir.strip(s)
    if s.get("k") == "Lit":
        return True
    if s.get("k") == "Path":
        return True
    if s.get("k") in ("Field", "Index") and tir.place(s) is not None:
        return True
    if s.get("k") == "MethodCall" and s.get("method") in ("by_ref", "as_slice", "as_mut_slice", "as_ref", "as_mut") and not s.get("args"):
        return _simple_arg(s["recv"])
    return False


def _fresh(tree, offset, subst, suffix=""):
    """deep copy with binding ids shifted and parameter uses substituted; with a suffix the copy's own bindings are renamed
    (the second and later copies of one helper inside one body: their locals must not be confused by name)"""
    t = copy.deepcopy(tree)
    own = set()
    if suffix:
        for x in tir.walk(t):
            ps = []
            if x.get("k") in ("Let", "LetCond", "For"):
                binding_pats(x.get("pat"), ps)
            if x.get("k") == "Closure":
                for p in x["params"]:
                    binding_pats(p, ps)
            if x.get("k") == "Match":
                for arm in x["arms"]:
                    binding_pats(arm["pat"], ps)
            for q in ps:
                own.add(q["id"])

    def shift_pat(p):
        out = []
        binding_pats(p, out)
        for q in out:
            if suffix and q["id"] in own and isinstance(q.get("name"), str):
                q["name"] = q["name"] + suffix
            q["id"] = q["id"] + offset

    def f(n):
        k = n.get("k")
        if k in ("Let", "LetCond", "For"):
            shift_pat(n.get("pat"))
        if k == "Closure":
            for p in n["params"]:
                shift_pat(p)
        if k == "Match":
            for arm in n["arms"]:
                shift_pat(arm["pat"])
        if k == "Path" and n.get("res") == "local":
            if n.get("id") in subst:
                r = copy.deepcopy(subst[n["id"]])
                return r
            if suffix and n.get("id") in own and isinstance(n.get("name"), str):
                n["name"] = n["name"] + suffix
            n["id"] = n["id"] + offset
        if k == "Call" and n.get("res") == "local" and n.get("id") is not None:
            if n["id"] in subst and tir.strip(subst[n["id"]]).get("k") == "Path":
                s = tir.strip(subst[n["id"]])
                n["name"], n["id"] = s.get("name"), s.get("id")
            else:
                n["id"] = n["id"] + offset
        return n
    return rewrite(t, f)


def _contains(n, kinds):
    return any(x.get("k") in kinds for x in tir.walk(n))


def _ret_ok_only_err(body):
    """every `return e` in the helper returns Err(..) (so that at a `?` call site it is the caller's error return)"""
    for x in tir.walk(body):
        if x.get("k") == "Ret":
            e = tir.strip(x.get("e") or {})
            if not (e.get("k") == "Call" and (e.get("path") or "").endswith("::Err")):
                return False
    return True


def _strip_closures(body):
    """nodes of the body outside closures (a `?`/return inside a closure belongs to the closure)"""
    out = []
    st = [body]
    while st:
        x = st.pop()
        out.append(x)
        for c in tir.children(x):
            if c.get("k") != "Closure":
                st.append(c)
    return out


def mark_tails(root):
    """mark the nodes in tail position of a function body and of every closure body with the type that body returns"""
    def mark(n, ty):
        while isinstance(n, dict):
            n["_tail"] = ty
            k = n.get("k")
            if k == "Block":
                n = n.get("tail")
            elif k == "If":
                if n.get("else"):
                    mark(n["else"], ty)
                n = n["then"]
            elif k == "Match":
                for a in n["arms"][1:]:
                    mark(a["body"], ty)
                n = n["arms"][0]["body"] if n["arms"] else None
            else:
                return
    mark(root, root.get("ty"))
    for c in tir.walk(root):
        if c.get("k") == "Closure":
            mark(c["body"], c["body"].get("ty"))
        if c.get("k") == "Ret" and isinstance(c.get("e"), dict):
            mark(c["e"], root.get("ty"))


def clear_tails(root):
    for c in tir.walk(root):
        c.pop("_tail", None)


def inline_helpers(doc, anchors):
    fns = {f["path"]: f for f in doc["items"]["fns"]}
    bodies = {}
    for b in doc["bodies"]:
        if b["kind"] in ("Fn", "AssocFn") and b.get("tir"):
            bodies.setdefault(b["path"], []).append(b)
    new = []
    for p, f in fns.items():
        if p in anchors or "<impl" in p.rsplit("::", 1)[0] and " for " in p or "_serde" in p or "::_::" in p or "num_enum" in p:
            continue
        bs = bodies.get(p, [])
        if len(bs) != 1:
            continue
        t = bs[0]["tir"]
        if any(q.get("k") != "Bind" for q in t["params"]):
            continue
        if any(tir.callee(x) == p or tir.declared(x) == p for x in tir.walk(t["value"]) if x.get("k") in ("Call", "MethodCall")):
            continue      # recursive
        new.append(p)
    if not new:
        return {}
    # inline helpers that call other new helpers last
    order = []
    deps = {p: set(tir.callee(x) or tir.declared(x) for x in tir.walk(bodies[p][0]["tir"]["value"]) if x.get("k") in ("Call", "MethodCall")) & set(new) for p in new}
    done = set()
    while len(order) < len(new):
        prog = False
        for p in new:
            if p not in done and deps[p] <= done:
                order.append(p)
                done.add(p)
                prog = True
        if not prog:
            order += [p for p in new if p not in done]
            break
    report = {}
    counter = [0]
    for h in order:
        ht = bodies[h][0]["tir"]
        outer = _strip_closures(ht["value"])
        has_try = any(x.get("k") == "Try" for x in outer)
        has_ret = any(x.get("k") == "Ret" for x in outer)
        ret_err_only = _ret_ok_only_err(ht["value"])
        sites = [0]
        per_body = [0]

        def instantiate(body, call):
            """a generic helper: its type parameters are replaced by the use's instantiation in expression types and instantiations"""
            gen = fns.get(h, {}).get("generics") or []
            inst = [g for g in (call.get("gargs") or []) if isinstance(g, str) and not g.startswith("'")]
            # const parameters (`fn f<const N: usize>() -> [u8; N]`): read off the call's own type against the declared output
            import re as _re
            out_ty = fns.get(h, {}).get("output") or ""
            cps = sorted(set(_re.findall(r"; ([A-Z][A-Za-z0-9_]*)\]", out_ty)))
            if cps and isinstance(call.get("ty"), str):
                pat = _re.escape(out_ty)
                for cp in cps:
                    pat = pat.replace(_re.escape("; %s]" % cp), r"; (?P<%s>\d+)\]" % cp, 1).replace(_re.escape("; %s]" % cp), r"; (?P=%s)\]" % cp)
                mm = _re.match("^" + pat + "$", call["ty"])
                if mm:
                    cmap = mm.groupdict()
                    crx = _re.compile(r"\b(" + "|".join(_re.escape(c_) for c_ in cmap) + r")\b")

                    def subc(x):
                        if isinstance(x, dict):
                            for key in ("ty", "aty", "fty"):
                                if isinstance(x.get(key), str):
                                    x[key] = crx.sub(lambda m_: cmap[m_.group(1)], x[key])
                            if isinstance(x.get("gargs"), list):
                                x["gargs"] = [crx.sub(lambda m_: cmap[m_.group(1)], g) if isinstance(g, str) else g for g in x["gargs"]]
                            for v in x.values():
                                subc(v)
                        elif isinstance(x, list):
                            for v in x:
                                subc(v)
                    subc(body)
            if not gen or len(inst) < len(gen):
                return
            tymap = dict(zip(gen, inst[-len(gen):] if len(inst) > len(gen) else inst))
            import re as _re
            rx = _re.compile(r"\b(" + "|".join(_re.escape(g) for g in tymap) + r")\b")

            def subty(x):
                if isinstance(x, dict):
                    for key in ("ty", "aty"):
                        if isinstance(x.get(key), str):
                            x[key] = rx.sub(lambda m: tymap[m.group(1)], x[key])
                    if isinstance(x.get("gargs"), list):
                        x["gargs"] = [rx.sub(lambda m: tymap[m.group(1)], g) if isinstance(g, str) else g for g in x["gargs"]]
                    for v in x.values():
                        subty(v)
                elif isinstance(x, list):
                    for v in x:
                        subty(v)
            subty(body)

        def expand(call, args, as_try):
            counter[0] += 1
            offset = 1000000 * counter[0]
            subst, lets = {}, []
            mutated = set()
            for x in tir.walk(ht["value"]):
                if x.get("k") in ("Assign", "AssignOp"):
                    l = tir.strip(x["l"])
                    if l.get("k") == "Path" and l.get("res") == "local":
                        mutated.add(l.get("id"))
            for p, a in zip(ht["params"], args):
                if _simple_arg(a) and "Mut" not in (p.get("mode") or "").split(",")[-1] and p["id"] not in mutated:
                    subst[p["id"]] = a
                else:
                    q = copy.deepcopy(p)
                    q["id"] = p["id"] + offset
                    lets.append({"k": "Let", "sp": call.get("sp"), "pat": q, "init": a, "canon": "param"})
            per_body[0] += 1
            body = _fresh(ht["value"], offset, subst, suffix="'%d" % per_body[0] if per_body[0] > 1 else "")
            for x_ in tir.walk(body):
                if x_.get("k") == "Let":
                    x_["from_inline"] = True
            instantiate(body, call)
            if as_try:
                # value of `helper(..)?`: the Ok payload of the tail; `?` and `return Err` inside keep their meaning in the caller
                blk = _as_block(body)
                tail = blk.get("tail")
                if tail is not None:
                    ts = tir.strip(tail)
                    if ts.get("k") == "Call" and (ts.get("path") or "").endswith("::Ok") and len(ts["args"]) == 1:
                        blk["tail"] = ts["args"][0]
                        if tir.strip(blk["tail"]).get("k") == "Tup" and not tir.strip(blk["tail"]).get("elems"):
                            blk["tail"] = None
                    else:
                        blk["tail"] = {"k": "Try", "ty": call.get("ty"), "sp": tail.get("sp"), "e": tail}
                body = blk
            out = _as_block(body)
            out = dict(out)
            out["stmts"] = lets + list(out.get("stmts", []))
            out["inlined"] = h
            out["sp"] = call.get("sp")
            sites[0] += 1
            return out

        def f(n):
            k = n.get("k")
            if k == "Try":
                c = n["e"]
                if c.get("k") in ("Call", "MethodCall") and (tir.callee(c) == h or tir.declared(c) == h) and ret_err_only:
                    args = ([c["recv"]] if c["k"] == "MethodCall" else []) + list(c.get("args", []))
                    if len(args) == len(ht["params"]):
                        r = expand(c, args, True)
                        r["ty"] = n.get("ty")
                        return r
            if k in ("Call", "MethodCall") and (tir.callee(n) == h or tir.declared(n) == h) and (has_try or has_ret) and n.get("_tail") is not None and n.get("_tail") == n.get("ty"):
                # tail position of a body returning the helper's own type: `?` and `return` inside mean the same there
                args = ([n["recv"]] if k == "MethodCall" else []) + list(n.get("args", []))
                if len(args) == len(ht["params"]):
                    return expand(n, args, False)
            if k in ("Call", "MethodCall") and (tir.callee(n) == h or tir.declared(n) == h) and not has_try and not has_ret:
                args = ([n["recv"]] if k == "MethodCall" else []) + list(n.get("args", []))
                if len(args) == len(ht["params"]):
                    return expand(n, args, False)
            if k == "Path" and n.get("res") == "def" and n.get("path") == h and (n.get("dk") or "") in ("Fn", "AssocFn") and not has_try and not has_ret:
                # the function used as a value (`.map(helper)`): an equivalent closure
                counter[0] += 1
                offset = 1000000 * counter[0]
                ps = copy.deepcopy(ht["params"])
                for q in ps:
                    q["id"] += offset
                sites[0] += 1
                cbody = _fresh(ht["value"], offset, {})
                instantiate(cbody, n)
                instantiate(ps, n)
                return {"k": "Closure", "ty": n.get("ty"), "sp": n.get("sp"), "def": h, "params": ps, "body": cbody, "inlined": h}
            return n

        for p, bs in bodies.items():
            if p == h:
                continue
            for b in bs:
                mark_tails(b["tir"]["value"])
                per_body[0] = 0
                b["tir"]["value"] = rewrite(b["tir"]["value"], f)
                clear_tails(b["tir"]["value"])
        for b in doc["bodies"]:
            if b["kind"].startswith("Closure") and b.get("tir") and not b["path"].startswith(h):
                b["tir"]["value"] = rewrite(b["tir"]["value"], f)
        if sites[0]:
            report[h] = sites[0]
            bodies[h][0]["tir_inlined"] = sites[0]
    for p, bs in bodies.items():
        for b in bs:
            flatten_blocks(b["tir"]["value"])
            propagate_tuple_lets(b["tir"]["value"])
    # a helper none of whose uses is left is dead from the typed trees' point of view (its code now stands in its callers):
    # whole-crate scans (who-may-call, inventories) skip its own body so that nothing is counted twice
    left = set()
    for b in doc["bodies"]:
        if b.get("tir") and b["path"] not in report:
            for x in tir.walk(b["tir"]["value"]):
                if x.get("k") in ("Call", "MethodCall"):
                    for c in (tir.callee(x), tir.declared(x)):
                        if c in report:
                            left.add(c)
                elif x.get("k") == "Path" and x.get("res") == "def" and x.get("path") in report:
                    left.add(x["path"])
    for h in report:
        if h not in left and not any(h in deps.get(o, ()) and o in left for o in report):
            bodies[h][0]["fully_inlined"] = True
    return report


def propagate_tuple_lets(root):
    """`let x' = e1; let y' = e2; let (x, y) = (x', y');` with x', y' used nowhere else is `let x = e1; let y = e2;` (what is left
    of an inlined helper that returned a tuple); `let x = x';` likewise for a single value"""
    n = 0
    uses = {}
    for y in tir.walk(root):
        if y.get("k") == "Path" and y.get("res") == "local":
            uses[y.get("id")] = uses.get(y.get("id"), 0) + 1
    for blk in list(tir.walk(root)):
        if blk.get("k") != "Block":
            continue
        stmts = blk.get("stmts", [])
        i = 0
        while i < len(stmts):
            s_ = stmts[i]
            pairs = None
            defs = {}
            for j in range(i):
                d = stmts[j]
                if d.get("k") == "Let" and d["pat"].get("k") == "Bind" and not d.get("els") and d.get("from_inline"):
                    defs[d["pat"]["id"]] = d
            if s_.get("k") == "Let" and not s_.get("els") and s_.get("init") is not None:
                p, init = s_["pat"], tir.strip(s_["init"])
                if p.get("k") == "Tuple" and init.get("k") == "Tup" and len(p.get("pats", [])) == len(init["elems"]) and all(q.get("k") == "Bind" and not q.get("sub") for q in p["pats"]):
                    elems = [tir.strip(e) for e in init["elems"]]
                    if all(e.get("k") == "Path" and e.get("res") == "local" and e.get("id") in defs for e in elems) and len(set(e["id"] for e in elems)) == len(elems):
                        if all(uses.get(e["id"]) == 1 for e in elems):
                            pairs = list(zip(p["pats"], elems))
                        else:
                            # split `let (a, b) = (a', b');` into single lets (moves of distinct locals, in the same order)
                            stmts[i:i + 1] = [{"k": "Let", "sp": s_.get("sp"), "mac": [], "pat": q, "init": e0, "els": None, "canon": "tuple-split"} for q, e0 in zip(p["pats"], init["elems"])]
                            n += 1
                            continue
                elif p.get("k") == "Bind" and not p.get("sub") and init.get("k") == "Path" and init.get("res") == "local" and init.get("id") in defs:
                    pairs = [(p, init)]
            if pairs and all(e.get("k") == "Path" and e.get("res") == "local" and uses.get(e.get("id")) == 1 for _, e in pairs):
                if all(e["id"] in defs for _, e in pairs) and len(set(e["id"] for _, e in pairs)) == len(pairs):
                    for q, e in pairs:
                        d = defs[e["id"]]
                        newp = dict(q)
                        if "Mut" in (d["pat"].get("mode") or "").replace("Not", "") and "Mut" not in (q.get("mode") or "").replace("Not", ""):
                            newp["mode"] = d["pat"].get("mode")
                        d["pat"] = newp
                    del stmts[i]
                    n += 1
                    continue
            i += 1
    return n


def _hoist_arg_block(stmt, out):
    """`f(a, &{ S..; t }, b)?;` with an inlined block as an argument and only simple (effect-free) arguments before it:
    S.. is evaluated right after those and before anything else of the call, so `S..; f(a, &t, b)?;` is the same"""
    e = stmt.get("e") if stmt.get("k") == "Expr" else stmt.get("init")
    if isinstance(e, dict) and e.get("k") == "Assign" and tir.place(e.get("l") or {}) is not None:
        e = e["r"]          # `slot = f({ S..; t })`: the value is evaluated before the (effect-free) place
    while isinstance(e, dict) and e.get("k") == "Try":
        e = e["e"]
    if not isinstance(e, dict) or e.get("k") not in ("Call", "MethodCall"):
        return False
    args = ([("recv", None)] if e.get("k") == "MethodCall" else []) + [("args", i) for i in range(len(e.get("args", [])))]
    for key, i in args:
        a = e["recv"] if key == "recv" else e["args"][i]
        holder, hk = (e, "recv") if key == "recv" else (e["args"], i)
        inner = a
        path = []
        while isinstance(inner, dict) and inner.get("k") == "AddrOf":
            path.append(inner)
            inner = inner["e"]
        if isinstance(inner, dict) and inner.get("k") == "Block" and inner.get("inlined") and inner.get("tail") is not None and inner.get("stmts"):
            out.extend(inner["stmts"])
            if path:
                path[-1]["e"] = inner["tail"]
            else:
                holder[hk] = inner["tail"]
            return True
        if not _simple_arg(a):
            return False
    return False


def flatten_blocks(root):
    """splice an inlined block that stands as a statement (or as a `let` initialiser) into the enclosing block"""
    # a unit match arm `pat => slot = f(helper(x)?)` whose expression holds an inlined block becomes a block arm, so that
    # the helper's statements can be spliced in front of it
    for m in list(tir.walk(root)):
        if m.get("k") != "Match":
            continue
        for a in m["arms"]:
            b = a.get("body")
            if isinstance(b, dict) and b.get("k") != "Block" and b.get("ty") == "()" and any(x.get("k") == "Block" and x.get("inlined") and x.get("stmts") for x in tir.walk(b)):
                a["body"] = {"k": "Block", "ty": "()", "sp": b.get("sp"), "stmts": [{"k": "Expr", "e": b, "semi": True}], "tail": None, "canon": "arm-block"}
    for blk in list(tir.walk(root)):
        if blk.get("k") != "Block" or not blk.get("stmts") and not (blk.get("tail") or {}).get("inlined"):
            continue
        changed = True
        while changed:
            changed = False
            out = []
            for s in blk.get("stmts", []):
                if s.get("k") == "Expr" and isinstance(s.get("e"), dict) and s["e"].get("k") == "Block" and s["e"].get("inlined"):
                    inner = s["e"]
                    out += inner.get("stmts", [])
                    if inner.get("tail") is not None:
                        out.append({"k": "Expr", "e": inner["tail"], "semi": True})
                    changed = True
                elif s.get("k") in ("Expr", "Let") and _hoist_arg_block(s, out):
                    out.append(s)
                    changed = True
                elif s.get("k") == "Let" and isinstance(s.get("init"), dict) and s["init"].get("k") == "Block" and s["init"].get("inlined") and s["init"].get("tail") is not None:
                    inner = s["init"]
                    out += inner.get("stmts", [])
                    s["init"] = inner["tail"]
                    out.append(s)
                    changed = bool(inner.get("stmts"))
                else:
                    out.append(s)
            blk["stmts"] = out
            t = blk.get("tail")
            if isinstance(t, dict) and t.get("k") == "Block" and t.get("inlined"):
                blk["stmts"] = blk["stmts"] + t.get("stmts", [])
                blk["tail"] = t.get("tail")
                changed = True


# ------------------------------------------------------------------------------------------------ L: binding alignment

def align(pats, want):
    """weighted LCS between the body's bindings and the pinned list: pairs (i, j) with equal types; equal names weigh more"""
    n, m = len(pats), len(want)
    if n * m > 4000000:
        return None
    sc = [[0] * (m + 1) for _ in range(n + 1)]
    for i in range(n - 1, -1, -1):
        pi = pats[i]
        row, nxt = sc[i], sc[i + 1]
        for j in range(m - 1, -1, -1):
            best = nxt[j] if nxt[j] >= row[j + 1] else row[j + 1]
            if pi.get("ty") == want[j][1]:
                w = 3 if pi.get("name") == want[j][0] else 2
                if nxt[j + 1] + w > best:
                    best = nxt[j + 1] + w
            row[j] = best
    pairs = []
    i = j = 0
    while i < n and j < m:
        if pats[i].get("ty") == want[j][1]:
            w = 3 if pats[i].get("name") == want[j][0] else 2
            if sc[i][j] == sc[i + 1][j + 1] + w:
                pairs.append((i, j))
                i += 1
                j += 1
                continue
        if sc[i + 1][j] >= sc[i][j + 1]:
            i += 1
        else:
            j += 1
    return pairs


PURE_METHODS = {"len", "is_empty", "as_slice", "as_ref", "as_str", "as_bytes", "clone", "copied", "cloned", "map_or", "is_some", "is_none", "get", "first", "last", "iter",
                "as_deref", "unwrap_or", "unwrap_or_default", "min", "max", "gte", "lt", "to_le_bytes", "to_be_bytes", "and_then", "map", "ok", "then_some"}


def pure_expr(e, depth=0):
    """no side effect and no dependence on evaluation time other than through the places it reads"""
    e0 = e
    k = e.get("k")
    if depth > 12:
        return False
    if k in ("Lit",):
        return True
    if k == "Path":
        return True
    if k in ("Field", "AddrOf", "Cast"):
        if k == "AddrOf" and e.get("mut"):
            return False
        return pure_expr(e.get("base") or e.get("e"), depth + 1)
    if k == "Unary":
        return pure_expr(e["e"], depth + 1)
    if k == "Binary":
        return pure_expr(e["l"], depth + 1) and pure_expr(e["r"], depth + 1)
    if k == "Index":
        return pure_expr(e["base"], depth + 1) and pure_expr(e["index"], depth + 1)
    if k == "Tup":
        return all(pure_expr(x, depth + 1) for x in e["elems"])
    if k == "Block":
        return not e.get("stmts") and e.get("tail") is not None and pure_expr(e["tail"], depth + 1)
    if k == "MethodCall" and e.get("method") in PURE_METHODS and not (e.get("recv", {}).get("aty") or "").startswith("&mut"):
        ok = pure_expr(e["recv"], depth + 1)
        for a in e.get("args", []):
            if a.get("k") == "Closure":
                ok = ok and pure_expr(a["body"], depth + 1)
            else:
                ok = ok and pure_expr(a, depth + 1)
        return ok
    if k == "Call" and (e.get("dk") or "").startswith("Ctor"):
        return all(pure_expr(a, depth + 1) for a in e.get("args", []))
    if k == "Call" and (e.get("path") or "") in ("game::End::size", "game::port_occupancy", "std::cmp::min", "std::cmp::max"):
        return all(pure_expr(a, depth + 1) for a in e.get("args", []))
    return False


def total_expr(e):
    """a pure expression that cannot panic: no indexing, no integer arithmetic, no division"""
    for x in tir.walk(e):
        if x.get("k") == "Index":
            return False
        if x.get("k") == "Binary" and x.get("op") in ("Add", "Sub", "Mul", "Div", "Rem", "Shl", "Shr"):
            return False
        if x.get("k") == "Unary" and x.get("op") == "Neg":
            return False
    return True


def root_locals(e):
    return [x for x in tir.walk(e) if x.get("k") == "Path" and x.get("res") == "local"]


def assigned_fields(doc):
    """field names that are assigned, compound-assigned or mutably borrowed anywhere in the crate"""
    out = set()
    for b in doc["bodies"]:
        if not b.get("tir"):
            continue
        for n in tir.walk(b["tir"]["value"]):
            if n.get("k") in ("Assign", "AssignOp"):
                l = n["l"]
                while isinstance(l, dict) and l.get("k") in ("Field", "Index", "Unary", "AddrOf"):
                    if l.get("k") == "Field":
                        out.add(l["name"])
                    l = l.get("base") or l.get("e")
            if n.get("k") == "AddrOf" and n.get("mut"):
                l = n["e"]
                if isinstance(l, dict) and l.get("k") == "Field":
                    out.add(l["name"])
            if n.get("k") == "MethodCall" and (n["recv"].get("aty") or "").startswith("&mut"):
                l = tir.strip(n["recv"])
                if l.get("k") == "Field":
                    out.add(l["name"])
    return out


def _pre_order_until(stmt, target):
    """nodes visited before `target` in evaluation-ish (pre-)order that are not its ancestors"""
    anc = set()
    par = parents_of(stmt)
    a = par.get(id(target))
    while a is not None:
        anc.add(id(a))
        a = par.get(id(a))
    out = []
    for x in tir.walk(stmt):
        if x is target:
            return out
        if id(x) not in anc:
            out.append(x)
    return out


_closure_counter = [0]


def try_inline_closure(root, blk, idx, let):
    """`let f = |a, b| body;` whose every use is a direct call `f(x, y)`: each call becomes the body with the arguments bound
    (a closure evaluates its captures when it is called, so the call site is where the body belongs)"""
    p = let["pat"]
    cl = let.get("init")
    if p.get("k") != "Bind" or not isinstance(cl, dict) or cl.get("k") != "Closure" or let.get("els"):
        return False
    if any(q.get("k") != "Bind" for q in cl["params"]):
        return False
    if any(x.get("k") in ("Ret", "Try") for x in _strip_closures(cl["body"])):
        return False
    bid = p["id"]
    calls = [x for x in tir.walk(root) if x.get("k") == "Call" and x.get("res") == "local" and x.get("id") == bid]
    other = [x for x in tir.walk(root) if x.get("k") == "Path" and x.get("res") == "local" and x.get("id") == bid]
    if not calls or other:
        return False
    for c in calls:
        if len(c.get("args", [])) != len(cl["params"]):
            return False
    for c in calls:
        _closure_counter[0] += 1
        offset = 500000000 + 1000000 * _closure_counter[0]
        subst, lets = {}, []
        for q, a in zip(cl["params"], c["args"]):
            if _simple_arg(a):
                subst[q["id"]] = a
            else:
                q2 = copy.deepcopy(q)
                q2["id"] = q["id"] + offset
                lets.append({"k": "Let", "sp": c.get("sp"), "pat": q2, "init": a, "canon": "param"})
        body = _fresh(cl["body"], offset, subst)
        # captured variables keep their ids: undo the shift for locals that are not bound inside the closure
        bound = set(q["id"] + offset for q in cl["params"])
        for x in tir.walk(body):
            if x.get("k") in ("Let", "LetCond", "For"):
                ps = []
                binding_pats(x.get("pat"), ps)
                bound.update(y["id"] for y in ps)
            if x.get("k") == "Closure":
                for y in x["params"]:
                    ps = []
                    binding_pats(y, ps)
                    bound.update(z["id"] for z in ps)
            if x.get("k") == "Match":
                for arm in x["arms"]:
                    ps = []
                    binding_pats(arm["pat"], ps)
                    bound.update(y["id"] for y in ps)
        for x in tir.walk(body):
            if x.get("k") in ("Path", "Call") and x.get("res") == "local" and isinstance(x.get("id"), int) and x["id"] >= offset and x["id"] not in bound:
                x["id"] -= offset
        out = _as_block(body)
        out = dict(out)
        out["stmts"] = lets + list(out.get("stmts", []))
        out["canon"] = "closure-inlined:" + str(p.get("name"))
        keep_ty = c.get("ty")
        c.clear()
        c.update(out)
        c["ty"] = keep_ty
    del blk["stmts"][idx]
    return True


def try_inline_let(root, blk, idx, let, mut_fields, param_tys):
    """substitute an immutable `let x = e;` into its uses when that cannot change evaluation; True when the let was removed"""
    p = let["pat"]
    if isinstance(let.get("init"), dict) and let["init"].get("k") == "Closure":
        return try_inline_closure(root, blk, idx, let)
    if p.get("k") != "Bind" or let.get("els") or let.get("init") is None or (p.get("mode") or "") != "BindingMode(No, Not)":
        return False
    bid = p["id"]
    later = blk["stmts"][idx + 1:] + ([blk["tail"]] if blk.get("tail") is not None else [])
    uses = []
    for si, s in enumerate(later):
        for x in tir.walk(s):
            if x.get("k") == "Path" and x.get("res") == "local" and x.get("id") == bid:
                uses.append((si, s, x))
            if x.get("k") == "Call" and x.get("res") == "local" and x.get("id") == bid:
                return False
    total = sum(1 for x in tir.walk(root) if x.get("k") == "Path" and x.get("res") == "local" and x.get("id") == bid)
    if total != len(uses) or not uses:
        return False
    init = let["init"]
    # a use inside a loop or closure is evaluated a different number of times: only an initialiser that is pure *and total*
    # (cannot panic: no indexing, no arithmetic) may move there — `let gte_2_2 = version.gte(2, 2);` hoisted out of the frame loop
    in_loop = False
    for si, s, x in uses:
        par = parents_of(s)
        child = x
        a = par.get(id(x))
        top = s
        while a is not None:
            # the iterator expression of a `for` is evaluated once, before the loop
            if a.get("k") in ("Closure", "Loop") or (a.get("k") == "For" and a.get("iter") is not child):
                in_loop = True
            child, a = a, par.get(id(a))
        if s.get("k") in ("Closure", "Loop") or (s.get("k") == "For" and s.get("iter") is not child and child is not s):
            in_loop = True
    if in_loop and not (pure_expr(init) and total_expr(init)):
        return False
    ok = False
    if pure_expr(init):
        roots = root_locals(init)
        stable = True
        for r in roots:
            ty = r.get("ty") or ""
            if ty.startswith("&") and not ty.startswith("&mut"):
                continue            # shared reference: the referent cannot be written while it is live
            bp = (param_tys or {}).get(r.get("id"))
            if bp is not None and (bp.get("mode") or "") == "BindingMode(No, Not)" and "&mut" not in ty and "Cell" not in ty and "Mutex" not in ty:
                continue            # an immutable by-value binding holding no mutable reference
            if ty in INT_RANGE or ty in ("bool", "char"):
                # a Copy scalar local: stable unless it is assigned between the let and the use
                continue_ok = True
                for si, s, x in uses:
                    for t in later[:si + 1]:
                        for y in tir.walk(t):
                            if y.get("k") in ("Assign", "AssignOp") and tir.strip(y["l"]).get("id") == r.get("id"):
                                continue_ok = False
                if continue_ok:
                    continue
            stable = False
        if not stable:
            # a field path whose last field is never written anywhere in the crate (e.g. `..start.slippi.version`)
            s0 = init
            while s0.get("k") in ("AddrOf", "Cast"):
                s0 = s0["e"]
            if s0.get("k") == "Field" and tir.place(s0) is not None and s0["name"] not in mut_fields:
                stable = True
        if stable and len(uses) <= 12:
            ok = True
    if not ok and len(uses) == 1 and uses[0][0] == 0 and not in_loop:
        # single use in the very next statement, nothing impure evaluated before it
        si, s, x = uses[0]
        before = _pre_order_until(s, x)
        if not any(y.get("k") in ("Call", "MethodCall", "Try", "Assign", "AssignOp", "Ret", "Break", "Closure", "Loop", "For", "Match", "If") and not pure_expr(y) for y in before):
            ok = True
    if not ok:
        return False
    for si, s, x in uses:
        rep = copy.deepcopy(init)
        keep_ty = x.get("ty")
        x.clear()
        x.update(rep)
        x["canon"] = "let-inlined:" + str(p.get("name"))
    del blk["stmts"][idx]
    return True


def align_and_inline(doc, anchors):
    """L: rename aligned bindings to their pinned names and substitute extra lets"""
    mut_fields = assigned_fields(doc)
    renamed, inlined = {}, {}
    for b in doc["bodies"]:
        a = anchors.get(b["path"])
        t = b.get("tir")
        if not a or not t or "bindings" not in a or b["kind"] not in ("Fn", "AssocFn"):
            continue
        want = a["bindings"]
        for _round in range(8):
            pats = all_binding_pats(t)
            if len(pats) == len(want) and all(p.get("ty") == w[1] for p, w in zip(pats, want)):
                pairs = list(zip(range(len(pats)), range(len(want))))
            else:
                pairs = align(pats, want)
                if pairs is None:
                    break
            matched = set(i for i, _ in pairs)
            # a binding that kept its pinned name and type but was declared in another order (independent lets reordered) is
            # not an extra binding
            left_w = [(w_[0], w_[1]) for j_, w_ in enumerate(want) if j_ not in set(j for _, j in pairs)]
            cnt_p, cnt_w = {}, {}
            for p_ in pats:
                cnt_p[(p_.get("name"), p_.get("ty"))] = cnt_p.get((p_.get("name"), p_.get("ty")), 0) + 1
            for w_ in want:
                cnt_w[(w_[0], w_[1])] = cnt_w.get((w_[0], w_[1]), 0) + 1
            for i_ in range(len(pats)):
                key_ = (pats[i_].get("name"), pats[i_].get("ty"))
                if i_ not in matched and key_ in left_w and cnt_p.get(key_) == 1 and cnt_w.get(key_) == 1:
                    left_w.remove((pats[i_].get("name"), pats[i_].get("ty")))
                    matched.add(i_)
            extra = [pats[i] for i in range(len(pats)) if i not in matched]
            if not extra:
                break
            extra_ids = set(p["id"] for p in extra)
            progress = False
            for blk in list(tir.walk(t["value"])):
                if blk.get("k") != "Block":
                    continue
                i = 0
                while i < len(blk.get("stmts", [])):
                    s = blk["stmts"][i]
                    if s.get("k") == "Let" and s["pat"].get("k") == "Bind" and s["pat"]["id"] in extra_ids:
                        if try_inline_let(t["value"], blk, i, s, mut_fields, {p["id"]: p for p in pats}):
                            inlined.setdefault(b["path"], []).append(s["pat"].get("name"))
                            progress = True
                            continue
                    i += 1
            if not progress:
                break
        pats = all_binding_pats(t)
        if len(pats) == len(want) and all(p.get("ty") == w[1] for p, w in zip(pats, want)):
            pairs = list(zip(range(len(pats)), range(len(want))))
        else:
            pairs = align(pats, want) or []
        ren = {}
        pinned_names = set((w_[0], w_[1]) for w_ in want)
        for i, j in pairs:
            p, w = pats[i], want[j]
            if p.get("name") != w[0] and (p.get("name"), p.get("ty")) in pinned_names:
                # the binding already carries a pinned name of its type (two same-typed bindings met in the other order,
                # e.g. a scratch buffer declared before the value it fills): renaming would swap the two
                continue
            if p.get("name") != w[0]:
                ren[p["id"]] = (p["name"], w[0])
                p["name"] = w[0]
        if ren:
            for n in tir.walk(t["value"]):
                if n.get("k") in ("Path", "Call") and n.get("res") == "local" and n.get("id") in ren:
                    n["name"] = ren[n["id"]][1]
            renamed[b["path"]] = sorted("%s->%s" % v for v in ren.values())
    return renamed, inlined


# ------------------------------------------------------------------------------------------------ F: loops as iterator forms

def accumulations_to_sums(root):
    """`let mut acc = 0; for p in xs { lets..; acc += e; }` (acc untouched elsewhere in between) is `let acc = xs.iter().map(|p| { lets..; e }).sum();`"""
    n = 0
    for blk in list(tir.walk(root)):
        if blk.get("k") != "Block":
            continue
        stmts = blk.get("stmts", [])
        i = 0
        while i < len(stmts):
            s = stmts[i]
            p = s.get("pat") if s.get("k") == "Let" else None
            if not (p and p.get("k") == "Bind" and "Mut" in (p.get("mode") or "").split(",")[-1] and tir.lit_int(s.get("init") or {}) == 0 and tir.strip(s["init"]).get("k") == "Lit"):
                i += 1
                continue
            acc = p["id"]
            j = None
            for k2 in range(i + 1, len(stmts)):
                if any(x.get("k") in ("Path",) and x.get("id") == acc for x in tir.walk(stmts[k2])):
                    j = k2
                    break
            f = tir.strip(stmts[j].get("e") or {}) if j is not None and stmts[j].get("k") == "Expr" else {}
            if f.get("k") != "For" or f["pat"].get("k") not in ("Bind", "Tuple", "Ref"):
                i += 1
                continue
            body = f["body"]
            bst = body.get("stmts", []) if body.get("k") == "Block" else []
            if body.get("k") != "Block" or body.get("tail") is not None or not bst:
                i += 1
                continue
            last = bst[-1].get("e") if bst[-1].get("k") == "Expr" else None
            lets = bst[:-1]
            ok = (isinstance(last, dict) and last.get("k") == "AssignOp" and last.get("op") in ("Add", "AddAssign") and tir.strip(last["l"]).get("id") == acc
                  and all(x.get("k") == "Let" for x in lets)
                  and not any(y.get("k") == "Path" and y.get("id") == acc for x in lets for y in tir.walk(x))
                  and not any(y.get("k") == "Path" and y.get("id") == acc for y in tir.walk(last["r"]))
                  and not any(y.get("k") in ("Break", "Continue", "Ret", "Try") for y in tir.walk(body)))
            if not ok:
                i += 1
                continue
            it = f["iter"]
            if it.get("k") == "AddrOf" and not it.get("mut"):
                src = {"k": "MethodCall", "ty": None, "sp": it.get("sp"), "method": "iter", "path": "core::slice::<impl [T]>::iter", "recv": it["e"], "args": [], "canon": "for-iter"}
            else:
                src = {"k": "MethodCall", "ty": None, "sp": it.get("sp"), "method": "into_iter", "path": "std::iter::IntoIterator::into_iter", "recv": it, "args": [], "canon": "for-iter"}
            cl = {"k": "Closure", "ty": None, "sp": f.get("sp"), "def": None, "params": [f["pat"]], "body": {"k": "Block", "ty": p.get("ty"), "sp": body.get("sp"), "stmts": lets, "tail": last["r"]}}
            mp = {"k": "MethodCall", "ty": None, "sp": f.get("sp"), "method": "map", "path": "std::iter::Iterator::map", "recv": src, "args": [cl]}
            sm = {"k": "MethodCall", "ty": p.get("ty"), "sp": f.get("sp"), "method": "sum", "path": "std::iter::Iterator::sum", "gargs": [p.get("ty")], "recv": mp, "args": [], "canon": "accumulation"}
            q = dict(p)
            q["mode"] = "BindingMode(No, Not)"
            stmts[j] = {"k": "Let", "sp": s.get("sp"), "pat": q, "init": sm, "canon": "accumulation"}
            del stmts[i]
            n += 1
        blk["stmts"] = stmts
    return n


def try_for_each_to_for(root):
    """`xs.try_for_each(|p| { ..; tail })?;` as a statement is `for p in xs { ..; tail?; }`; in tail position of a body it is that loop
    followed by `Ok(())`. (`for_each` likewise, without the `?`.)"""
    n = 0

    def closure_ok(cl):
        # a `return Err(..)` inside the closure ends the iteration with that error, which the `?` on the call returns from the
        # function: in the loop form it is the same `return Err(..)`. (A `return Ok(..)` would be a `continue`: not converted.)
        return cl.get("k") == "Closure" and len(cl["params"]) == 1 and all(_is_err_value(x.get("e")) for x in _strip_closures(cl["body"]) if x.get("k") == "Ret")

    def make_for(call, with_try):
        cl = tir.strip(call["args"][0])
        body = _as_block(copy.copy(cl["body"]))
        body = dict(body)
        st = list(body.get("stmts", []))
        t = body.get("tail")
        if t is not None:
            st.append({"k": "Expr", "e": ({"k": "Try", "ty": "()", "sp": t.get("sp"), "e": t} if with_try else t), "semi": True})
        body["stmts"], body["tail"] = st, None
        return {"k": "For", "ty": "()", "sp": call.get("sp"), "pat": cl["params"][0], "iter": call["recv"], "body": body, "canon": "try_for_each"}
    for blk in list(tir.walk(root)):
        if blk.get("k") != "Block":
            continue
        for i, s in enumerate(blk.get("stmts", [])):
            e = s.get("e") if s.get("k") == "Expr" else None
            if not isinstance(e, dict):
                continue
            if e.get("k") == "Try" and e["e"].get("k") == "MethodCall" and e["e"].get("method") == "try_for_each" and len(e["e"].get("args", [])) == 1 and closure_ok(tir.strip(e["e"]["args"][0])):
                blk["stmts"][i] = {"k": "Expr", "e": make_for(e["e"], True), "semi": True}
                n += 1
            elif e.get("k") == "MethodCall" and e.get("method") == "for_each" and len(e.get("args", [])) == 1 and closure_ok(tir.strip(e["args"][0])):
                blk["stmts"][i] = {"k": "Expr", "e": make_for(e, False), "semi": True}
                n += 1
        t = blk.get("tail")
        if isinstance(t, dict) and t.get("_tail") is not None and t.get("k") == "MethodCall" and t.get("method") == "try_for_each" and len(t.get("args", [])) == 1 and closure_ok(tir.strip(t["args"][0])):
            ok_unit = {"k": "Call", "ty": t.get("ty"), "sp": t.get("sp"), "res": "def", "dk": "Ctor(Variant, Fn)", "path": "std::prelude::v1::Ok", "args": [{"k": "Tup", "ty": "()", "sp": t.get("sp"), "elems": []}]}
            blk["stmts"] = list(blk.get("stmts", [])) + [{"k": "Expr", "e": make_for(t, True), "semi": True}]
            blk["tail"] = ok_unit
            n += 1
    return n


def match_to_try(root):
    """`match e { Ok(x) => A, Err(err) => return Err(err) }` (with `err`, `err.into()` or `From::from(err)`) is `{ let x = e?; A }`;
    in tail position of a fn or closure body the error arm may be the value `Err(err)` itself. (Tail marks must be present.)"""
    n_done = 0

    def passes_err(x, eid):
        x = tir.strip(x)
        if x.get("k") == "Path" and x.get("res") == "local" and x.get("id") == eid:
            return True
        if x.get("k") == "MethodCall" and x.get("method") == "into" and not x.get("args"):
            return passes_err(x["recv"], eid)
        if x.get("k") == "Call" and len(x.get("args", [])) == 1 and (x.get("path") or "").endswith("From::from"):
            return passes_err(x["args"][0], eid)
        return False

    def unblock(b):
        b = tir.strip(b)
        while b.get("k") == "Block" and not b.get("stmts") and b.get("tail") is not None:
            b = tir.strip(b["tail"])
        if b.get("k") == "Block" and len(b.get("stmts", [])) == 1 and b.get("tail") is None and b["stmts"][0].get("k") == "Expr":
            b = tir.strip(b["stmts"][0]["e"])
        return b

    def one(m):
        if not (m.get("k") == "Match" and m.get("src") == "Normal" and len(m["arms"]) == 2 and not any(a.get("guard") for a in m["arms"])):
            return None
        if not (m["scrut"].get("ty") or "").startswith("std::result::Result<"):
            return None
        ok = err = None
        for a in m["arms"]:
            p = a["pat"]
            if p.get("k") == "TupleStruct" and len(p.get("pats", [])) == 1:
                if (p.get("path") or "").endswith("::Ok"):
                    ok = a
                elif (p.get("path") or "").endswith("::Err"):
                    err = a
        if ok is None or err is None:
            return None
        okp, ep = ok["pat"]["pats"][0], err["pat"]["pats"][0]
        if okp.get("k") == "Tuple" and not okp.get("pats"):
            okp = {"k": "Wild", "ty": "()", "sp": okp.get("sp")}
        if not (okp.get("k") in ("Bind", "Wild") and not okp.get("sub") and ep.get("k") == "Bind" and not ep.get("sub")):
            return None
        eb = unblock(err["body"])
        if eb.get("k") == "Ret":
            v = tir.strip(eb.get("e") or {})
        elif m.get("_tail") is not None:
            v = eb
        else:
            return None
        if not (v.get("k") == "Call" and (v.get("path") or "").endswith("::Err") and len(v.get("args", [])) == 1):
            return None
        payload = okp.get("ty") or ""
        scrut = m["scrut"]
        if not passes_err(v["args"][0], ep.get("id")):
            # `Err(e) => return Err(f(e).into())` with f a function: `scrut.map_err(f)?`
            c = tir.strip(v["args"][0])
            while (c.get("k") == "MethodCall" and c.get("method") == "into" and not c.get("args")) or (c.get("k") == "Call" and len(c.get("args", [])) == 1 and (c.get("path") or "").endswith("From::from")):
                c = tir.strip(c["recv"] if c.get("k") == "MethodCall" else c["args"][0])
            if not (c.get("k") == "Call" and c.get("res") == "def" and (c.get("dk") or "") in ("Fn", "AssocFn") and len(c.get("args", [])) == 1 and passes_err(c["args"][0], ep.get("id"))
                    and tir.strip(c["args"][0]).get("k") == "Path"):
                return None
            fpath = {k_: v_ for k_, v_ in c.items() if k_ not in ("args", "k")}
            fpath.update({"k": "Path", "ty": c.get("fty") or "fn", "sp": c.get("sp")})
            scrut = {"k": "MethodCall", "ty": "std::result::Result<%s, %s>" % (payload, c.get("ty")), "sp": m["scrut"].get("sp"), "method": "map_err", "path": "std::result::Result::<T, E>::map_err",
                     "resolved": None, "local": False, "gargs": [], "recv": m["scrut"], "args": [fpath], "canon": "match-try"}
        tr = {"k": "Try", "ty": payload, "sp": m["scrut"].get("sp"), "e": scrut, "canon": "match-try"}
        ob = unblock(ok["body"])
        if okp.get("k") == "Bind" and ob.get("k") == "Path" and ob.get("res") == "local" and ob.get("id") == okp.get("id"):
            return tr             # `Ok(x) => x`: the match is the `?` expression itself
        body = _as_block(ok["body"])
        if okp.get("k") == "Wild":
            first = {"k": "Expr", "e": tr, "semi": True}
        else:
            first = {"k": "Let", "sp": m.get("sp"), "mac": [], "pat": okp, "init": tr, "els": None}
        return {"k": "Block", "ty": m.get("ty"), "sp": m.get("sp"), "stmts": [first] + list(body.get("stmts", [])), "tail": body.get("tail"), "canon": "match-try"}

    for m in list(tir.walk(root)):
        # in tail position `b.then(|| R).transpose()` (R a Result) is `if b { Ok(Some(R?)) } else { Ok(None) }`
        if m.get("k") == "MethodCall" and m.get("method") == "transpose" and not m.get("args") and m.get("_tail") is not None and (m.get("ty") or "").startswith("std::result::Result<std::option::Option<"):
            r = tir.strip(m["recv"])
            if r.get("k") == "MethodCall" and r.get("method") == "then" and len(r.get("args", [])) == 1 and (r["recv"].get("ty") or "").lstrip("&") == "bool":
                cl = tir.strip(r["args"][0])
                if cl.get("k") == "Closure" and not cl.get("params") and not _contains(cl["body"], ("Ret", "Break", "Continue")):
                    inner_ty = re.match(r"std::result::Result<(std::option::Option<(.*)>), ([^,]+)>$", m.get("ty") or "")
                    pay = inner_ty.group(2) if inner_ty else "()"
                    opt_ty = inner_ty.group(1) if inner_ty else "std::option::Option<()>"
                    tr = {"k": "Try", "ty": pay, "sp": cl["body"].get("sp"), "e": cl["body"], "canon": "then-transpose"}
                    some = {"k": "Call", "ty": opt_ty, "sp": m.get("sp"), "res": "def", "dk": "Ctor(Variant, Fn)", "path": "std::prelude::v1::Some", "args": [tr], "canon": "then-transpose"}
                    ok1 = {"k": "Call", "ty": m.get("ty"), "sp": m.get("sp"), "res": "def", "dk": "Ctor(Variant, Fn)", "path": "std::prelude::v1::Ok", "args": [some], "canon": "then-transpose"}
                    none = {"k": "Path", "ty": opt_ty, "sp": m.get("sp"), "res": "def", "dk": "Ctor(Variant, Const)", "path": "std::prelude::v1::None", "canon": "then-transpose"}
                    ok2 = {"k": "Call", "ty": m.get("ty"), "sp": m.get("sp"), "res": "def", "dk": "Ctor(Variant, Fn)", "path": "std::prelude::v1::Ok", "args": [none], "canon": "then-transpose"}
                    tl = m.get("_tail")
                    new_node = {"k": "If", "ty": m.get("ty"), "sp": m.get("sp"), "cond": r["recv"], "then": _as_block(ok1), "else": _as_block(ok2), "canon": "then-transpose", "_tail": tl}
                    m.clear()
                    m.update(new_node)
                    n_done += 1
                    continue
        # in tail position `x.map_err(From::from)` (or `Error::from`, `Into::into`) is `Ok(x?)`
        if m.get("k") == "MethodCall" and m.get("method") == "map_err" and m.get("_tail") is not None and len(m.get("args", [])) == 1 \
                and (m["recv"].get("ty") or "").startswith("std::result::Result<") and (m.get("ty") or "").startswith("std::result::Result<"):
            a = tir.strip(m["args"][0])
            if a.get("k") == "Path" and a.get("res") == "def" and re.search(r"(From(<.*>)?>?::from|Into(<.*>)?>?::into)$", a.get("path") or ""):
                pay = re.match(r"std::result::Result<(.*), [^,]+>$", m["recv"].get("ty") or "")
                tr = {"k": "Try", "ty": pay.group(1) if pay else "()", "sp": m["recv"].get("sp"), "e": m["recv"], "canon": "map_err-from"}
                tl = m.get("_tail")
                new_node = {"k": "Call", "ty": m.get("ty"), "sp": m.get("sp"), "res": "def", "dk": "Ctor(Variant, Fn)", "path": "std::prelude::v1::Ok", "args": [tr], "canon": "map_err-from", "_tail": tl}
                m.clear()
                m.update(new_node)
                n_done += 1
    # in tail position the Result combinators are the `?` forms: `x.map(F)` is `Ok(F(x?))`, `x.map(|p| V)` is `{ let p = x?; Ok(V) }`,
    # `x.and_then(|p| R)` is `{ let p = x?; R }` (the error type of x is the function's own: `map` / `and_then` keep it)
    for m in list(tir.walk(root)):
        if not (m.get("k") == "MethodCall" and m.get("method") in ("map", "and_then") and m.get("_tail") is not None and len(m.get("args", [])) == 1
                and (m["recv"].get("ty") or "").startswith("std::result::Result<") and (m.get("ty") or "").startswith("std::result::Result<")
                and (m.get("path") or "").startswith("std::result::Result")):
            continue
        a = tir.strip(m["args"][0])
        pay = re.match(r"std::result::Result<(.*), [^,]+>$", m["recv"].get("ty") or "")
        opay = re.match(r"std::result::Result<(.*), [^,]+>$", m.get("ty") or "")
        tr = {"k": "Try", "ty": pay.group(1) if pay else "()", "sp": m["recv"].get("sp"), "e": m["recv"], "canon": "tail-monad"}
        tl = m.get("_tail")
        new_node = None
        if m["method"] == "map" and a.get("k") == "Path" and a.get("res") == "def" and (a.get("dk") or "").startswith("Ctor"):
            inner = {k_: v_ for k_, v_ in a.items() if k_ not in ("k", "ty", "aty")}
            inner.update({"k": "Call", "ty": opay.group(1) if opay else None, "args": [tr], "canon": "tail-monad"})
            new_node = {"k": "Call", "ty": m.get("ty"), "sp": m.get("sp"), "res": "def", "dk": "Ctor(Variant, Fn)", "path": "std::prelude::v1::Ok", "args": [inner], "canon": "tail-monad", "_tail": tl}
        elif a.get("k") == "Closure" and len(a.get("params", [])) == 1 and not _contains(a["body"], ("Ret", "Break", "Continue", "Try")):
            let = {"k": "Let", "sp": m.get("sp"), "mac": [], "pat": a["params"][0], "init": tr, "els": None}
            body = a["body"]
            if m["method"] == "map":
                tail = {"k": "Call", "ty": m.get("ty"), "sp": m.get("sp"), "res": "def", "dk": "Ctor(Variant, Fn)", "path": "std::prelude::v1::Ok", "args": [body], "canon": "tail-monad", "_tail": tl}
            else:
                tail = body
                inner_t = tail
                while inner_t.get("k") == "Block" and inner_t.get("tail") is not None:
                    inner_t = inner_t["tail"]
                inner_t["_tail"] = tl
            new_node = {"k": "Block", "ty": m.get("ty"), "sp": m.get("sp"), "stmts": [let], "tail": tail, "canon": "tail-monad"}
        if new_node is not None:
            m.clear()
            m.update(new_node)
            n_done += 1
    for blk in list(tir.walk(root)):
        while blk.get("k") == "Block" and isinstance(blk.get("tail"), dict) and blk["tail"].get("k") == "Block" and blk["tail"].get("canon") == "tail-monad":
            t = blk["tail"]
            blk["stmts"] = list(blk.get("stmts", [])) + list(t.get("stmts", []))
            blk["tail"] = t.get("tail")
    for blk in list(tir.walk(root)):
        if blk.get("k") != "Block":
            continue
        t = blk.get("tail")
        if isinstance(t, dict):
            nb = one(t)
            if nb is not None and nb.get("k") == "Block":
                blk["stmts"] = list(blk.get("stmts", [])) + nb["stmts"]
                blk["tail"] = nb["tail"]
                n_done += 1
    for m in list(tir.walk(root)):
        nb = one(m)
        if nb is not None:
            tl = m.get("_tail")
            m.clear()
            m.update(nb)
            if tl is not None:
                m["_tail"] = tl
            n_done += 1
    return n_done


# ------------------------------------------------------------------------------------------------ G: guard clauses

_ERR_FNS = set()


def _is_err_value(e):
    e = tir.strip(e or {})
    if e.get("k") == "Call" and ((e.get("path") or "").endswith("::Err") or (e.get("path") or "") in _ERR_FNS):
        return True
    return False


def always_err_fns(doc):
    """local functions whose body is just `Err(..)` (error-construction helpers such as `fn bad_data<T>(msg) -> Result<T>`)"""
    out = set()
    for b in doc["bodies"]:
        if b.get("tir") and b["kind"] in ("Fn", "AssocFn"):
            v = tir.strip(b["tir"]["value"])
            if v.get("k") == "Call" and (v.get("path") or "").endswith("::Err"):
                out.add(b["path"])
    return out


def _ends_with_plain_return(blk):
    """(prefix statements, returned value) when the block is `{ stmts..; return X; }` / `{ stmts..; return X }` with X not an Err(..)"""
    if blk.get("k") != "Block":
        return None
    stmts = list(blk.get("stmts", []))
    last = blk.get("tail")
    if last is None and stmts and stmts[-1].get("k") == "Expr":
        last = stmts[-1]["e"]
        stmts = stmts[:-1]
    if not isinstance(last, dict) or last.get("k") != "Ret" or last.get("e") is None or _is_err_value(last["e"]):
        return None
    if any(x.get("k") == "Ret" for s in stmts for x in tir.walk(s)):
        return None
    return stmts, last["e"]


def guards_to_if_else(body_root):
    """In the tail chain of a function body, `if c { ..; return X; } rest` (X not an error) becomes `if c { ..; X } else { rest }`:
    in tail position returning X and evaluating to X are the same thing."""
    n = 0
    blk = body_root
    while isinstance(blk, dict) and blk.get("k") == "Block":
        stmts = blk.get("stmts", [])
        hit = None
        for i, s in enumerate(stmts):
            e = s.get("e") if s.get("k") == "Expr" else None
            if isinstance(e, dict) and e.get("k") == "If" and e["cond"].get("k") != "LetCond" and not e.get("else"):
                r = _ends_with_plain_return(e["then"])
                if r is not None:
                    hit = (i, e, r)
                    break
            # anything else that returns makes the rest of the chain not a pure tail: stop
            if any(x.get("k") == "Ret" and not _is_err_value(x.get("e")) for x in tir.walk(s) if x.get("k") == "Ret"):
                break
        if hit is None:
            t = blk.get("tail")
            # follow into an if/else in tail position: both branches are tails
            if isinstance(t, dict) and t.get("k") == "If" and t.get("else"):
                n += guards_to_if_else(t["then"]) + guards_to_if_else(t["else"])
            return n
        i, e, (pre, val) = hit
        rest = {"k": "Block", "ty": blk.get("ty"), "sp": e.get("sp"), "stmts": stmts[i + 1:], "tail": blk.get("tail"), "canon": "guard-else"}
        new_if = {"k": "If", "ty": blk.get("ty"), "sp": e.get("sp"), "cond": e["cond"],
                  "then": {"k": "Block", "ty": blk.get("ty"), "sp": e["then"].get("sp"), "stmts": pre, "tail": val},
                  "else": rest, "canon": "guard-clause"}
        blk["stmts"] = stmts[:i]
        blk["tail"] = new_if
        n += 1
        blk = rest
    return n


def let_else_return_to_if_let(root):
    """In a block in tail position of a body, `let P = e else { return T }; rest..; T` with T a constant success value
    (`Ok(())`, `None`, `()`..) and no other non-error return in rest is `if let P = e { rest.. }; T`. (Tail marks must be present.)"""
    n = 0

    def const_value(e):
        e = tir.strip(e or {})
        if e.get("k") == "Call" and (e.get("path") or "").endswith(("::Ok", "::Some")) and len(e.get("args", [])) == 1:
            return const_value(e["args"][0])
        if e.get("k") == "Tup" and not e.get("elems"):
            return True
        if e.get("k") == "Path" and e.get("res") == "def" and (e.get("path") or "").endswith("::None"):
            return True
        if e.get("k") == "Lit":
            return True
        return False

    for blk in list(tir.walk(root)):
        if blk.get("k") != "Block" or blk.get("_tail") is None:
            continue
        stmts = blk.get("stmts", [])
        tail = blk.get("tail")
        unit = tail is None
        general = not unit and not const_value(tail)
        for i, s in enumerate(stmts):
            if s.get("k") == "Let" and isinstance(s.get("els"), dict):
                els = s["els"]
                r = None
                if els.get("k") == "Block" and not els.get("stmts") and (els.get("tail") or {}).get("k") == "Ret":
                    r = els["tail"]
                elif els.get("k") == "Block" and len(els.get("stmts", [])) == 1 and els.get("tail") is None and (els["stmts"][0].get("e") or {}).get("k") == "Ret":
                    r = els["stmts"][0]["e"]
                if r is None:
                    continue
                rv = tir.strip(r["e"]) if r.get("e") is not None else None
                if general or (not unit and rv is not None and tir.pretty(rv) != tir.pretty(tir.strip(tail))):
                    # `let P = e else { return T }; rest..; X` in tail position is `if let P = e { rest..; X } else { T }`
                    if rv is None or _is_err_value(rv):
                        continue
                    rest = stmts[i + 1:]
                    cond = {"k": "LetCond", "ty": "bool", "sp": s.get("sp"), "pat": s["pat"], "init": s["init"]}
                    then = {"k": "Block", "ty": blk.get("ty"), "sp": s.get("sp"), "stmts": rest, "tail": tail, "_tail": blk.get("_tail")}
                    other = {"k": "Block", "ty": blk.get("ty"), "sp": r.get("sp"), "stmts": [], "tail": r["e"], "_tail": blk.get("_tail")}
                    blk["stmts"] = stmts[:i]
                    blk["tail"] = {"k": "If", "ty": blk.get("ty"), "sp": s.get("sp"), "cond": cond, "then": then, "else": other, "canon": "let-else-return", "_tail": blk.get("_tail")}
                    n += 1
                    break
                if unit:
                    if not (rv is None or rv.get("k") == "Tup" and not rv.get("elems")):
                        continue
                elif rv is None or tir.pretty(rv) != tir.pretty(tir.strip(tail)):
                    continue
                rest = stmts[i + 1:]
                if any(x.get("k") == "Ret" and not _is_err_value(x.get("e")) for st in rest for x in _strip_closures(st)):
                    continue
                cond = {"k": "LetCond", "ty": "bool", "sp": s.get("sp"), "pat": s["pat"], "init": s["init"]}
                then = {"k": "Block", "ty": "()", "sp": s.get("sp"), "stmts": rest, "tail": None}
                new_if = {"k": "If", "ty": "()", "sp": s.get("sp"), "cond": cond, "then": then, "canon": "let-else-return"}
                blk["stmts"] = stmts[:i] + [{"k": "Expr", "e": new_if, "semi": False}]
                then["_tail"] = None
                n += 1
                break
    return n


def last_return_to_try(root):
    """In a body whose tail is the constant `Ok(())`, a `return E` (E a Result of the body's type, not an `Err(..)`) that is the
    last thing executed before that tail — the end of the last statement, through nested `if` / `if let` / blocks without
    else-branches after it — is `E?;`: if E is Err both return it, if it is Ok(()) both end with Ok(()). (Tail marks present.)"""
    n = 0
    if root.get("k") != "Block" or root.get("tail") is None:
        return 0
    t = tir.strip(root["tail"])
    if not (t.get("k") == "Call" and (t.get("path") or "").endswith("::Ok") and len(t.get("args", [])) == 1 and tir.strip(t["args"][0]).get("k") == "Tup" and not tir.strip(t["args"][0]).get("elems")):
        return 0
    rty = root.get("ty")

    def last_of(blk):
        """rewrite a trailing `return E` at the end of blk (a Block) or of the last nested if in it"""
        nonlocal n
        if blk.get("k") != "Block":
            return
        if blk.get("tail") is not None:
            e = blk["tail"]
            holder, key = blk, "tail"
        elif blk.get("stmts"):
            st = blk["stmts"][-1]
            if st.get("k") != "Expr":
                return
            e = st["e"]
            holder, key = st, "e"
        else:
            return
        if e.get("k") == "Ret" and e.get("e") is not None and not _is_err_value(e["e"]) and e["e"].get("ty") == rty:
            tr = {"k": "Try", "ty": "()", "sp": e.get("sp"), "e": e["e"], "canon": "last-return"}
            if key == "tail":
                blk["stmts"] = list(blk.get("stmts", [])) + [{"k": "Expr", "e": tr, "semi": True}]
                blk["tail"] = None
            else:
                holder["e"] = tr
                holder["semi"] = True
            n += 1
        elif e.get("k") == "If":
            last_of(e["then"])
            if e.get("else") is not None:
                last_of(e["else"])
        elif e.get("k") == "Block":
            last_of(e)
        elif e.get("k") == "Match":
            for a in e["arms"]:
                if a["body"].get("k") == "Block":
                    last_of(a["body"])
    if root.get("stmts"):
        st = root["stmts"][-1]
        if st.get("k") == "Expr" and isinstance(st.get("e"), dict):
            fake = {"k": "Block", "stmts": [st], "tail": None}
            last_of(fake)
    return n


# ------------------------------------------------------------------------------------------------ K: new constants

PRIM_SIZE = {"u8": 1, "i8": 1, "bool": 1, "u16": 2, "i16": 2, "u32": 4, "i32": 4, "f32": 4, "u64": 8, "i64": 8, "f64": 8, "usize": 8, "isize": 8, "u128": 16, "i128": 16}


def const_int_value(doc, path, bodies, depth=0):
    """value of an integer constant item built from literals, casts, + - * / %, size_of::<prim>() and other such constants; None otherwise"""
    b = bodies.get(path)
    if b is None or depth > 6:
        return None

    def ev(e):
        e = tir.strip(e)
        k = e.get("k")
        if k == "Lit" and e.get("lit") == "int":
            return e.get("v")
        if k == "Cast" and e.get("ty") in INT_RANGE:
            v = ev(e["e"])
            if v is None:
                return None
            lo, hi = INT_RANGE[e["ty"]]
            return v if lo <= v <= hi else None
        if k == "Unary" and e.get("op") == "Neg":
            v = ev(e["e"])
            return None if v is None else -v
        if k == "Binary" and e.get("op") in ("Add", "Sub", "Mul", "Div", "Rem"):
            l, r = ev(e["l"]), ev(e["r"])
            if l is None or r is None:
                return None
            if e["op"] in ("Div", "Rem"):
                if r <= 0 or l < 0:
                    return None
                return l // r if e["op"] == "Div" else l % r
            return l + r if e["op"] == "Add" else (l - r if e["op"] == "Sub" else l * r)
        if k == "Path" and e.get("res") == "def" and "Const" in (e.get("dk") or ""):
            return const_int_value(doc, e.get("path"), bodies, depth + 1)
        if k == "Call" and (e.get("path") or "") in ("std::mem::size_of", "core::mem::size_of") and not e.get("args") and (e.get("gargs") or [None])[0] in PRIM_SIZE:
            return PRIM_SIZE[e["gargs"][0]]
        return None
    return ev(b["tir"]["value"])


def const_expr_value(doc, path, bodies, depth=0):
    """the defining expression of a constant that is a string literal, or an array / reference of integer-valued elements,
    with the elements folded to literals; None otherwise"""
    b = bodies.get(path)
    if b is None or depth > 6:
        return None

    def ev(e):
        e = tir.strip(e)
        k = e.get("k")
        if k == "Lit" and e.get("lit") in ("str", "bytestr", "bool", "char"):
            return copy.deepcopy(e)
        if k == "AddrOf" and not e.get("mut"):
            v = ev(e["e"])
            if v is None:
                return None
            o = dict(e)
            o["e"] = v
            return o
        if k == "Array":
            out = []
            for x in e.get("elems", []):
                xs = tir.strip(x)
                if xs.get("k") == "Lit" and xs.get("lit") == "int":
                    out.append(copy.deepcopy(xs))
                    continue
                if xs.get("k") == "Path" and xs.get("res") == "def" and "Const" in (xs.get("dk") or ""):
                    v = const_int_value(doc, xs.get("path"), bodies, depth + 1)
                    if isinstance(v, int):
                        out.append({"k": "Lit", "ty": xs.get("ty"), "sp": xs.get("sp"), "lit": "int", "v": v})
                        continue
                return None
            o = dict(e)
            o["elems"] = out
            return o
        if k == "Path" and e.get("res") == "def" and "Const" in (e.get("dk") or ""):
            return const_expr_value(doc, e.get("path"), bodies, depth + 1)
        return None
    return ev(b["tir"]["value"])


def inline_new_consts(doc, pinned_consts):
    """a constant item (free or associated) that does not exist on the pinned tree and whose value is an integer constant
    expression, a string literal or a byte array is replaced by that value at its uses, in expressions and in patterns
    (`const BLOCK: usize = 512;`, `const PEPPI_JSON: &str = "peppi.json";`, `const MAGIC: [u8; 8] = [..];` named for readability)"""
    bodies = {}
    for b in doc["bodies"]:
        if b.get("tir") and ("Const" in b["kind"] or b["kind"].startswith("Static")):
            bodies.setdefault(b["path"], b)
    new = {}
    newx = {}
    for p, b in bodies.items():
        if p in pinned_consts or not b["kind"].startswith(("Const", "AssocConst")) or p.startswith("<") or "num_enum" in p or "_serde" in p or "::_::" in p:
            continue
        ty = b["tir"]["value"].get("ty")
        if ty in INT_RANGE:
            v = const_int_value(doc, p, bodies)
            if isinstance(v, int):
                new[p] = (v, ty)
        else:
            x = const_expr_value(doc, p, bodies)
            if x is not None:
                newx[p] = x
    if not new and not newx:
        return {}

    def f(n):
        if n.get("k") == "Path" and n.get("res") == "def" and "Const" in (n.get("dk") or ""):
            if n.get("path") in new:
                v, ty = new[n["path"]]
                return {"k": "Lit", "ty": ty, "sp": n.get("sp"), "lit": "int", "v": v, "canon": "const:" + n["path"].split("::")[-1]}
            if n.get("path") in newx:
                x = copy.deepcopy(newx[n["path"]])
                x["sp"] = n.get("sp")
                x["canon"] = "const:" + n["path"].split("::")[-1]
                if n.get("aty"):
                    x["aty"] = n["aty"]
                return x
        # arithmetic and casts over an inlined constant fold to the literal the pinned tree spells out (`BLOCK + 4`, `BLOCK as u16`)
        if n.get("k") == "Cast" and n.get("ty") in INT_RANGE:
            e = tir.strip(n["e"])
            if e.get("k") == "Lit" and e.get("lit") == "int" and (e.get("canon") or "").startswith("const:") and INT_RANGE[n["ty"]][0] <= e["v"] <= INT_RANGE[n["ty"]][1]:
                return {"k": "Lit", "ty": n["ty"], "sp": n.get("sp"), "lit": "int", "v": e["v"], "canon": e["canon"]}
        if n.get("k") == "Binary" and n.get("op") in ("Add", "Sub", "Mul") and n.get("ty") in INT_RANGE:
            l, r = tir.strip(n["l"]), tir.strip(n["r"])
            if l.get("k") == "Lit" and r.get("k") == "Lit" and l.get("lit") == "int" and r.get("lit") == "int" and ((l.get("canon") or "").startswith("const:") or (r.get("canon") or "").startswith("const:")):
                v = l["v"] + r["v"] if n["op"] == "Add" else (l["v"] - r["v"] if n["op"] == "Sub" else l["v"] * r["v"])
                if INT_RANGE[n["ty"]][0] <= v <= INT_RANGE[n["ty"]][1]:
                    return {"k": "Lit", "ty": n["ty"], "sp": n.get("sp"), "lit": "int", "v": v, "canon": l.get("canon") or r.get("canon")}
        return n
    def fix_pat(p):
        """constant patterns (`UBJSON_U8 => ..`) become literal patterns"""
        if not isinstance(p, dict):
            return p
        k = p.get("k")
        path = None
        if k == "Lit" and isinstance(p.get("e"), dict) and p["e"].get("k") == "Path":
            path = p["e"].get("path")
        elif k == "Path":
            path = p.get("path")
        if path in new:
            v, ty = new[path]
            return {"k": "Lit", "ty": ty, "sp": p.get("sp"), "e": {"k": "Lit", "neg": v < 0, "lit": "int", "v": abs(v)}, "canon": "const:" + path.split("::")[-1]}
        if path in newx and newx[path].get("k") == "Lit":
            x = newx[path]
            return {"k": "Lit", "ty": p.get("ty") or x.get("ty"), "sp": p.get("sp"), "e": {"k": "Lit", "neg": False, "lit": x.get("lit"), "v": x.get("v")}, "canon": "const:" + path.split("::")[-1]}
        if k == "Range":
            for key in ("lo", "hi"):
                e = p.get(key)
                if isinstance(e, dict) and e.get("k") == "Path" and e.get("path") in new:
                    v, ty = new[e["path"]]
                    p[key] = {"k": "Lit", "neg": v < 0, "lit": "int", "v": abs(v), "ty": ty}
        for key in ("sub", "pat", "mid"):
            if isinstance(p.get(key), dict):
                p[key] = fix_pat(p[key])
        for key in ("pats", "before", "after"):
            if isinstance(p.get(key), list):
                p[key] = [fix_pat(q) for q in p[key]]
        for fl in p.get("fields", []) or []:
            if isinstance(fl, dict) and "pat" in fl:
                fl["pat"] = fix_pat(fl["pat"])
        return p
    for b in doc["bodies"]:
        if b.get("tir"):
            b["tir"]["value"] = rewrite(b["tir"]["value"], f)
            for n in tir.walk(b["tir"]["value"]):
                if n.get("k") == "Match":
                    for a in n["arms"]:
                        a["pat"] = fix_pat(a["pat"])
                if n.get("k") in ("Let", "LetCond") and isinstance(n.get("pat"), dict):
                    n["pat"] = fix_pat(n["pat"])
    out = {k: v[0] for k, v in new.items()}
    out.update({k: "<%s>" % v.get("k") for k, v in newx.items()})
    return out


# ------------------------------------------------------------------------------------------------ entry point

LOG_MACROS = ("trace", "debug", "info", "warn", "error", "log")
DEBUG_ASSERTS = ("debug_assert", "debug_assert_eq", "debug_assert_ne")


def drop_noop_statements(root):
    """N: statements that compute nothing for the caller are removed from the typed tree: `debug_assert*!(..)` (absent from
    release builds; see DESIGN section 7 on the panic scope) and `log` macro calls whose arguments neither propagate an error
    nor write a place (`trace!("..", x)`); a log call containing `?` (the `info!` over serde_json in parse_metadata) is kept."""
    n = 0
    for blk in list(tir.walk(root)):
        if blk.get("k") != "Block":
            continue
        keep = []
        for s in blk.get("stmts", []):
            e = s.get("e") if s.get("k") == "Expr" else None
            drop = False
            if isinstance(e, dict):
                if tir.in_macro(e, *DEBUG_ASSERTS):
                    drop = True
                elif tir.in_macro(e, *LOG_MACROS) and any((m or "").endswith("log") for m in (e.get("mac") or [])) \
                        and not _contains(e, ("Try", "Ret", "Assign", "AssignOp", "Break", "Continue")) \
                        and not any(x.get("k") == "AddrOf" and x.get("mut") and not tir.in_macro(x, "format_args", "format") for x in tir.walk(e)):
                    drop = True
            if drop:
                n += 1
            else:
                keep.append(s)
        if len(keep) != len(blk.get("stmts", [])):
            blk["stmts"] = keep
        t = blk.get("tail")
        if isinstance(t, dict) and tir.in_macro(t, *DEBUG_ASSERTS) and (t.get("ty") in ("()", None)):
            blk["tail"] = None
            n += 1
    return n


# ------------------------------------------------------------------------------------------------ P: destructuring patterns

def _struct_pat(p):
    """(struct pattern, [(field name, sub-pattern)]) when p is `S { a, b, .. }` / `S(a, b, _)` of a struct (possibly behind
    `&`), every sub-pattern being a plain immutable by-value binding or `_`; None otherwise"""
    if not isinstance(p, dict):
        return None
    while p.get("k") == "Ref":
        p = p.get("pat") or {}
    if p.get("k") == "Struct" and (p.get("dk") or "") == "Struct":
        fields = [(f["name"], f["pat"]) for f in p.get("fields", [])]
    elif p.get("k") == "TupleStruct" and (p.get("dk") or "").startswith("Ctor(Struct"):
        fields = [(str(i), q) for i, q in enumerate(p.get("pats", []))]
    else:
        return None
    for _, q in fields:
        if q.get("k") == "Wild":
            continue
        if q.get("k") != "Bind" or q.get("sub") or (q.get("mode") or "") != "BindingMode(No, Not)":
            return None
    return p, fields


def destructure_patterns(t):
    """P: `let S { a, b, .. } = x;` / `let S(a, b, _) = *x;` / `|(i, S { a, .. })|` / `for S { a, .. } in ..` bind the fields of
    one value: the bindings are replaced by projections `x.a` of that value (of a fresh immutable binding of it when it is not
    already an immutable local or a shared reference), which is what the pinned tree writes"""
    root = t["value"]
    ids = [x.get("id") for x in tir.walk(root) if isinstance(x.get("id"), int)]
    for p in t.get("params", []):
        ps = []
        binding_pats(p, ps)
        ids += [q["id"] for q in ps if isinstance(q.get("id"), int)]
    for n in tir.walk(root):
        if n.get("k") in ("Let", "LetCond", "For"):
            ps = []
            binding_pats(n.get("pat"), ps)
            ids += [q["id"] for q in ps if isinstance(q.get("id"), int)]
        if n.get("k") == "Closure":
            for p in n.get("params", []):
                ps = []
                binding_pats(p, ps)
                ids += [q["id"] for q in ps if isinstance(q.get("id"), int)]
    fresh = [max(ids + [0]) + 1000]
    subst = {}
    count = [0]
    immut = {}
    for p in t.get("params", []):
        if p.get("k") == "Bind":
            immut[p.get("id")] = p
    for n in tir.walk(root):
        if n.get("k") == "Let" and (n.get("pat") or {}).get("k") == "Bind":
            immut[n["pat"].get("id")] = n["pat"]

    def new_bind(ty, name, sp):
        fresh[0] += 1
        return {"k": "Bind", "ty": ty, "sp": sp, "name": name, "id": fresh[0], "mode": "BindingMode(No, Not)", "canon": "destructured"}

    def register(fields, base, base_is_ref, spath=None):
        order = _STRUCT_FIELDS.get(spath or "", [])
        for fname, q in fields:
            if q.get("k") == "Bind":
                idx = int(fname) if fname.isdigit() else (order.index(fname) if fname in order else None)
                subst[q["id"]] = (base, fname, q.get("ty"), base_is_ref, idx)

    def replace_sub(holder, key):
        """holder[key] is a pattern: replace struct sub-patterns nested inside tuples / refs by fresh bindings"""
        p = holder[key]
        if not isinstance(p, dict):
            return
        sp_ = _struct_pat(p)
        if sp_ is not None:
            inner, fields = sp_
            if not any(q.get("k") == "Bind" for _, q in fields):
                return
            bty = p.get("ty")
            ftys = _STRUCT_FIELD_TYS.get(inner.get("path") or "", {})
            if p.get("k") != "Ref" and any(q.get("k") == "Bind" and (q.get("ty") or "").startswith("&") and not (ftys.get(fn_) or "&").startswith("&") for fn_, q in fields):
                bty = "&" + (bty or "")         # matched through a reference (default binding modes): the value bound is the reference
            nb = new_bind(bty, "d%d" % count[0], p.get("sp"))
            count[0] += 1
            holder[key] = nb
            base = {"k": "Path", "ty": nb["ty"], "sp": p.get("sp"), "res": "local", "name": nb["name"], "id": nb["id"]}
            register(fields, base, (nb["ty"] or "").startswith("&"), inner.get("path"))
            return
        if p.get("k") == "Tuple":
            for i in range(len(p.get("pats", []))):
                replace_sub(p["pats"], i)

    for n in list(tir.walk(root)):
        k = n.get("k")
        if k == "Let" and not n.get("els") and n.get("init") is not None:
            sp_ = _struct_pat(n.get("pat"))
            if sp_ is not None and any(q.get("k") == "Bind" for _, q in sp_[1]):
                init = n["init"]
                b = tir.strip(init)
                while b.get("k") == "Unary" and b.get("op") == "Deref" and not b.get("overloaded"):
                    b = tir.strip(b["e"])
                ok_base = False
                if b.get("k") == "Path" and b.get("res") == "local":
                    ty = b.get("ty") or ""
                    bp = immut.get(b.get("id"))
                    ok_base = (ty.startswith("&") and not ty.startswith("&mut")) or (bp is not None and (bp.get("mode") or "") == "BindingMode(No, Not)" and not ty.startswith("&mut"))
                if ok_base:
                    register(sp_[1], b, (b.get("ty") or "").startswith("&"), sp_[0].get("path"))
                    n["canon_drop"] = True
                else:
                    nb = new_bind(init.get("ty"), "d%d" % count[0], n["pat"].get("sp"))
                    count[0] += 1
                    n["pat"] = nb
                    base = {"k": "Path", "ty": nb["ty"], "sp": nb.get("sp"), "res": "local", "name": nb["name"], "id": nb["id"]}
                    register(sp_[1], base, (nb["ty"] or "").startswith("&"), sp_[0].get("path"))
            elif (n.get("pat") or {}).get("k") == "Tuple":
                replace_sub(n, "pat")
        elif k == "For":
            replace_sub(n, "pat")
        elif k == "Closure":
            for i in range(len(n.get("params", []))):
                replace_sub(n["params"], i)
    if not subst:
        return 0

    def f(x):
        if x.get("k") == "Path" and x.get("res") == "local" and x.get("id") in subst:
            base, fname, ty, is_ref, idx = subst[x["id"]]
            fty = ty
            out = {"k": "Field", "ty": fty, "sp": x.get("sp"), "name": fname, "idx": idx, "base": copy.deepcopy(base), "canon": "destructured"}
            if is_ref and (ty or "").startswith("&"):
                out["ty"] = ty[1:].strip()
                out["aty"] = ty
            if x.get("aty"):
                out["aty"] = x["aty"]
            return out
        return x
    t["value"] = rewrite(t["value"], f)
    for blk in tir.walk(t["value"]):
        if blk.get("k") == "Block" and any(s_.get("canon_drop") for s_ in blk.get("stmts", [])):
            blk["stmts"] = [s_ for s_ in blk["stmts"] if not s_.get("canon_drop")]
    return len(subst)


_ENUM_CAST_FROMS = set()
_STRUCT_FIELDS = {}
_STRUCT_FIELD_TYS = {}


def enum_cast_froms(doc):
    """local `impl From<E> for <int>` functions whose whole body is `param as <int>`"""
    out = set()
    for b in doc["bodies"]:
        p = b.get("path") or ""
        if b.get("tir") and b["kind"] in ("Fn", "AssocFn") and "<impl std::convert::From<" in p and p.endswith("::from"):
            t = b["tir"]
            v = tir.strip(t["value"])
            while v.get("k") == "Block" and not v.get("stmts") and v.get("tail") is not None:
                v = tir.strip(v["tail"])
            if v.get("k") == "Cast" and v.get("ty") in INT_RANGE and len(t["params"]) == 1 and t["params"][0].get("k") == "Bind":
                e = tir.strip(v["e"])
                if e.get("k") == "Path" and e.get("res") == "local" and e.get("id") == t["params"][0].get("id"):
                    out.add(p)
    return out


def canonicalise(doc):
    with open(os.path.join(VERIF, "rules", "anchors.json")) as fh:
        adoc = json.load(fh)
    anchors = adoc["fns"]
    n_noop = 0
    for b in doc["bodies"]:
        if b.get("tir"):
            n_noop += drop_noop_statements(b["tir"]["value"])
    if n_noop:
        doc["_noop_statements"] = n_noop
    kc = inline_new_consts(doc, set(adoc.get("consts", [])))
    if kc:
        doc["_inlined_consts"] = kc
    _STRUCT_FIELDS.clear()
    for st in doc["items"].get("structs", []):
        _STRUCT_FIELDS[st["path"]] = [f_["name"] for f_ in st.get("fields", [])]
        _STRUCT_FIELD_TYS[st["path"]] = {f_["name"]: f_.get("ty") for f_ in st.get("fields", [])}
    n_pat = 0
    for b in doc["bodies"]:
        if b.get("tir") and b["kind"] in ("Fn", "AssocFn") and "_serde" not in b["path"] and "num_enum" not in b["path"] and "::_::" not in b["path"]:
            n_pat += destructure_patterns(b["tir"])
    if n_pat:
        doc["_destructured_bindings"] = n_pat
    n_guards = 0
    _ENUM_CAST_FROMS.clear()
    _ENUM_CAST_FROMS.update(enum_cast_froms(doc))
    _ERR_FNS.clear()
    _ERR_FNS.update(always_err_fns(doc))
    for b in doc["bodies"]:
        if b.get("tir") and b["kind"] in ("Fn", "AssocFn"):
            mark_tails(b["tir"]["value"])
            n_guards += let_else_return_to_if_let(b["tir"]["value"])
            n_guards += last_return_to_try(b["tir"]["value"])
            clear_tails(b["tir"]["value"])
            n_guards += guards_to_if_else(b["tir"]["value"])
    if n_guards:
        doc["_guard_clauses"] = n_guards
    rep = inline_helpers(doc, anchors)
    n_loops = 0
    for b in doc["bodies"]:
        if b.get("tir") and b["kind"] in ("Fn", "AssocFn"):
            mark_tails(b["tir"]["value"])
            n_loops += match_to_try(b["tir"]["value"])
            n_loops += try_for_each_to_for(b["tir"]["value"])
            clear_tails(b["tir"]["value"])
            n_loops += accumulations_to_sums(b["tir"]["value"])
    if n_loops:
        doc["_loop_forms"] = n_loops
    for b in doc["bodies"]:
        if b.get("tir"):
            # derive-generated bodies (serde, num_enum) are never restyled by hand and are matched as generated: leave their spelling
            _GENERATED_BODY[0] = "_serde" in b["path"] or "::_::" in b["path"] or "num_enum" in b["path"]
            b["tir"]["value"] = rewrite(b["tir"]["value"], spell)
    _GENERATED_BODY[0] = False
    # closures produced by the O step can carry a struct pattern as their parameter (`Some(End { bytes, .. }) => ..`)
    for b in doc["bodies"]:
        if b.get("tir") and b["kind"] in ("Fn", "AssocFn") and "_serde" not in b["path"] and "num_enum" not in b["path"] and "::_::" not in b["path"]:
            n_pat += destructure_patterns(b["tir"])
    if n_pat:
        doc["_destructured_bindings"] = n_pat
    renamed, inlined = align_and_inline(doc, anchors)
    if rep:
        doc["_inlined_helpers"] = rep
    if renamed:
        doc["_renamed_locals"] = renamed
    if inlined:
        doc["_inlined_lets"] = inlined
    return doc
