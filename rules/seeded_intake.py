"""Intake of an independently written breaking change: seeded_intake.py <Cxx> <worktree> [--needs "..."]
 1. patch.diff := git diff of src/ in the worktree; demo := tests/demo_*.rs
 2. confirm in a fresh scratch worktree of /repo: suite passes with the change, demo fails with it and passes without it
 3. apply to /repo, run every claimed check, undo; record which checks reported it
 4. write /verif/seeded/<id>/{patch.diff, demo_*.rs, meta.json}"""
import json
import os
import shutil
import subprocess
import sys

VERIF = os.path.dirname(os.path.dirname(os.path.abspath(__file__)))
REPO = "/repo"


def sh(cmd, cwd=None, env=None):
    r = subprocess.run(cmd, cwd=cwd, env=env, capture_output=True, text=True, shell=isinstance(cmd, str))
    return r.returncode, r.stdout + r.stderr


def results(out):
    passed = sum(int(x.split(" passed")[0].split()[-1]) for x in out.splitlines() if x.startswith("test result:"))
    failed = sum(int(x.split(" failed")[0].split()[-1]) for x in out.splitlines() if x.startswith("test result:"))
    return passed, failed


def main():
    pid, wt = sys.argv[1], sys.argv[2]
    sid = sys.argv[3] if len(sys.argv) > 3 and not sys.argv[3].startswith("--") else pid
    needs = sys.argv[sys.argv.index("--needs") + 1] if "--needs" in sys.argv else ""
    out = os.path.join(VERIF, "seeded", sid)
    os.makedirs(out, exist_ok=True)
    rc, diff = sh(["git", "diff", "--", "src", "Cargo.toml"], cwd=wt)
    if not diff.strip():
        print("no src diff in", wt)
        return 1
    open(os.path.join(out, "patch.diff"), "w").write(diff)
    demos = [f for f in os.listdir(os.path.join(wt, "tests")) if f.startswith("demo_") and f.endswith(".rs")]
    if not demos:
        print("no demo test in", wt)
        return 1
    for d in demos:
        shutil.copy(os.path.join(wt, "tests", d), os.path.join(out, d))
    extra = []
    rc, st = sh(["git", "status", "--short", "tests"], cwd=wt)
    for line in st.splitlines():
        f = line[3:].strip()
        if f.startswith("tests/") and not f.endswith(".rs") and os.path.isfile(os.path.join(wt, f)):
            extra.append(f)
    # 2. independent confirmation in a fresh worktree
    scratch = "/tmp/seed-verify-%s" % sid
    sh(["git", "-C", REPO, "worktree", "remove", "--force", scratch])
    shutil.rmtree(scratch, ignore_errors=True)
    rc, o = sh(["git", "-C", REPO, "worktree", "add", "-q", scratch, "HEAD"])
    env = dict(os.environ, CARGO_NET_OFFLINE="true", CARGO_TARGET_DIR="/tmp/seed-verify-target")
    ran = []
    try:
        for d in demos:
            shutil.copy(os.path.join(out, d), os.path.join(scratch, "tests", d))
        for f in extra:
            os.makedirs(os.path.dirname(os.path.join(scratch, f)), exist_ok=True)
            shutil.copy(os.path.join(wt, f), os.path.join(scratch, f))
        demo_args = sum([["--test", d[:-3]] for d in demos], [])
        rc0, o0 = sh(["cargo", "test", "--offline", "--no-fail-fast"] + demo_args, cwd=scratch, env=env)
        ran.append("cargo test --offline %s (original tree): rc=%d %s" % (" ".join(demo_args), rc0, results(o0)))
        rc, o = sh(["git", "apply", os.path.join(out, "patch.diff")], cwd=scratch)
        if rc != 0:
            print("patch does not apply to HEAD:", o)
            return 1
        rc1, o1 = sh(["cargo", "test", "--offline", "--no-fail-fast"] + demo_args, cwd=scratch, env=env)
        ran.append("cargo test --offline %s (with change): rc=%d %s" % (" ".join(demo_args), rc1, results(o1)))
        # the existing suite, without the demo
        for d in demos:
            os.unlink(os.path.join(scratch, "tests", d))
        rc2, o2 = sh(["cargo", "test", "--offline", "--no-fail-fast"], cwd=scratch, env=env)
        ran.append("cargo test --offline (existing suite, with change): rc=%d %s" % (rc2, results(o2)))
        confirmed = rc0 == 0 and rc1 != 0 and rc2 == 0
    finally:
        sh(["git", "-C", REPO, "worktree", "remove", "--force", scratch])
        shutil.rmtree(scratch, ignore_errors=True)
    # 3. run the checks against /repo with the change applied
    caught = {}
    rc, o = sh(["git", "-C", REPO, "status", "--short", "--untracked-files=no"])
    if o.strip():
        print("refusing: /repo has local modifications")
        return 1
    rc, o = sh(["git", "-C", REPO, "apply", os.path.join(out, "patch.diff")])
    try:
        man = json.load(open(os.path.join(VERIF, "MANIFEST.json")))
        evid = "/tmp/seed-evid-%s" % sid
        os.makedirs(evid, exist_ok=True)
        env2 = dict(os.environ, PEPPI_EVID=evid)
        for c in man["checks"]:
            p = c["property_id"]
            rcx, ox = sh([os.path.join(VERIF, "check"), p, "--tier", "quick"], cwd=VERIF, env=env2)
            if rcx != 0:
                rules = sorted(set(l.strip().split(":")[0] for l in ox.splitlines() if l.startswith("  ")))
                caught[p] = {"exit": rcx, "rules": rules[:8], "first": next((l.strip()[:300] for l in ox.splitlines() if l.startswith("  ")), "")}
        shutil.rmtree(evid, ignore_errors=True)
    finally:
        sh(["git", "-C", REPO, "checkout", "--", "."])
    meta = {
        "property": pid, "id": sid, "needs_to_manifest": needs, "patch": "patch.diff", "demonstration": demos,
        "confirmed": confirmed, "what_i_ran": ran,
        "caught_by": caught, "caught_by_own_property": pid in caught and caught[pid]["exit"] == 1,
    }
    json.dump(meta, open(os.path.join(out, "meta.json"), "w"), indent=1)
    print(json.dumps({k: meta[k] for k in ("property", "confirmed", "caught_by_own_property")}), "caught_by:", {k: v["rules"] for k, v in caught.items()})
    for r in ran:
        print("  ", r)
    return 0


if __name__ == "__main__":
    sys.exit(main())
